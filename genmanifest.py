#!/usr/bin/env python3
"""Regenerates MANIFEST.json from the table below + which rules/props/Cxx.py exist."""
import json, os
HERE = os.path.dirname(os.path.abspath(__file__))
props = [json.loads(l) for l in open(os.path.join(HERE, "properties.jsonl"))]

LEVEL = {
 "C05": ("Structural necessary conditions of TTL safety decided on every path of the cache code: the only public lookup filters TTL 0, the reported TTL is the floor of saturating (expiry - fresh now), expiry = now + ttl, TTL-0 records never reach Cache::insert, upsert replaces an equal value, unchecked getters have no production caller; the TTL guard tests the very record that is inserted; a lookup hands out every record list of the name for ANY and the list of the asked type otherwise. Behaviour along timed histories is declined.", "3/C05"),
}
LEVEL.update({
 "C18": ("The ProtocolMode -> record-type order table, the link between the iterated type, the question asked and the family filter of get_ip, the two destinations handed to query_nameserver (resolved ip + configured port; configured forwarder) and the plumbing of those values from the CLI to the sockets are decided as dataflow facts over every path, including the FromStr table of the mode, the server copying each setting from the same-named CLI field, get_ip following aliases of any type before the family filter, and addresses the resolver holds being found (glue only for its own type; an empty hosts/hints answer falls through to the cache). Nothing about routing below the socket API is claimed.", "3/C18"),
 "C19": ("The lock discipline that makes reload atomic is decided on every path: single write site, dominated by a successful load, one whole-value store through the guard, no await while the write guard is live, one read guard (or an owned snapshot) spanning resolve(), loader failure flag set on every error arm and never cleared; and what a successful load contains (every non-directory entry of every configured directory, each zone file merged into the zone of its apex, hosts combined and merged last); the shared cache, which a reload does not replace, only ever receives upstream data; no blocking std::fs call in an async body; the parsers' rejection rules (C11.1, C14.3), their freedom from panics (C17.1) and the merge rules (C12.1, C12.2) are decided here as well. Timing of signals against in-flight queries is reduced to this discipline.", "3/C19"),
})
LEVEL.update({
 "C06": ("The filter is decided structurally on every path of the validator: the six request/response conditions gate `true`; a reply is returned only behind that gate; every record admitted from a reply section is control-dependent on a test of its own owner; the CNAME admit-map is filled only by the chain walk and targets must agree; NS hosts/match name only for strictly closer ancestors; glue only for selected hosts and only from the permitted sections; a glue record returned as the answer has the asked type and the question's name; only fields of the validator's result reach the cache. What an adversarial reply achieves beyond these gates is declined.", "3/C06"),
})
LEVEL.update({
 "C01": ("On every path of resolve_local the cache is read only after the selected zone was found non-authoritative, a non-authoritative hit reaches the cache only for ANY/empty answers, prioritising_merge keeps the local side at all six call sites, the zone is chosen longest-suffix-first, a Done local result short-circuits every upstream call, NXDOMAIN/AA provenance is confined to the authoritative arms, no record list is emptied or moved out of in the resolver cluster, and the server keeps sections, AA and RCODE per result variant (SERVFAIL only for a reply with nothing in answer and authority); an empty answer of a non-authoritative zone falls through to the cache; what local data supplies is what the files define (the merge and record-fidelity rules of C12 / C02, decided here as well). Equality of answers with an oracle is declined.", "3/C01"),
 "C08": ("Termination mechanisms are decided structurally: the only entry to the timeout-less resolvers is through a constant <=60 s tokio timeout; the set of functions that can await network I/O without a timeout is exactly the six transport helpers and each is awaited under a constant <=5 s timeout; the limit/duplicate guards dominate every re-entrant call; push/pop is a balanced {0,1} typestate; Context's predicates are len==capacity / contains with capacity RECURSION_LIMIT; every resolver loop has a progress step; the wire decoder an upstream reply goes through cannot spin (C03.2 - C03.4 decided here as well); the resolver never fabricates a ResourceRecord. Wall-clock behaviour is declined.", "3/C08"),
 "C10": ("Chain order is decided at all concatenation sites (chain so far is the receiver, nested resolution appended), follow-up questions keep qtype/qclass and take the alias target, the shared cluster guards and push/pop typestate bound alias loops (with the limit test, duplicate test and capacity of the question stack they consult), follow_cnames returns None on a revisit, aliases are suppressed for CNAME/ANY questions; the alias records themselves are faithful (owner = question name from a zone or wildcard; exactly the walked links from an upstream answer). All alias graphs over all sources are declined.", "3/C10"),
})
LEVEL.update({
 "C02": ("The lookup algorithm's shape is decided on every path: records leave the zone only through to_rr (owner/TTL/data fidelity), referral before CNAME before answer with their exact guards, the per-query-type answer table, child-then-wildcard-then-referral-then-name-error descent on a strictly shorter label slice, and no referral from the apex node; an Answer is built only where no CNAME applies (CNAME/ANY asked, CNAME set missing or empty). Which records a given zone holds is a run-time value and is declined.", "3/C02"),
 "C12": ("Union-with-dedupe at the record-set level, a moved-before-dropped typestate showing no part of a merged-in zone is silently dropped, SOA value and apex SOA RRset updated together, last-writer-wins direction of the hosts maps (which nothing else rearranges), a node's wildcard set adopted only where it had none, sorted directory listings, path lists that are only ever appended to, and the load/merge order, plus the all-or-nothing loader flag, are decided on every path. Equality of answers between the merged zone and its parts is declined.", "3/C12"),
})
LEVEL.update({
 "C15": ("The bookkeeping invariants that exactness of prune rests on are decided statically: each shared operation is one lock around one Cache call (field private, no unsafe), on every enumerated path of upsert the tuple count, Partition.size and current_size move together, both sizes drop by the same counted amount in the expired walk, queue updates are paired with last_read/next_expiry stores and partition insert/remove, next_expiry is only ever a minimum over all records of the name, eviction happens only in `while current_size > desired_size` after the expired walk, the report fields have the documented origins, and the server publishes that report on every path. LRU order and counts along histories are declined; loop termination is conditional on these invariants.", "3/C15"),
})
LEVEL.update({
 "C14": ("The line state machine is checked as a typestate over feasible paths (the reading-name state is never left without flushing the name or failing), together with the transition table for '#', '%', non-ASCII and parse failures, a token's slice starting at the index of the character that opened it, the stored address being the address as parsed (no conversion between parse and family dispatch), the v4/A and v6/AAAA family tables of all converters, the serialiser's per-family output, the tools' call pairs and their non-zero exit on a parse error, per-family replacement across merged files. hosts(5) semantics over arbitrary text is declined.", "3/C14"),
 "C16": ("Well-formedness is decided by ownership and dominance: only the constructors can build DomainName/Label, no field is mutated elsewhere, the 63/255 limits and the root-label conditions dominate every construction, the recorded length is accumulated only from label count and label lengths, bytes pass through to_ascii_lowercase, comparison/hash impls are derived, is_subdomain_of is slice::ends_with; the text reader splits the text as given and gives up only for an unbuildable or interior-empty label, and the text writer emits every octet verbatim. The dotted-text round trip is declined.", "3/C16"),
})
LEVEL.update({
 "C09": ("The request path's shape is decided on every path: the four dispatch outcomes of handle_raw_message, header-field origins of make_response / FORMERR, the triage table and REFUSED arm (a question is unknown when its type or its class is), RA = !authoritative_only and recursion iff RD && RA, the 512-byte cut with TC and the TCP length prefix, a TCP read loop that is left at EOF, the UDP handler receiving exactly the octets recv_from reported, a decoder that cannot spin on a datagram, single send/handle sites outside loops, the section/AA/RCODE map per resolver result, serve loops without exit edges and process::exit confined to start-up. One clause is violated on the pinned tree and recorded as a known finding (referral NS records reach the answer section in authoritative-only mode). Live socket behaviour is declined.", "3/C09"),
})
LEVEL.update({
 "C04": ("Codec agreement is decided as table/sequence equality extracted from the program: the six integer<->enum tables are mutually inverse, match the RFC code points and carry unlisted values through; the writer's and reader's field sequences agree per RDATA variant, for the header bit layout, question and RR prefix, and with an embedded RFC 1035/2782/3596 table; RDLENGTH back-patching, the 14-bit bound on memoised offsets, pointer emission and section counts have the required shapes; each header flag bit is written under its own field alone; the fixed-layout part is rejected only when a read runs out (a bare 12-octet header decodes). Equality decode(encode(m)) == m over all message values is declined.", "3/C04"),
})
LEVEL.update({
 "C03": ("Every panic-capable site (bounds assertions, slice ranges, arithmetic assertions, unwraps) in the 26 functions reachable from Message::from_octets is enumerated from MIR and discharged by a linear-constraint argument over dominating comparisons on the same cursor, range-loop indices, a magnitude rule for additions, or a checked structural justification; every decoder loop consumes input; compression pointers are followed only to a strictly earlier 14-bit offset and no call cycle is reachable from the decoder (so the stack depth does not depend on the message); errors carry the header ID; the strictness guards (63/192/255/RDLENGTH) dominate acceptance; the reader layout and the code tables equal the RFC's; every section is read to its count (no early exit that goes on decoding). Agreement with a reference decoder is declined (DESIGN.md section 3/C03).", "3/C03"),
})
LEVEL.update({
 "C17": ("All panic-capable sites in the 44 functions reachable from Zone::deserialise / Hosts::deserialise (72 indexing sites, string slices, arithmetic assertions, unwraps) are enumerated from MIR and discharged by linear constraints over dominating length comparisons (all guard shapes: >=, ==, match guards, early-return disjunctions via CUT-REACH), range-loop / iterator-non-empty facts, or checked structural justifications; every parser loop consumes input; recursion is on a strictly shorter label slice of a name bounded by the 255-octet limit (the construction guards of C16.3, decided here as well); the loader turns errors into the failure flag.", "3/C17"),
})
LEVEL.update({
 "C13": ("The writer's escape classes (all 256 octets x quoted/unquoted) and the tokeniser's character classes (4 states x 130 characters) are extracted as condition tables from the MIR and compared exhaustively: everything written literally is an ordinary token character, every special character is escaped, backslash-X never uses a digit, backslash-DDD is written and read as the same three decimal digits; RecordType Display/FromStr tables are inverse; every RDATA variant the writer prints has a parser arm with the same fields in the same order; every name of both record maps and every record (but the SOA) is written; $ORIGIN / relative-name conditions agree, and the reader builds the apex those conditions assume (SOA owner, or the root zone without a SOA). Whole-zone equality is declined (and `@`/`*` labels are documented as undecided).", "3/C13"),
})
LEVEL.update({
 "C11": ("The stated rejections ($INCLUDE, second SOA, wildcard SOA, outside the apex, no origin, nothing to inherit, class other than IN) exist and dominate loading; the inheritance state is updated first thing in both record arms; the @ / absolute / relative and * / *. dispatch with the origin in force handed to every entry parser, the apex being the SOA record's own owner, the SOA => authoritative apex construction and the max(soa.minimum, ttl) clamp on both insert paths have the required shape; no parser Result is discarded outside the documented back-tracking helper; every RDATA form has a parser arm with the writer's field order; the tokeniser's character classes are tabulated against the writer's (shared with C13.1) and its parenthesis / newline transitions against RFC 1035 section 5.1. That parsing yields exactly the denoted records for every rendering is declined.", "3/C11"),
})
TECH = {
 "C11": "custom MIR rules: error-exit guard sets, first-in-arm dominance, dispatch tables from edge facts, ORIGIN of constructor arguments, result-consumption (error discipline) scan, TABULATE",
 "C13": "custom MIR rules: TABULATE (path conditions over constants evaluated on finite domains), ARM-TABLE inversion, format-template decoding, sibling agreement of writer/parser arms",
 "C17": "custom MIR rules: panic-site enumeration + linear-constraint discharge over edge conditions (CUT-REACH for disjunctive guards), loop progress, recursion measure",
 "C03": "custom MIR rules: panic-site enumeration + discharge by linear constraints over dominating edge conditions (LEN-AI), loop progress, recursion measure, who-constructs, reader SEQ vs RFC table",
 "C04": "custom MIR rules: ARM-TABLE extraction and inversion, SEQ (ordered call sequence per match arm) reader/writer comparison against an RFC layout table, guard dominance with constant bounds",
 "C09": "custom MIR rules: arm tables from edge facts, ORIGIN of stored header fields and sent slices, who-calls, loop exit-edge analysis across spawned closures",
 "C14": "custom MIR rules: typestate via CUT-REACH on feasible paths (scrutinee-consistent reachability), arm tables, ORIGIN of insert arguments",
 "C16": "custom MIR rules: who-constructs / who-writes, guard dominance with named-constant operands, accumulator-definition shapes, derived-impl inventory",
 "C15": "custom MIR rules: bounded path enumeration with symbolic counter effects (EFFECT), paired-update must-pass-through, min-fold shape via ORIGIN, who-calls",
 "C02": "custom MIR rules: closure-aware ORIGIN (map/collect/to_rr), guard sets per result variant, arm table, recursion-argument shape",
 "C12": "custom MIR rules: moved-before-dropped typestate, paired-update (must-pass-through) rule, ORIGIN of insert arguments, ordering by reachability",
 "C01": "custom MIR rules: CUT-REACH between zone selection and cache reads, argument-role ORIGIN at merge sites, who-constructs provenance",
 "C08": "custom MIR rules: who-calls, least-fixpoint of un-timed I/O over the call graph, guard dominance, push/pop typestate dataflow, loop progress (cycle breaking)",
 "C10": "custom MIR rules: ORIGIN classification of append operands, typestate, guard dominance",
 "C06": "custom MIR rules: CUT-REACH guard analysis keyed on the admitted record's own access path, arm tables per reply section, who-constructs, ORIGIN of cache-insert arguments",
 "C18": "custom MIR dataflow rules: arm-table extraction, ORIGIN of call arguments across await points, who-calls/who-constructs",
 "C19": "custom MIR rules: who-calls on the lock API, guard dominance, guard-liveness vs yield points (typestate over the CFG), must-pass-through on error arms",
 "C05": "custom MIR dataflow/dominance rules (rustc_private driver): who-calls, guard dominance (CUT-REACH), ORIGIN expression shape",
}
NA = {
 "C07": "functional correctness of iterative resolution over generated DNS universes: its truth lives in run-time values; its one structural sentence (referrals strictly closer) is decided under C06/C08 (DESIGN.md section 3, C07)",
}
checks = []
na = []
for p in props:
    pid = p["id"]
    if os.path.isfile(os.path.join(HERE, "rules", "props", pid + ".py")) and pid in LEVEL:
        text, ref = LEVEL[pid]
        checks.append({
            "property_id": pid,
            "quick_cmd": "./check %s --tier quick" % pid,
            "thorough_cmd": "./check %s --tier thorough" % pid,
            "evidence_file": "evidence/%s.json" % pid,
            "replay_cmd_template": "./check %s --replay {path}" % pid,
            "engine": "mirfacts+rules",
            "level_claimed": {"category": "other", "text": text, "design_ref": "DESIGN.md section " + ref},
            "level_note": "Trusted: rustc's type checker and MIR construction, cargo's build graph, documented contracts of std/bytes/tokio/priority-queue, the rule tables in /verif/rules. Decides structural necessary conditions only; the behavioural remainder is declined in DESIGN.md.",
            "technique": TECH[pid],
        })
    else:
        na.append({"property_id": pid, "reason": NA.get(pid, "check not built yet (framework under construction); see DESIGN.md")})
m = {
 "version": 1,
 "setup_cmd": "./setup.sh",
 "hooks": {"guard": "resolved_verif", "enable": "no hooks: the analysis reads the compiler's MIR of the unmodified sources (RUSTC_WORKSPACE_WRAPPER driver)", "baseline_off_cmd": "cd /repo && cargo test --workspace --no-fail-fast --offline", "source_commits": [], "add_only": True},
 "engines": [
  {"name": "mirfacts", "path": "mirfacts/", "serves_properties": [c["property_id"] for c in checks], "kind_free_text": "rustc_private driver hooking the mir_built query; dumps MIR, ADTs, consts, impls, unsafe inventory of all nine workspace targets as JSON"},
  {"name": "rules", "path": "rules/", "serves_properties": [c["property_id"] for c in checks], "kind_free_text": "Python rule library over a normal form of the MIR (calls to new helpers and awaited new async helpers expanded, iterator pipelines / Option-Result combinators rewritten as loops / matches with closures spliced in): CFG, dominators, reaching definitions / ORIGIN, edge conditions, CUT-REACH guards, who-calls/constructs/writes, per-property rule instances"},
 ],
 "checks": checks,
 "not_applicable": na,
 "notes": "Static analysis only. ./check <id> exits 0 (held), 1 with VIOLATION line (violated / anchor missing), 2 (tree does not build).",
}
json.dump(m, open(os.path.join(HERE, "MANIFEST.json"), "w"), indent=1)
print("checks:", [c["property_id"] for c in checks], "n/a:", [x["property_id"] for x in na])
