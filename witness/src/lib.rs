//! Compile-fail witnesses (engine E4): each item carries a `compile_fail,E0xxx` doc-test naming
//! the crates as an external user would, and a compiling twin (`no_run`) that differs only in
//! the offending line — a witness whose path is merely wrong would also "fail to compile".
//! Run with `cargo +nightly test --doc --offline` (stable ignores the error code).

/// C15: `SharedCache.cache` is private — nobody outside cache.rs can reach the `Mutex<Cache>`.
/// ```compile_fail,E0616
/// let c = dns_resolver::cache::SharedCache::new();
/// let _inner = &c.cache;
/// ```
/// ```no_run
/// let c = dns_resolver::cache::SharedCache::new();
/// let _n = c.prune();
/// ```
pub struct C15SharedCacheCachePrivate;

/// C16: `Label.octets` is private — a label can only be built through `new` / `try_from`.
/// ```compile_fail,E0616
/// let l = dns_types::protocol::types::Label::new();
/// let _o = &l.octets;
/// ```
/// ```no_run
/// let l = dns_types::protocol::types::Label::new();
/// let _o = l.octets();
/// ```
pub struct C16LabelOctetsPrivate;

/// C16: a `Label` cannot be constructed with a struct literal from outside.
/// ```compile_fail,E0451
/// let _l = dns_types::protocol::types::Label { octets: Default::default() };
/// ```
/// ```no_run
/// let _l = dns_types::protocol::types::Label::new();
/// ```
pub struct C16LabelNoLiteral;

/// C08: `Context.question_stack` is private — the recursion bookkeeping cannot be bypassed.
/// ```compile_fail,E0616
/// fn f(c: &dns_resolver::context::Context<'_, ()>) -> usize { c.question_stack.len() }
/// ```
/// ```no_run
/// fn f(c: &dns_resolver::context::Context<'_, ()>) -> bool { c.at_recursion_limit() }
/// ```
pub struct C08QuestionStackPrivate;

/// C12/C02: `Zone.soa` is private — the SOA value and the apex SOA record can only change together.
/// ```compile_fail,E0616
/// let z = dns_types::zones::types::Zone::default();
/// let _s = &z.soa;
/// ```
/// ```no_run
/// let z = dns_types::zones::types::Zone::default();
/// let _s = z.get_soa();
/// ```
pub struct C12ZoneSoaPrivate;

/// C12/C02: `Zone.records` is private.
/// ```compile_fail,E0616
/// let z = dns_types::zones::types::Zone::default();
/// let _r = &z.records;
/// ```
/// ```no_run
/// let z = dns_types::zones::types::Zone::default();
/// let _r = z.all_records();
/// ```
pub struct C12ZoneRecordsPrivate;

/// C04: reserved opcodes cannot be fabricated — only `Opcode::from(u8)` builds `OpcodeReserved`.
/// ```compile_fail,E0603
/// let _o = dns_types::protocol::types::Opcode::Reserved(dns_types::protocol::types::OpcodeReserved(3));
/// ```
/// ```no_run
/// let _o = dns_types::protocol::types::Opcode::from(3u8);
/// ```
pub struct C04OpcodeReservedPrivate;

/// C04: reserved rcodes cannot be fabricated.
/// ```compile_fail,E0603
/// let _o = dns_types::protocol::types::Rcode::Reserved(dns_types::protocol::types::RcodeReserved(9));
/// ```
/// ```no_run
/// let _o = dns_types::protocol::types::Rcode::from(9u8);
/// ```
pub struct C04RcodeReservedPrivate;

/// C04: unknown record types cannot be fabricated with a known type's code.
/// ```compile_fail,E0603
/// let _t = dns_types::protocol::types::RecordType::Unknown(dns_types::protocol::types::RecordTypeUnknown(1));
/// ```
/// ```no_run
/// let _t = dns_types::protocol::types::RecordType::from(1u16);
/// ```
pub struct C04RecordTypeUnknownPrivate;

/// C04: unknown record classes cannot be fabricated.
/// ```compile_fail,E0603
/// let _t = dns_types::protocol::types::RecordClass::Unknown(dns_types::protocol::types::RecordClassUnknown(1));
/// ```
/// ```no_run
/// let _t = dns_types::protocol::types::RecordClass::from(1u16);
/// ```
pub struct C04RecordClassUnknownPrivate;
