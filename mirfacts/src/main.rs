//! mirfacts: a rustc_private driver that dumps the freshly built MIR
//! (`mir_built`, before any optimisation / coroutine transform) of every
//! function-like body of the crate being compiled, together with ADT,
//! impl, constant and `unsafe` inventories, as one JSON file per crate.
//!
//! Used as `RUSTC_WORKSPACE_WRAPPER`; output directory in `MIRFACTS_OUT`.
//! The compilation continues afterwards so dependants get their metadata.
#![feature(rustc_private)]
#![allow(clippy::all)]

extern crate rustc_abi;
extern crate rustc_data_structures;
extern crate rustc_driver;
extern crate rustc_hir;
extern crate rustc_interface;
extern crate rustc_middle;
extern crate rustc_session;
extern crate rustc_span;

mod json;

use json::J;
use rustc_driver::{run_compiler, Callbacks, Compilation};
use rustc_hir::def::DefKind;
use rustc_hir::def_id::{DefId, LocalDefId, LOCAL_CRATE};
use rustc_interface::interface::Compiler;
use rustc_middle::mir::{
    self, AggregateKind, BasicBlock, Body, Const, ConstValue, Operand, Place, PlaceTy,
    ProjectionElem, Rvalue, StatementKind, TerminatorKind, UnevaluatedConst,
};
use rustc_middle::ty::print::{with_no_trimmed_paths, with_resolve_crate_name};
use rustc_middle::ty::{self, Instance, Ty, TyCtxt, TypingEnv};
use rustc_span::Span;
use rustc_data_structures::steal::Steal;
use std::collections::{BTreeSet, HashSet};
use std::sync::{Mutex, OnceLock};

const SCHEMA: i128 = 3;

struct Cb;

type MirBuiltFn = for<'tcx> fn(TyCtxt<'tcx>, LocalDefId) -> &'tcx Steal<Body<'tcx>>;
static ORIG_MIR_BUILT: OnceLock<MirBuiltFn> = OnceLock::new();

#[derive(Default)]
struct Store {
    fns: Vec<(String, J)>,
    adts: HashSet<DefId>,
    consts: Vec<(String, J)>,
    seen_consts: BTreeSet<String>,
    local_const_refs: BTreeSet<String>,
    n_blocks: i128,
    n_calls: i128,
    n_asserts: i128,
    n_stmts: i128,
}
static STORE: Mutex<Option<Store>> = Mutex::new(None);

fn with_store<R>(f: impl FnOnce(&mut Store) -> R) -> R {
    let mut g = STORE.lock().unwrap();
    if g.is_none() {
        *g = Some(Store::default());
    }
    f(g.as_mut().unwrap())
}

/// Replacement provider for `mir_built`: build the body with the original
/// provider, dump it, hand it on.  Every body is therefore recorded at the
/// moment it is built, before anything can steal it.
fn mir_built_hook<'tcx>(tcx: TyCtxt<'tcx>, def: LocalDefId) -> &'tcx Steal<Body<'tcx>> {
    let orig = ORIG_MIR_BUILT.get().expect("mirfacts: provider not saved");
    let steal = orig(tcx, def);
    if std::env::var_os("MIRFACTS_OUT").is_some() {
        let kind = tcx.def_kind(def);
        if matches!(
            kind,
            DefKind::Fn | DefKind::AssocFn | DefKind::Closure | DefKind::SyntheticCoroutineBody
        ) {
            with_no_trimmed_paths!(with_resolve_crate_name!({
                let body = steal.borrow();
                let mut cx = Cx {
                    tcx,
                    adts: HashSet::new(),
                    consts: Vec::new(),
                    local_const_refs: BTreeSet::new(),
                    n_blocks: 0,
                    n_calls: 0,
                    n_asserts: 0,
                    n_stmts: 0,
                };
                let path = tcx.def_path_str(def.to_def_id());
                let j = cx.dump_body(def, kind, &body);
                with_store(|st| {
                    st.fns.push((path, j));
                    st.adts.extend(cx.adts.iter().copied());
                    for (k, v) in cx.consts.drain(..) {
                        if st.seen_consts.insert(k.clone()) {
                            st.consts.push((k, v));
                        }
                    }
                    st.local_const_refs.extend(cx.local_const_refs.iter().cloned());
                    st.n_blocks += cx.n_blocks;
                    st.n_calls += cx.n_calls;
                    st.n_asserts += cx.n_asserts;
                    st.n_stmts += cx.n_stmts;
                });
            }));
        }
    }
    steal
}

impl Callbacks for Cb {
    fn config(&mut self, config: &mut rustc_interface::interface::Config) {
        config.override_queries = Some(|_sess, providers| {
            let _ = ORIG_MIR_BUILT.set(providers.queries.mir_built);
            providers.queries.mir_built = mir_built_hook;
        });
    }

    fn after_analysis<'tcx>(&mut self, _c: &Compiler, tcx: TyCtxt<'tcx>) -> Compilation {
        if let Ok(dir) = std::env::var("MIRFACTS_OUT") {
            with_no_trimmed_paths!(with_resolve_crate_name!(dump_crate(tcx, &dir)));
        }
        Compilation::Continue
    }
}

fn main() {
    let mut args: Vec<String> = std::env::args().collect();
    // as RUSTC_WORKSPACE_WRAPPER: argv[1] is the path of the real rustc
    if args.len() > 1 && (args[1].ends_with("rustc") || args[1].contains("/rustc")) {
        args.remove(1);
    }
    run_compiler(&args, &mut Cb);
}

struct Cx<'tcx> {
    tcx: TyCtxt<'tcx>,
    adts: HashSet<DefId>,
    consts: Vec<(String, J)>,
    local_const_refs: BTreeSet<String>,
    n_blocks: i128,
    n_calls: i128,
    n_asserts: i128,
    n_stmts: i128,
}

fn s(x: impl Into<String>) -> J {
    J::Str(x.into())
}
fn n(x: impl Into<i128>) -> J {
    J::Num(x.into())
}
fn n_(x: i128) -> J {
    J::Num(x)
}
fn obj(v: Vec<(&str, J)>) -> J {
    J::Obj(v.into_iter().map(|(k, v)| (k.to_string(), v)).collect())
}

fn span_loc(tcx: TyCtxt<'_>, sp: Span) -> (String, i128) {
    let sm = tcx.sess.source_map();
    // use the outermost call site for expanded code so the line is in user source
    let sp = sp.source_callsite();
    let lo = sm.lookup_char_pos(sp.lo());
    let name = format!("{}", lo.file.name.prefer_local_unconditionally());
    (name, lo.line as i128)
}

fn dump_crate<'tcx>(tcx: TyCtxt<'tcx>, dir: &str) {
    let crate_name = tcx.crate_name(LOCAL_CRATE).to_string();
    let kinds: Vec<String> = tcx.crate_types().iter().map(|k| format!("{k:?}")).collect();
    let mut cx = Cx {
        tcx,
        adts: HashSet::new(),
        consts: Vec::new(),
        local_const_refs: BTreeSet::new(),
        n_blocks: 0,
        n_calls: 0,
        n_asserts: 0,
        n_stmts: 0,
    };

    // ---- pass 1: make sure every body has been built (and so dumped) -----
    let owners: Vec<LocalDefId> = tcx.hir_body_owners().collect();
    let mut expected: Vec<String> = Vec::new();
    for def in owners {
        let kind = tcx.def_kind(def);
        match kind {
            DefKind::Fn | DefKind::AssocFn | DefKind::Closure | DefKind::SyntheticCoroutineBody => {}
            _ => continue,
        }
        expected.push(tcx.def_path_str(def.to_def_id()));
        let _ = tcx.mir_built(def); // no-op if already built; dumps through the hook otherwise
    }
    let mut store = STORE.lock().unwrap().take().unwrap_or_default();
    {
        let have: BTreeSet<&String> = store.fns.iter().map(|(k, _)| k).collect();
        let missing: Vec<&String> = expected.iter().filter(|e| !have.contains(e)).collect();
        if !missing.is_empty() {
            eprintln!("mirfacts: bodies never passed through the mir_built hook: {missing:?}");
            std::process::exit(101);
        }
    }
    store.fns.sort_by(|a, b| a.0.cmp(&b.0));
    let fns = std::mem::take(&mut store.fns);
    cx.adts.extend(store.adts.iter().copied());
    cx.n_blocks = store.n_blocks;
    cx.n_calls = store.n_calls;
    cx.n_asserts = store.n_asserts;
    cx.n_stmts = store.n_stmts;

    // ---- local ADTs, consts ----------------------------------------------
    let mut local_consts: Vec<(String, J)> = std::mem::take(&mut store.consts);
    let mut seen: BTreeSet<String> = local_consts.iter().map(|(k, _)| k.clone()).collect();
    for id in tcx.hir_crate_items(()).definitions() {
        let did = id.to_def_id();
        match tcx.def_kind(did) {
            DefKind::Struct | DefKind::Enum | DefKind::Union => {
                cx.adts.insert(did);
            }
            DefKind::Const { .. } | DefKind::AssocConst { .. } => {
                // only non-generic constants
                if tcx.generics_of(did).count() == 0 && tcx.generics_of(did).parent_count == 0 {
                    let key = tcx.def_path_str(did);
                    let c = Const::Unevaluated(
                        UnevaluatedConst {
                            def: did,
                            args: ty::GenericArgs::identity_for_item(tcx, did),
                            promoted: None,
                        },
                        tcx.type_of(did).instantiate_identity().skip_norm_wip(),
                    );
                    let env = TypingEnv::post_analysis(tcx, did);
                    if seen.insert(key.clone()) {
                        let v = cx.eval_const(c, env);
                        local_consts.push((key, v));
                    }
                }
            }
            _ => {}
        }
    }
    for (k, v) in cx.consts.drain(..) {
        if seen.insert(k.clone()) {
            local_consts.push((k, v));
        }
    }
    local_consts.sort_by(|a, b| a.0.cmp(&b.0));

    let mut impls: Vec<J> = Vec::new();
    for (trait_did, impl_ids) in tcx.all_local_trait_impls(()).iter() {
        for imp in impl_ids.iter() {
            let did = imp.to_def_id();
            let self_ty = tcx.type_of(did).instantiate_identity().skip_norm_wip();
            let (file, line) = span_loc(tcx, tcx.def_span(did));
            impls.push(obj(vec![
                ("trait", s(tcx.def_path_str(*trait_did))),
                ("self", s(format!("{self_ty}"))),
                ("derived", J::Bool(tcx.is_automatically_derived(did))),
                ("file", s(file)),
                ("line", n(line)),
            ]));
        }
    }

    // ---- ADT table --------------------------------------------------------
    let mut adts: Vec<(String, J)> = Vec::new();
    let mut adt_ids: Vec<DefId> = cx.adts.iter().copied().collect();
    adt_ids.sort_by_key(|d| tcx.def_path_str(*d));
    for did in adt_ids {
        let adt = tcx.adt_def(did);
        let mut variants = Vec::new();
        for (vi, v) in adt.variants().iter_enumerated() {
            let discr = if adt.is_enum() {
                let d = adt.discriminant_for_variant(tcx, vi);
                // signed-aware
                let val = d.val;
                let j = if d.ty.is_signed() {
                    let size = rustc_abi::Integer::from_attr(&tcx, adt.repr().discr_type()).size();
                    J::Num(size.sign_extend(val) as i128)
                } else if val <= i128::MAX as u128 {
                    J::Num(val as i128)
                } else {
                    J::Str(val.to_string())
                };
                j
            } else {
                J::Null
            };
            let fields: Vec<J> = v
                .fields
                .iter()
                .map(|f| {
                    let fty = tcx.type_of(f.did).instantiate_identity().skip_norm_wip();
                    obj(vec![
                        ("name", s(f.name.to_string())),
                        ("ty", s(format!("{fty}"))),
                        ("vis", s(vis_str(tcx, f.vis))),
                    ])
                })
                .collect();
            variants.push(obj(vec![
                ("name", s(v.name.to_string())),
                ("idx", n(vi.as_u32())),
                ("discr", discr),
                ("fields", J::Arr(fields)),
            ]));
        }
        let kind = if adt.is_enum() {
            "enum"
        } else if adt.is_union() {
            "union"
        } else {
            "struct"
        };
        let (file, line) = span_loc(tcx, tcx.def_span(did));
        adts.push((
            tcx.def_path_str(did),
            obj(vec![
                ("kind", s(kind)),
                ("local", J::Bool(did.is_local())),
                ("vis", s(vis_str(tcx, tcx.visibility(did)))),
                ("variants", J::Arr(variants)),
                ("file", s(file)),
                ("line", n(line)),
            ]),
        ));
    }

    // ---- unsafe inventory ---------------------------------------------------
    let unsafe_sites = unsafe_inventory(tcx);

    let out = obj(vec![
        ("schema", n(SCHEMA)),
        ("crate", s(crate_name.clone())),
        ("crate_types", J::Arr(kinds.iter().map(|k| s(k.clone())).collect())),
        (
            "opts",
            obj(vec![
                ("debug_assertions", J::Bool(tcx.sess.opts.debug_assertions)),
                ("overflow_checks", J::Bool(tcx.sess.overflow_checks())),
                ("test", J::Bool(tcx.sess.is_test_crate())),
            ]),
        ),
        (
            "counts",
            obj(vec![
                ("fns", n(fns.len() as i128)),
                ("blocks", n(cx.n_blocks)),
                ("calls", n(cx.n_calls)),
                ("asserts", n(cx.n_asserts)),
                ("stmts", n(cx.n_stmts)),
            ]),
        ),
        ("consts", J::Obj(local_consts)),
        ("adts", J::Obj(adts)),
        ("impls", J::Arr(impls)),
        ("unsafe", J::Arr(unsafe_sites)),
        ("fns", J::Obj(fns)),
    ]);

    let kind_tag = if kinds.iter().any(|k| k == "Executable") { "bin" } else { "lib" };
    let fname = format!("{dir}/{crate_name}.{kind_tag}.json");
    let tmp = format!("{fname}.tmp.{}", std::process::id());
    let mut text = String::new();
    out.write(&mut text);
    std::fs::create_dir_all(dir).ok();
    std::fs::write(&tmp, text).expect("mirfacts: cannot write fact file");
    std::fs::rename(&tmp, &fname).expect("mirfacts: cannot rename fact file");
}

fn vis_str(tcx: TyCtxt<'_>, v: ty::Visibility<DefId>) -> String {
    match v {
        ty::Visibility::Public => "pub".to_string(),
        ty::Visibility::Restricted(d) => {
            if d.is_crate_root() {
                "crate".to_string()
            } else {
                format!("in {}", tcx.def_path_str(d))
            }
        }
    }
}

fn unsafe_inventory(tcx: TyCtxt<'_>) -> Vec<J> {
    use rustc_hir::intravisit::{self, Visitor};
    struct V<'tcx> {
        tcx: TyCtxt<'tcx>,
        out: Vec<J>,
    }
    impl<'tcx> Visitor<'tcx> for V<'tcx> {
        type NestedFilter = rustc_middle::hir::nested_filter::All;
        fn maybe_tcx(&mut self) -> Self::MaybeTyCtxt {
            self.tcx
        }
        fn visit_block(&mut self, b: &'tcx rustc_hir::Block<'tcx>) {
            if let rustc_hir::BlockCheckMode::UnsafeBlock(rustc_hir::UnsafeSource::UserProvided) =
                b.rules
            {
                if !b.span.from_expansion() {
                    let (file, line) = span_loc(self.tcx, b.span);
                    self.out.push(obj(vec![("kind", s("block")), ("file", s(file)), ("line", n(line))]));
                }
            }
            intravisit::walk_block(self, b);
        }
        fn visit_item(&mut self, it: &'tcx rustc_hir::Item<'tcx>) {
            if !it.span.from_expansion() {
                match &it.kind {
                    rustc_hir::ItemKind::Impl(imp) => {
                        if let Some(tr) = &imp.of_trait {
                            if matches!(tr.safety, rustc_hir::Safety::Unsafe) {
                                let (file, line) = span_loc(self.tcx, it.span);
                                self.out.push(obj(vec![
                                    ("kind", s("impl")),
                                    ("file", s(file)),
                                    ("line", n(line)),
                                ]));
                            }
                        }
                    }
                    rustc_hir::ItemKind::Fn { sig, .. } => {
                        if sig.header.is_unsafe() {
                            let (file, line) = span_loc(self.tcx, it.span);
                            self.out.push(obj(vec![("kind", s("fn")), ("file", s(file)), ("line", n(line))]));
                        }
                    }
                    _ => {}
                }
            }
            intravisit::walk_item(self, it);
        }
        fn visit_impl_item(&mut self, it: &'tcx rustc_hir::ImplItem<'tcx>) {
            if !it.span.from_expansion() {
                if let rustc_hir::ImplItemKind::Fn(sig, _) = &it.kind {
                    if sig.header.is_unsafe() {
                        let (file, line) = span_loc(self.tcx, it.span);
                        self.out.push(obj(vec![("kind", s("fn")), ("file", s(file)), ("line", n(line))]));
                    }
                }
            }
            intravisit::walk_impl_item(self, it);
        }
    }
    let mut v = V { tcx, out: Vec::new() };
    tcx.hir_walk_toplevel_module(&mut v);
    v.out
}

impl<'tcx> Cx<'tcx> {
    fn eval_const(&mut self, c: Const<'tcx>, env: TypingEnv<'tcx>) -> J {
        let tcx = self.tcx;
        let ty = c.ty();
        let tystr = format!("{ty}");
        match c.eval(tcx, env, rustc_span::DUMMY_SP) {
            Ok(val) => self.const_value(val, ty),
            Err(_) => obj(vec![("ty", s(tystr)), ("val", J::Null)]),
        }
    }

    fn const_value(&mut self, val: ConstValue, ty: Ty<'tcx>) -> J {
        let tcx = self.tcx;
        let tystr = format!("{ty}");
        let mut v = vec![("ty", s(tystr))];
        match val {
            ConstValue::Scalar(sc) => {
                if let Ok(si) = sc.try_to_scalar_int() {
                    let size = si.size();
                    let bits = si.to_bits(size);
                    if ty.is_signed() {
                        v.push(("val", J::Num(size.sign_extend(bits) as i128)));
                    } else if ty.is_bool() {
                        v.push(("val", J::Bool(bits != 0)));
                    } else if ty.is_char() {
                        v.push(("val", J::Num(bits as i128)));
                        v.push(("char", J::Bool(true)));
                    } else if bits <= i128::MAX as u128 {
                        v.push(("val", J::Num(bits as i128)));
                    } else {
                        v.push(("val", J::Str(bits.to_string())));
                    }
                } else {
                    v.push(("val", J::Null));
                    v.push(("ptr", J::Bool(true)));
                    // `&[u8; N]` constants (e.g. format_args! templates): read the bytes
                    if let Some(inner) = ty.builtin_deref(true) {
                        if let ty::Array(elem, len) = *inner.kind() {
                            if elem == tcx.types.u8 {
                                if let (rustc_middle::mir::interpret::Scalar::Ptr(ptr, _), Some(n)) =
                                    (sc, len.try_to_target_usize(tcx))
                                {
                                    let (prov, off) = ptr.into_raw_parts();
                                    if let Some(rustc_middle::mir::interpret::GlobalAlloc::Memory(a)) =
                                        tcx.try_get_global_alloc(prov.alloc_id())
                                    {
                                        let a = a.inner();
                                        let start = off.bytes_usize();
                                        let end = start + n as usize;
                                        if end <= a.len() {
                                            let bytes = a.inspect_with_uninit_and_ptr_outside_interpreter(start..end);
                                            v.push((
                                                "bytes",
                                                J::Arr(bytes.iter().map(|b| n_(*b as i128)).collect()),
                                            ));
                                        }
                                    }
                                }
                            }
                        }
                    }
                }
            }
            ConstValue::ZeroSized if matches!(ty.kind(), ty::Adt(..)) => {
                v.push(("zst", J::Bool(true)));
                if let Some(d) = self.destructure(val, ty, 0) {
                    v.push(("data", d));
                }
            }
            ConstValue::ZeroSized => {
                v.push(("zst", J::Bool(true)));
                if let ty::FnDef(did, args) = *ty.kind() {
                    v.push(("fn", s(tcx.def_path_str(did))));
                    v.push(("fn_inst", s(tcx.def_path_str_with_args(did, args))));
                }
            }
            ConstValue::Slice { .. } | ConstValue::Indirect { .. } => {
                let inner = ty.builtin_deref(true);
                let is_strlike = match inner {
                    Some(t) => {
                        t.is_str() || matches!(t.kind(), ty::Slice(e) if *e == tcx.types.u8)
                    }
                    None => false,
                };
                if is_strlike {
                    if let Some(bytes) = val.try_get_slice_bytes_for_diagnostics(tcx) {
                        match std::str::from_utf8(bytes) {
                            Ok(st) if inner.map_or(false, |t| t.is_str()) => {
                                v.push(("str", s(st)));
                            }
                            _ => {
                                v.push((
                                    "bytes",
                                    J::Arr(bytes.iter().map(|b| n(*b as i128)).collect()),
                                ));
                            }
                        }
                    }
                } else {
                    v.push(("val", J::Null));
                    v.push(("indirect", J::Bool(true)));
                    if let Some(d) = self.destructure(val, ty, 0) {
                        v.push(("data", d));
                    }
                }
            }
        }
        obj(v)
    }

    /// Structured view of an aggregate constant (enum/struct/tuple), depth-bounded.
    fn destructure(&mut self, val: ConstValue, ty: Ty<'tcx>, depth: usize) -> Option<J> {
        let tcx = self.tcx;
        if depth > 4 {
            return None;
        }
        match ty.kind() {
            ty::Adt(..) | ty::Tuple(..) | ty::Array(..) => {}
            _ => return None,
        }
        let d = std::panic::catch_unwind(std::panic::AssertUnwindSafe(|| {
            tcx.try_destructure_mir_constant_for_user_output(val, ty)
        }))
        .ok()??;
        let mut v: Vec<(&str, J)> = Vec::new();
        if let ty::Adt(adt, _) = *ty.kind() {
            self.adts.insert(adt.did());
            v.push(("adt", s(tcx.def_path_str(adt.did()))));
            if let Some(vi) = d.variant {
                v.push(("variant", s(adt.variant(vi).name.to_string())));
            }
        }
        let mut fields = Vec::new();
        for (fv, fty) in d.fields.iter() {
            let mut fj = match self.const_value(*fv, *fty) {
                J::Obj(o) => o,
                _ => Vec::new(),
            };
            if let Some(dd) = self.destructure(*fv, *fty, depth + 1) {
                if !fj.iter().any(|(k, _)| k == "data") {
                    fj.push(("data".to_string(), dd));
                }
            }
            fields.push(J::Obj(fj));
        }
        v.push(("fields", J::Arr(fields)));
        Some(obj(v))
    }

    fn operand_const(&mut self, c: &Const<'tcx>, env: TypingEnv<'tcx>) -> J {
        let tcx = self.tcx;
        match *c {
            Const::Val(val, ty) => self.const_value(val, ty),
            Const::Unevaluated(u, ty) => {
                let key = if u.promoted.is_some() {
                    format!("{}::promoted", tcx.def_path_str_with_args(u.def, u.args))
                } else {
                    tcx.def_path_str_with_args(u.def, u.args)
                };
                if u.def.is_local() {
                    // evaluated later (after analysis) from the crate's const items
                    self.local_const_refs.insert(key.clone());
                } else if u.promoted.is_none() && !self.consts.iter().any(|(k, _)| *k == key) {
                    let v = self.eval_const(*c, env);
                    self.consts.push((key.clone(), v));
                }
                obj(vec![("ty", s(format!("{ty}"))), ("uneval", s(key))])
            }
            Const::Ty(ty, ct) => {
                if let ty::ConstKind::Value(cv) = ct.kind() {
                    let val = tcx.valtree_to_const_val(cv);
                    return self.const_value(val, ty);
                }
                let mut v = vec![("ty", s(format!("{ty}")))];
                if let Some(sc) = ct.try_to_scalar() {
                    if let Ok(si) = sc.try_to_scalar_int() {
                        let bits = si.to_bits(si.size());
                        if bits <= i128::MAX as u128 {
                            v.push(("val", J::Num(bits as i128)));
                        }
                    }
                } else {
                    v.push(("tyconst", s(format!("{ct}"))));
                }
                obj(v)
            }
        }
    }

    fn place(&mut self, body: &Body<'tcx>, p: &Place<'tcx>) -> J {
        let tcx = self.tcx;
        let mut pty = PlaceTy::from_ty(body.local_decls[p.local].ty);
        let mut projs = Vec::new();
        for elem in p.projection.iter() {
            let j = match elem {
                ProjectionElem::Deref => s("deref"),
                ProjectionElem::Field(f, _) => {
                    let fi = f.as_u32() as i128;
                    match *pty.ty.kind() {
                        ty::Adt(adt, _) => {
                            self.adts.insert(adt.did());
                            let vi = pty.variant_index.unwrap_or(rustc_abi::FIRST_VARIANT);
                            let name = adt.variant(vi).fields[f].name.to_string();
                            obj(vec![
                                ("f", s(name)),
                                ("i", n(fi)),
                                ("adt", s(tcx.def_path_str(adt.did()))),
                            ])
                        }
                        ty::Closure(..) | ty::Coroutine(..) | ty::CoroutineClosure(..) => {
                            obj(vec![("f", s(format!("{fi}"))), ("i", n(fi)), ("upvar", J::Bool(true))])
                        }
                        _ => obj(vec![("f", s(format!("{fi}"))), ("i", n(fi))]),
                    }
                }
                ProjectionElem::Index(l) => obj(vec![("index", n(l.as_u32()))]),
                ProjectionElem::ConstantIndex { offset, min_length, from_end } => obj(vec![
                    ("cindex", n(offset as i128)),
                    ("min_length", n(min_length as i128)),
                    ("from_end", J::Bool(from_end)),
                ]),
                ProjectionElem::Subslice { from, to, from_end } => obj(vec![
                    ("subslice", n(from as i128)),
                    ("to", n(to as i128)),
                    ("from_end", J::Bool(from_end)),
                ]),
                ProjectionElem::Downcast(name, vi) => {
                    let nm = match name {
                        Some(sy) => sy.to_string(),
                        None => match *pty.ty.kind() {
                            ty::Adt(adt, _) => adt.variant(vi).name.to_string(),
                            _ => format!("{}", vi.as_u32()),
                        },
                    };
                    if let ty::Adt(adt, _) = *pty.ty.kind() {
                        self.adts.insert(adt.did());
                    }
                    obj(vec![("downcast", s(nm)), ("vi", n(vi.as_u32()))])
                }
                ProjectionElem::OpaqueCast(_) => s("opaque"),
                ProjectionElem::UnwrapUnsafeBinder(_) => s("unwrap_binder"),
            };
            projs.push(j);
            pty = pty.projection_ty(tcx, elem);
        }
        if projs.is_empty() {
            obj(vec![("l", n(p.local.as_u32()))])
        } else {
            obj(vec![("l", n(p.local.as_u32())), ("p", J::Arr(projs))])
        }
    }

    fn operand(&mut self, body: &Body<'tcx>, env: TypingEnv<'tcx>, o: &Operand<'tcx>) -> J {
        match o {
            Operand::Copy(p) => obj(vec![("copy", self.place(body, p))]),
            Operand::Move(p) => obj(vec![("move", self.place(body, p))]),
            Operand::Constant(c) => obj(vec![("const", self.operand_const(&c.const_, env))]),
            #[allow(unreachable_patterns)]
            other => obj(vec![("other", s(format!("{other:?}")))]),
        }
    }

    fn rvalue(&mut self, body: &Body<'tcx>, env: TypingEnv<'tcx>, rv: &Rvalue<'tcx>) -> J {
        let tcx = self.tcx;
        match rv {
            Rvalue::Use(o, ..) => obj(vec![("k", s("use")), ("op", self.operand(body, env, o))]),
            Rvalue::Repeat(o, c) => obj(vec![
                ("k", s("repeat")),
                ("op", self.operand(body, env, o)),
                ("n", s(format!("{c}"))),
            ]),
            Rvalue::Ref(_, bk, p) => {
                let m = match bk {
                    mir::BorrowKind::Shared => "shared",
                    mir::BorrowKind::Fake(_) => "fake",
                    mir::BorrowKind::Mut { .. } => "mut",
                };
                obj(vec![("k", s("ref")), ("bk", s(m)), ("place", self.place(body, p))])
            }
            Rvalue::RawPtr(kind, p) => obj(vec![
                ("k", s("rawptr")),
                ("bk", s(format!("{kind:?}"))),
                ("place", self.place(body, p)),
            ]),
            Rvalue::Cast(kind, o, ty) => obj(vec![
                ("k", s("cast")),
                ("ck", s(format!("{kind:?}"))),
                ("op", self.operand(body, env, o)),
                ("ty", s(format!("{ty}"))),
            ]),
            Rvalue::BinaryOp(op, ab) => obj(vec![
                ("k", s("bin")),
                ("op", s(format!("{op:?}"))),
                ("a", self.operand(body, env, &ab.0)),
                ("b", self.operand(body, env, &ab.1)),
            ]),
            Rvalue::UnaryOp(op, a) => obj(vec![
                ("k", s("un")),
                ("op", s(format!("{op:?}"))),
                ("a", self.operand(body, env, a)),
            ]),
            Rvalue::Discriminant(p) => {
                let pty = p.ty(&body.local_decls, tcx).ty;
                let mut v = vec![("k", s("discr")), ("place", self.place(body, p))];
                if let ty::Adt(adt, _) = *pty.kind() {
                    self.adts.insert(adt.did());
                    v.push(("adt", s(tcx.def_path_str(adt.did()))));
                }
                obj(v)
            }
            Rvalue::Aggregate(kind, fields) => {
                let ops: Vec<J> = fields.iter().map(|o| self.operand(body, env, o)).collect();
                match &**kind {
                    AggregateKind::Array(ty) => obj(vec![
                        ("k", s("agg")),
                        ("ak", s("array")),
                        ("ty", s(format!("{ty}"))),
                        ("ops", J::Arr(ops)),
                    ]),
                    AggregateKind::Tuple => {
                        obj(vec![("k", s("agg")), ("ak", s("tuple")), ("ops", J::Arr(ops))])
                    }
                    AggregateKind::Adt(did, vi, _args, _, active) => {
                        self.adts.insert(*did);
                        let adt = tcx.adt_def(*did);
                        let var = adt.variant(*vi);
                        let names: Vec<J> = if let Some(a) = active {
                            vec![s(var.fields[*a].name.to_string())]
                        } else {
                            var.fields.iter().map(|f| s(f.name.to_string())).collect()
                        };
                        obj(vec![
                            ("k", s("agg")),
                            ("ak", s("adt")),
                            ("adt", s(tcx.def_path_str(*did))),
                            ("variant", s(var.name.to_string())),
                            ("vi", n(vi.as_u32())),
                            ("fields", J::Arr(names)),
                            ("ops", J::Arr(ops)),
                        ])
                    }
                    AggregateKind::Closure(did, _) => obj(vec![
                        ("k", s("agg")),
                        ("ak", s("closure")),
                        ("def", s(tcx.def_path_str(*did))),
                        ("ops", J::Arr(ops)),
                    ]),
                    AggregateKind::Coroutine(did, _) => obj(vec![
                        ("k", s("agg")),
                        ("ak", s("coroutine")),
                        ("def", s(tcx.def_path_str(*did))),
                        ("ops", J::Arr(ops)),
                    ]),
                    AggregateKind::CoroutineClosure(did, _) => obj(vec![
                        ("k", s("agg")),
                        ("ak", s("coroutine_closure")),
                        ("def", s(tcx.def_path_str(*did))),
                        ("ops", J::Arr(ops)),
                    ]),
                    AggregateKind::RawPtr(ty, _) => obj(vec![
                        ("k", s("agg")),
                        ("ak", s("rawptr")),
                        ("ty", s(format!("{ty}"))),
                        ("ops", J::Arr(ops)),
                    ]),
                }
            }
            Rvalue::CopyForDeref(p) => obj(vec![
                ("k", s("use")),
                ("op", obj(vec![("copy", self.place(body, p))])),
                ("cfd", J::Bool(true)),
            ]),
            other => obj(vec![("k", s("other")), ("dbg", s(format!("{other:?}")))]),
        }
    }

    fn callee(
        &mut self,
        body: &Body<'tcx>,
        env: TypingEnv<'tcx>,
        func: &Operand<'tcx>,
    ) -> Vec<(&'static str, J)> {
        let tcx = self.tcx;
        let fty = func.ty(&body.local_decls, tcx);
        let mut out = Vec::new();
        if let ty::FnDef(did, args) = *fty.kind() {
            out.push(("callee", s(tcx.def_path_str(did))));
            out.push(("inst", s(tcx.def_path_str_with_args(did, args))));
            let gen: Vec<J> = args.iter().map(|a| s(format!("{a}"))).collect();
            out.push(("generics", J::Arr(gen)));
            // resolve trait methods where possible
            let resolvable = matches!(tcx.def_kind(did), DefKind::Fn | DefKind::AssocFn);
            if resolvable {
                let r = std::panic::catch_unwind(std::panic::AssertUnwindSafe(|| {
                    Instance::try_resolve(tcx, env, did, args)
                }));
                if let Ok(Ok(Some(inst))) = r {
                    let rdid = inst.def_id();
                    let shim = !matches!(inst.def, ty::InstanceKind::Item(_));
                    out.push(("resolved", s(tcx.def_path_str(rdid))));
                    out.push(("resolved_inst", s(tcx.def_path_str_with_args(rdid, inst.args))));
                    if shim {
                        out.push(("shim", s(format!("{:?}", inst.def).chars().take(80).collect::<String>())));
                    }
                    out.push(("resolved_local", J::Bool(rdid.is_local())));
                }
            }
            out.push(("callee_local", J::Bool(did.is_local())));
        } else {
            out.push(("callee_op", self.operand(body, env, func)));
            out.push(("callee_ty", s(format!("{fty}"))));
        }
        out
    }

    fn dump_body(&mut self, def: LocalDefId, kind: DefKind, body: &Body<'tcx>) -> J {
        let tcx = self.tcx;
        let did = def.to_def_id();
        let env = TypingEnv::post_analysis(tcx, did);
        let (file, line) = span_loc(tcx, tcx.def_span(did));

        let mut head: Vec<(&str, J)> = vec![
            ("kind", s(format!("{kind:?}"))),
            ("file", s(file)),
            ("line", n(line)),
            ("from_expansion", J::Bool(tcx.def_span(did).from_expansion())),
            ("arg_count", n(body.arg_count as i128)),
        ];
        if matches!(kind, DefKind::Fn | DefKind::AssocFn) {
            head.push(("vis", s(vis_str(tcx, tcx.visibility(did)))));
            head.push(("async", J::Bool(tcx.asyncness(did).is_async())));
            // is this inside an `#[automatically_derived]` impl?
            let parent = tcx.parent(did);
            if matches!(tcx.def_kind(parent), DefKind::Impl { .. }) {
                head.push(("derived", J::Bool(tcx.is_automatically_derived(parent))));
                head.push((
                    "impl_of_trait",
                    match tcx.impl_opt_trait_ref(parent) {
                        Some(tr) => s(tcx.def_path_str(tr.skip_binder().def_id)),
                        None => J::Null,
                    },
                ));
            }
        } else {
            // closure / coroutine: attach to enclosing fn
            let mut p = tcx.parent(did);
            head.push(("parent", s(tcx.def_path_str(p))));
            while matches!(tcx.def_kind(p), DefKind::Closure | DefKind::SyntheticCoroutineBody) {
                p = tcx.parent(p);
            }
            head.push(("root", s(tcx.def_path_str(p))));
            if let Some(ck) = tcx.coroutine_kind(did) {
                head.push(("coroutine", s(format!("{ck:?}"))));
            }
            let caps: Vec<J> = tcx
                .closure_captures(def)
                .iter()
                .map(|c| s(c.to_string(tcx)))
                .collect();
            head.push(("upvars", J::Arr(caps)));
        }

        // locals
        let mut locals = Vec::new();
        for (l, decl) in body.local_decls.iter_enumerated() {
            locals.push(obj(vec![
                ("l", n(l.as_u32())),
                ("ty", s(format!("{}", decl.ty))),
                ("user", J::Bool(decl.is_user_variable())),
                ("mut", J::Bool(decl.mutability.is_mut())),
            ]));
        }
        head.push(("locals", J::Arr(locals)));

        // debug names
        let mut dbg = Vec::new();
        for vdi in &body.var_debug_info {
            if let mir::VarDebugInfoContents::Place(p) = &vdi.value {
                dbg.push(obj(vec![("name", s(vdi.name.to_string())), ("place", self.place(body, p))]));
            }
        }
        head.push(("vars", J::Arr(dbg)));

        let mut blocks = Vec::new();
        for (bb, data) in body.basic_blocks.iter_enumerated() {
            if data.is_cleanup {
                blocks.push(obj(vec![("id", n(bb.as_u32())), ("cleanup", J::Bool(true))]));
                continue;
            }
            self.n_blocks += 1;
            let mut stmts = Vec::new();
            for st in &data.statements {
                match &st.kind {
                    StatementKind::Assign(b) => {
                        self.n_stmts += 1;
                        let (p, rv) = &**b;
                        let (_, ln) = span_loc(tcx, st.source_info.span);
                        let mut v = vec![
                            ("k", s("assign")),
                            ("dst", self.place(body, p)),
                            ("rv", self.rvalue(body, env, rv)),
                            ("ln", n(ln)),
                        ];
                        if st.source_info.span.from_expansion() {
                            v.push(("exp", J::Bool(true)));
                        }
                        stmts.push(obj(v));
                    }
                    StatementKind::SetDiscriminant { place, variant_index } => {
                        let (_, ln) = span_loc(tcx, st.source_info.span);
                        stmts.push(obj(vec![
                            ("k", s("setdiscr")),
                            ("dst", self.place(body, place)),
                            ("vi", n(variant_index.as_u32())),
                            ("ln", n(ln)),
                        ]));
                    }
                    StatementKind::StorageDead(l) => {
                        stmts.push(obj(vec![("k", s("dead")), ("l", n(l.as_u32()))]));
                    }
                    _ => {}
                }
            }
            let term = data.terminator();
            let (tfile, tln) = span_loc(tcx, term.source_info.span);
            let bbn = |b: BasicBlock| n(b.as_u32());
            let mut t: Vec<(&str, J)> = Vec::new();
            match &term.kind {
                TerminatorKind::Goto { target } => {
                    t.push(("k", s("goto")));
                    t.push(("target", bbn(*target)));
                }
                TerminatorKind::SwitchInt { discr, targets } => {
                    t.push(("k", s("switch")));
                    t.push(("discr", self.operand(body, env, discr)));
                    let dty = discr.ty(&body.local_decls, tcx);
                    t.push(("ty", s(format!("{dty}"))));
                    let signed = dty.is_signed();
                    let size = if signed {
                        tcx.layout_of(env.as_query_input(dty)).ok().map(|l| l.size)
                    } else {
                        None
                    };
                    let mut arms = Vec::new();
                    for (val, tgt) in targets.iter() {
                        let vj = match size {
                            Some(sz) => J::Num(sz.sign_extend(val) as i128),
                            None => {
                                if val <= i128::MAX as u128 {
                                    J::Num(val as i128)
                                } else {
                                    J::Str(val.to_string())
                                }
                            }
                        };
                        arms.push(J::Arr(vec![vj, bbn(tgt)]));
                    }
                    t.push(("targets", J::Arr(arms)));
                    t.push(("otherwise", bbn(targets.otherwise())));
                }
                TerminatorKind::Return => t.push(("k", s("return"))),
                TerminatorKind::Unreachable => t.push(("k", s("unreachable"))),
                TerminatorKind::UnwindResume => t.push(("k", s("resume"))),
                TerminatorKind::UnwindTerminate(_) => t.push(("k", s("abort"))),
                TerminatorKind::Drop { place, target, .. } => {
                    t.push(("k", s("drop")));
                    t.push(("place", self.place(body, place)));
                    t.push(("target", bbn(*target)));
                }
                TerminatorKind::Call { func, args, destination, target, fn_span, .. } => {
                    self.n_calls += 1;
                    t.push(("k", s("call")));
                    for kv in self.callee(body, env, func) {
                        t.push(kv);
                    }
                    let a: Vec<J> = args.iter().map(|o| self.operand(body, env, &o.node)).collect();
                    t.push(("args", J::Arr(a)));
                    t.push(("dst", self.place(body, destination)));
                    t.push(("target", match target {
                        Some(b) => bbn(*b),
                        None => J::Null,
                    }));
                    if fn_span.from_expansion() {
                        t.push(("exp", J::Bool(true)));
                        if let Some(m) = fn_span.ctxt().outer_expn_data().macro_def_id {
                            t.push(("macro", s(tcx.def_path_str(m))));
                        }
                    }
                }
                TerminatorKind::TailCall { func, args, .. } => {
                    self.n_calls += 1;
                    t.push(("k", s("tailcall")));
                    for kv in self.callee(body, env, func) {
                        t.push(kv);
                    }
                    let a: Vec<J> = args.iter().map(|o| self.operand(body, env, &o.node)).collect();
                    t.push(("args", J::Arr(a)));
                }
                TerminatorKind::Assert { cond, expected, msg, target, .. } => {
                    self.n_asserts += 1;
                    t.push(("k", s("assert")));
                    t.push(("cond", self.operand(body, env, cond)));
                    t.push(("expected", J::Bool(*expected)));
                    let (mk, ops): (String, Vec<J>) = match &**msg {
                        mir::AssertKind::BoundsCheck { len, index } => (
                            "BoundsCheck".into(),
                            vec![self.operand(body, env, len), self.operand(body, env, index)],
                        ),
                        mir::AssertKind::Overflow(op, a, b) => (
                            format!("Overflow({op:?})"),
                            vec![self.operand(body, env, a), self.operand(body, env, b)],
                        ),
                        mir::AssertKind::OverflowNeg(a) => {
                            ("OverflowNeg".into(), vec![self.operand(body, env, a)])
                        }
                        mir::AssertKind::DivisionByZero(a) => {
                            ("DivisionByZero".into(), vec![self.operand(body, env, a)])
                        }
                        mir::AssertKind::RemainderByZero(a) => {
                            ("RemainderByZero".into(), vec![self.operand(body, env, a)])
                        }
                        other => (format!("{other:?}").chars().take(60).collect(), vec![]),
                    };
                    t.push(("msg", s(mk)));
                    t.push(("ops", J::Arr(ops)));
                    t.push(("target", bbn(*target)));
                }
                TerminatorKind::Yield { value, resume, resume_arg, .. } => {
                    t.push(("k", s("yield")));
                    t.push(("value", self.operand(body, env, value)));
                    t.push(("target", bbn(*resume)));
                    t.push(("resume_arg", self.place(body, resume_arg)));
                }
                TerminatorKind::CoroutineDrop => t.push(("k", s("coroutine_drop"))),
                TerminatorKind::FalseEdge { real_target, .. } => {
                    t.push(("k", s("goto")));
                    t.push(("target", bbn(*real_target)));
                    t.push(("false_edge", J::Bool(true)));
                }
                TerminatorKind::FalseUnwind { real_target, .. } => {
                    t.push(("k", s("goto")));
                    t.push(("target", bbn(*real_target)));
                    t.push(("false_unwind", J::Bool(true)));
                }
                TerminatorKind::InlineAsm { .. } => t.push(("k", s("asm"))),
            }
            t.push(("ln", n(tln)));
            if term.source_info.span.from_expansion() {
                t.push(("texp", J::Bool(true)));
                // outermost macro of the expansion this terminator comes from
                if let Some(ed) = term.source_info.span.macro_backtrace().last() {
                    if let Some(m) = ed.macro_def_id {
                        t.push(("tmacro", s(tcx.def_path_str(m))));
                    }
                }
            }
            let mut bv = vec![("id", n(bb.as_u32()))];
            if !stmts.is_empty() {
                bv.push(("stmts", J::Arr(stmts)));
            }
            bv.push(("term", obj(t)));
            let _ = tfile;
            blocks.push(obj(bv));
        }
        head.push(("blocks", J::Arr(blocks)));
        obj(head)
    }
}
