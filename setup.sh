#!/bin/bash
# Builds the driver and primes the dependency cache (offline).
set -e
cd "$(dirname "$0")"
export CARGO_NET_OFFLINE=true
(cd mirfacts && cargo +nightly build --release --offline)
python3 rules/facts.py dev >/dev/null
echo "setup ok"
