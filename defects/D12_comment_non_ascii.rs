use dns_types::hosts::types::Hosts;
#[test]
fn comment_with_non_ascii_right_after_hash() {
    let h = Hosts::deserialise("#étoile\n1.2.3.4 foo #ünï\n").unwrap();
    assert_eq!(1, h.v4.len());
}
