use dns_types::protocol::types::Message;

fn build(depth: usize) -> Vec<u8> {
    // header: id=0x1234, flags 0, qdcount=1
    let mut m = vec![0x12, 0x34, 0x00, 0x00, 0x00, 0x01, 0, 0, 0, 0, 0, 0];
    // offset 12: root label
    m.push(0);
    // pad to even offset 14? keep simple: chain of pointers each pointing to the previous one
    let mut prev = 12usize;
    for _ in 0..depth {
        let here = m.len();
        m.push(0xC0 | ((prev >> 8) as u8));
        m.push((prev & 0xff) as u8);
        prev = here;
    }
    // now the question: name = pointer to prev, qtype A, qclass IN
    m.push(0xC0 | ((prev >> 8) as u8));
    m.push((prev & 0xff) as u8);
    m.extend_from_slice(&[0, 1, 0, 1]);
    // the question section starts at offset 12 really; so instead place: the question name must be at 12.
    m
}

fn build2(depth: usize) -> Vec<u8> {
    // question at offset 12 = root name (1 byte) + type/class: a valid question ". A IN".
    // then one answer RR whose owner name is the deep chain start... owner must come right after the question,
    // so put the chain inside the RDATA of a first (opaque, TXT-like NULL) record and point into it from a second record's owner.
    let mut m = vec![0x12, 0x34, 0x80, 0x00, 0x00, 0x01, 0x00, 0x02, 0, 0, 0, 0];
    m.extend_from_slice(&[0, 0, 1, 0, 1]); // question: root A IN  (offsets 12..17)
    // RR1: owner root, type NULL(10), class IN, ttl 0, rdlength = 2*depth
    m.push(0);
    m.extend_from_slice(&[0, 10, 0, 1, 0, 0, 0, 0]);
    let rdlen = 2 * depth;
    m.push((rdlen >> 8) as u8);
    m.push((rdlen & 0xff) as u8);
    let mut prev = 12usize; // the root label of the question
    for _ in 0..depth {
        let here = m.len();
        m.push(0xC0 | ((prev >> 8) as u8));
        m.push((prev & 0xff) as u8);
        prev = here;
    }
    // RR2: owner = pointer to the last link, type A
    m.push(0xC0 | ((prev >> 8) as u8));
    m.push((prev & 0xff) as u8);
    m.extend_from_slice(&[0, 1, 0, 1, 0, 0, 0, 0, 0, 4, 1, 2, 3, 4]);
    m
}

fn run(depth: usize, stack: usize) -> bool {
    let bytes = build2(depth);
    assert!(bytes.len() <= 65535);
    let h = std::thread::Builder::new()
        .stack_size(stack)
        .spawn(move || {
            let r = Message::from_octets(&bytes);
            r.is_ok()
        })
        .unwrap();
    h.join().unwrap()
}

#[test]
fn deep_pointer_chain_2mib() {
    let depth: usize = std::env::var("DEPTH").ok().and_then(|s| s.parse().ok()).unwrap_or(8000);
    let ok = run(depth, 2 * 1024 * 1024);
    println!("depth {depth}: parsed ok = {ok}");
}
