#!/usr/bin/env python3
"""dev helper: run every quick check in one process against VERIF_REPO (facts loaded once).
prints one line `RESULT <id> <rc> <first violation key>` per property, `BUILD-FAILED` if the tree does not compile."""
import importlib, io, os, sys, contextlib, traceback
HERE = os.path.dirname(os.path.dirname(os.path.abspath(__file__)))
sys.path.insert(0, HERE)
from rules import core, facts, mir
IDS = "C01 C02 C03 C04 C05 C06 C08 C09 C10 C11 C12 C13 C14 C15 C16 C17 C18 C19".split()
def main():
    ids = sys.argv[1:] or IDS
    try:
        prog = mir.load("dev")
    except facts.BuildFailed as e:
        print("BUILD-FAILED"); return 2
    import gc; gc.freeze(); gc.disable()
    rc_all = 0
    for prop in ids:
        mod = importlib.import_module("rules.props.%s" % prop)
        buf = io.StringIO()
        with contextlib.redirect_stdout(buf), contextlib.redirect_stderr(buf):
            try:
                ctx = core.Ctx(prop, "quick", prog, 0)
                ctx.replay = None
                mod.run(ctx)
                rc = ctx.finish()
                fresh = [v for v in ctx.violations if not (ctx.known.get("%s:%s" % (v["rule"], v["site"]), {}).get("status") == "known")]
                first = ";".join(sorted({"%s:%s" % (v["rule"], v["site"]) for v in fresh}))[:300]
            except mir.AnchorMissing as e:
                rc = core.anchor_failure(prop, "quick", e, 0); first = "anchor:%s" % e
            except Exception as e:
                rc = core.anchor_failure(prop, "quick", "rule crashed: %r" % (e,), 0); first = "crash:%r" % (e,)
        print("RESULT %s %d %s" % (prop, rc, first if rc else ""))
        rc_all |= rc
    return rc_all
if __name__ == "__main__":
    sys.exit(main())
