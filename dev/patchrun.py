#!/usr/bin/env python3
"""dev tool: run all quick checks on each given patch (name=path ...) in the scratch pool; prints flagged properties per patch."""
import os, queue, subprocess, sys, threading
VERIF = os.path.dirname(os.path.dirname(os.path.abspath(__file__)))
REPO = "/repo"
def sh(cmd, cwd=None, env=None, timeout=None):
    r = subprocess.run(cmd, cwd=cwd, env=env, stdout=subprocess.PIPE, stderr=subprocess.STDOUT, text=True, timeout=timeout, shell=isinstance(cmd, str))
    return r.returncode, r.stdout
def worker(k, q, results, lock):
    wt = "%s/%d" % (os.environ.get("VERIF_POOL_WT", "/tmp/mv"), k)
    cache = "%s/%d" % (os.environ.get("VERIF_POOL_CACHE", "/tmp/mvc"), k)
    head = sh(["git", "-C", REPO, "rev-parse", "HEAD"])[1].strip()
    if not os.path.isdir(wt):
        sh(["git", "-C", REPO, "worktree", "add", "--detach", wt, "HEAD", "-q"])
    else:
        sh("git checkout -q -- . && git clean -fdq -e target && git checkout -q --detach %s" % head, cwd=wt)
    os.makedirs(cache, exist_ok=True)
    env = dict(os.environ, VERIF_REPO=wt, VERIF_CACHE=cache, VERIF_SCRATCH_OUT=cache, CARGO_NET_OFFLINE="true")
    while True:
        try:
            name, patch = q.get_nowait()
        except queue.Empty:
            return
        rc, out = sh(["git", "apply", patch], cwd=wt)
        if rc != 0:
            res = "DOES-NOT-APPLY"
        else:
            rc, out = sh([sys.executable, os.path.join(VERIF, "dev", "checkall.py")], env=env, timeout=1200)
            fl = [l.split(" ", 3)[1] + "[" + (l.split(" ", 3)[3][:90] if len(l.split(" ", 3)) > 3 else "") + "]" for l in out.split("\n") if l.startswith("RESULT") and l.split(" ")[2] != "0"]
            res = "BUILD-FAILED" if "BUILD-FAILED" in out else (" ".join(fl) or "none")
        sh("git checkout -q -- . && git clean -fdq -e target", cwd=wt)
        with lock:
            results[name] = res
def main():
    items = [a.split("=", 1) for a in sys.argv[1:]]
    q = queue.Queue()
    for it in items:
        q.put(tuple(it))
    results, lock = {}, threading.Lock()
    ths = [threading.Thread(target=worker, args=(k, q, results, lock)) for k in range(min(6, len(items)))]
    [t.start() for t in ths]; [t.join() for t in ths]
    for name, _ in items:
        print("%-10s %s" % (name, results.get(name)))
main()
