#!/usr/bin/env python3
"""dev helper: regenerate rules/known_fns.txt (the functions the rules were written against) from /repo's current tree."""
import json, os, sys
HERE = os.path.dirname(os.path.dirname(os.path.abspath(__file__)))
sys.path.insert(0, HERE)
from rules import facts
d, info = facts.extract("dev")
keys = set()
for t in facts.EXPECTED_TARGETS:
    keys |= set(json.load(open(os.path.join(d, t + ".json")))["fns"].keys())
with open(os.path.join(HERE, "rules", "known_fns.txt"), "w") as fh:
    fh.write("# local functions of barrucadu/resolved the rules were written against (one key per line).\n# a local function NOT listed here is treated as a new helper and expanded at its call sites (rules/inline.py).\n")
    for k in sorted(keys):
        fh.write(k + "\n")
params = {}
for t in facts.EXPECTED_TARGETS:
    fns = json.load(open(os.path.join(d, t + ".json")))["fns"]
    for k, rec in fns.items():
        if rec.get("arg_count") and any(r.get("root") == k and r.get("upvars") for r in fns.values()):
            names = [None] * (rec["arg_count"] + 1)
            for v in rec.get("vars", []):
                pl = v.get("place") or {}
                if not pl.get("p") and isinstance(pl.get("l"), int) and 1 <= pl["l"] <= rec["arg_count"] and names[pl["l"]] is None:
                    names[pl["l"]] = v["name"]
            params[k] = names[1:]
with open(os.path.join(HERE, "rules", "known_params.json"), "w") as fh:
    json.dump(params, fh, indent=0, sort_keys=True)
print(len(keys), "functions;", len(params), "functions with captured parameters")

fields = {}
for t in facts.EXPECTED_TARGETS:
    adts = json.load(open(os.path.join(d, t + ".json")))["adts"]
    for k, a in adts.items():
        if a.get("local") and k not in fields:
            fields[k] = {v["name"]: [[f["name"], f["ty"]] for f in v["fields"]] for v in a["variants"]}
with open(os.path.join(HERE, "rules", "known_fields.json"), "w") as fh:
    json.dump(fields, fh, indent=0, sort_keys=True)
print(len(fields), "local types")

sigs = {}
for t in facts.EXPECTED_TARGETS:
    fns = json.load(open(os.path.join(d, t + ".json")))["fns"]
    for k, rec in fns.items():
        if rec.get("kind") in ("Fn", "AssocFn") and "{closure" not in k and not rec.get("from_expansion") and not rec.get("derived") and rec.get("locals"):
            sigs.setdefault(k, [l["ty"] for l in rec["locals"][:rec.get("arg_count", 0) + 1]])
with open(os.path.join(HERE, "rules", "known_sigs.json"), "w") as fh:
    json.dump(sigs, fh, indent=0, sort_keys=True)
print(len(sigs), "function signatures")

consts = {}
for t in facts.EXPECTED_TARGETS:
    for k, c in json.load(open(os.path.join(d, t + ".json")))["consts"].items():
        if k.split("::")[0] in ("dns_types", "dns_resolver", "resolved", "dnsq", "htoh", "htoz", "ztoh", "ztoz"):
            consts.setdefault(k, [c.get("ty"), c.get("val")])
with open(os.path.join(HERE, "rules", "known_consts.json"), "w") as fh:
    json.dump(consts, fh, indent=0, sort_keys=True)
print(len(consts), "local constants")
