#!/usr/bin/env python3
"""dev tool (not a registered check): operator-mutation sweep to measure what the rules catch.

  sweep.py gen  > mutants.jsonl                 enumerate single-token mutants of production function bodies
  sweep.py run  mutants.jsonl results.jsonl [--workers N] [--sample K] [--test-flagged]
  sweep.py report results.jsonl

Each mutant is applied in a scratch worktree under /tmp/mw/<k> (own cargo target and own facts cache
under /tmp/mc/<k>), all 18 quick checks are run against it (dev/checkall.py), and - when no check
fires - the repository's test suite is run to see whether the mutant survives it.  Survivors that no
check flags are the interesting output: each is either an equivalent mutant, irrelevant to the 19
properties, or a hole in the rules.  Nothing here touches /repo."""
import json, os, random, re, subprocess, sys, threading, time, queue, hashlib, shutil

VERIF = os.path.dirname(os.path.dirname(os.path.abspath(__file__)))
sys.path.insert(0, VERIF)
REPO = "/repo"

SKIP_LINE = re.compile(r"^\s*(//|#\[|tracing::|use |pub use |\*|/\*)|metrics\(\)|_TOTAL|_SECONDS|tracing::|panic!|unreachable!|eprintln!|println!")


def prod_ranges():
    from rules import mir
    prog = mir.load("dev")
    ranges = {}
    for f in prog.fns.values():
        rec = f.rec
        if rec.get("from_expansion") or f.derived or not rec.get("file", "").startswith("crates/"):
            continue
        lo = rec["line"]
        hi = lo
        for b in f.blocks:
            for st in b.get("stmts", []):
                hi = max(hi, st.get("ln", 0) or 0)
            t = b.get("term")
            if t:
                hi = max(hi, t.get("ln", 0) or 0)
        ranges.setdefault(rec["file"], []).append((lo, hi))
    return ranges


REL = {"<": "<=", "<=": "<", ">": ">=", ">=": ">", "==": "!=", "!=": "=="}


def mutate_line(line):
    """yield (op, newline)"""
    if SKIP_LINE.search(line):
        return
    code = line.split("//")[0] if '"' not in line else line
    # 1 relational
    for m in re.finditer(r"(?<=\s)(<=|>=|==|!=|<|>)(?=\s)", code):
        yield ("rel:%s" % m.group(1), line[:m.start()] + REL[m.group(1)] + line[m.end():])
    # boundary flips the other way (< -> >), useful for comparisons on ordered data
    for m in re.finditer(r"(?<=\s)(<|>)(?=\s)", code):
        yield ("relflip:%s" % m.group(1), line[:m.start()] + (">" if m.group(1) == "<" else "<") + line[m.end():])
    # 2 logical
    for m in re.finditer(r" (&&|\|\|) ", code):
        yield ("logic:%s" % m.group(1), line[:m.start()] + (" || " if m.group(1) == "&&" else " && ") + line[m.end():])
    # 3 arithmetic
    for m in re.finditer(r" (\+|-) (?=[\w(])", code):
        yield ("arith:%s" % m.group(1), line[:m.start()] + (" - " if m.group(1) == "+" else " + ") + line[m.end():])
    for m in re.finditer(r" (\+=|-=) ", code):
        yield ("arith:%s" % m.group(1), line[:m.start()] + (" -= " if m.group(1) == "+=" else " += ") + line[m.end():])
    # 4 booleans
    for m in re.finditer(r"\b(true|false)\b", code):
        yield ("bool:%s" % m.group(1), line[:m.start()] + ("false" if m.group(1) == "true" else "true") + line[m.end():])
    # 5 negation removal
    for m in re.finditer(r"(?<![=!<>\w])!(?=[\w(])", code):
        yield ("unneg", line[:m.start()] + line[m.end():])
    # 6 literals
    if re.search(r"[<>\[+\-]|==|\.\.|!=", code):
        for m in re.finditer(r"(?<![\w.\"'])(\d+)(?![\w\"'.]|\.\d)", code):
            n = int(m.group(1))
            if n > 70000:
                continue
            yield ("lit+1:%d" % n, line[:m.start()] + str(n + 1) + line[m.end():])
            if n > 0:
                yield ("lit-1:%d" % n, line[:m.start()] + str(n - 1) + line[m.end():])
    for m in re.finditer(r"\b0b([01_]+)\b", code):
        bits = m.group(1).replace("_", "")
        v = int(bits, 2)
        w = len(bits)
        for nv, tag in ((v ^ (1 << (w - 1)) if v == 0 else (v << 1) & ((1 << w) - 1) or 1, "shl"), (v >> 1 if v >> 1 else v ^ 3, "shr")):
            if nv != v:
                yield ("bin:%s:%s" % (tag, bits), line[:m.start()] + "0b" + format(nv, "0%db" % w) + line[m.end():])
    # 7 statement deletion
    if re.match(r"^\s*[a-z_][\w\.]*(\(|\.|\[).*\);\s*$", line) and not re.match(r"^\s*(let|return|assert|debug_assert)\b", line) and line.count("(") == line.count(")"):
        yield ("delstmt", re.match(r"^\s*", line).group(0) + "\n")
    if re.match(r"^\s*\*?[a-z_][\w\.\[\]]*\s*(\+|-|\|)?=\s[^=].*;\s*$", line) and line.count("(") == line.count(")") and not re.match(r"^\s*let\b", line):
        yield ("delassign", re.match(r"^\s*", line).group(0) + "\n")
    # 8 loop control
    if re.search(r"\bcontinue;", code):
        yield ("continue->break", line.replace("continue;", "break;", 1))
    if re.search(r"\bbreak;", code):
        yield ("break->continue", line.replace("break;", "continue;", 1))
    # 10 helpers
    for a, b in ((".min(", ".max("), (".max(", ".min("), ("saturating_sub", "saturating_add"), ("saturating_add", "saturating_sub"),
                 (".is_some()", ".is_none()"), (".is_none()", ".is_some()"), (".any(", ".all("), (".all(", ".any("),
                 ("to_ascii_lowercase", "to_ascii_uppercase"), (".first()", ".last()"), (".last()", ".first()"),
                 ("to_be_bytes", "to_le_bytes"), ("from_be_bytes", "from_le_bytes"), (".push_front(", ".push_back("), (".push_back(", ".push_front("),
                 (".pop_front(", ".pop_back("), (".pop_back(", ".pop_front("), ("ends_with(", "starts_with("), ("starts_with(", "ends_with(")):
        i = code.find(a)
        if i >= 0:
            yield ("swap:%s" % a.strip(".("), line[:i] + b + line[i + len(a):])
    # 11 negate a whole single-line condition
    m = re.match(r"^(\s*(?:\} else )?(?:if|while) )((?!let\b)[^{}]+?)( \{\s*)$", line)
    if m and " && " not in m.group(2) and " || " not in m.group(2) and not m.group(2).startswith("!") and not re.search(r" (<=|>=|==|!=|<|>) ", m.group(2)):
        yield ("negcond", m.group(1) + "!(" + m.group(2) + ")" + m.group(3))


def gen():
    ranges = prod_ranges()
    out = []
    for file, rs in sorted(ranges.items()):
        lines = open(os.path.join(REPO, file)).read().split("\n")
        ok = set()
        for lo, hi in rs:
            ok.update(range(lo, hi + 1))
        for ln in sorted(ok):
            if ln - 1 >= len(lines):
                continue
            line = lines[ln - 1]
            seen = set()
            for op, new in mutate_line(line + "\n"):
                new = new.rstrip("\n")
                if new == line or (op, new) in seen:
                    continue
                seen.add((op, new))
                mid = hashlib.sha1(("%s:%d:%s:%s" % (file, ln, op, new)).encode()).hexdigest()[:10]
                out.append({"id": mid, "file": file, "line": ln, "op": op, "old": line, "new": new})
    for m in out:
        print(json.dumps(m))
    sys.stderr.write("%d mutants in %d files\n" % (len(out), len(ranges)))


def sh(cmd, cwd=None, env=None, timeout=None):
    try:
        r = subprocess.run(cmd, cwd=cwd, env=env, stdout=subprocess.PIPE, stderr=subprocess.STDOUT, text=True, timeout=timeout, shell=isinstance(cmd, str))
        return r.returncode, r.stdout
    except subprocess.TimeoutExpired as e:
        return 124, (e.stdout or b"").decode() if isinstance(e.stdout, bytes) else (e.stdout or "")


def worker(k, q, outfh, lock, test_flagged):
    wt = "/tmp/mw/%d" % k
    cache = "/tmp/mc/%d" % k
    if not os.path.isdir(wt):
        sh(["git", "-C", REPO, "worktree", "add", "--detach", wt, "HEAD", "-q"])
        sh("cp -r %s/target %s/target" % (REPO, wt))
    os.makedirs(cache, exist_ok=True)
    env = dict(os.environ, VERIF_REPO=wt, VERIF_CACHE=cache, VERIF_SCRATCH_OUT=cache, CARGO_NET_OFFLINE="true")
    while True:
        try:
            m = q.get_nowait()
        except queue.Empty:
            return
        path = os.path.join(wt, m["file"])
        src = open(path).read()
        lines = src.split("\n")
        assert lines[m["line"] - 1] == m["old"], (m, lines[m["line"] - 1])
        lines[m["line"] - 1] = m["new"]
        open(path, "w").write("\n".join(lines))
        t0 = time.time()
        rc, out = sh([sys.executable, os.path.join(VERIF, "dev", "checkall.py")], env=env, timeout=900)
        res = {"id": m["id"], "file": m["file"], "line": m["line"], "op": m["op"], "old": m["old"].strip(), "new": m["new"].strip()}
        if "BUILD-FAILED" in out:
            res["status"] = "nocompile"
        elif rc == 124:
            res["status"] = "checker-timeout"
        else:
            flagged = {}
            for l in out.split("\n"):
                p = l.split(" ", 3)
                if len(p) >= 3 and p[0] == "RESULT" and p[2] != "0":
                    flagged[p[1]] = p[3] if len(p) > 3 else ""
            if not any(l.startswith("RESULT") for l in out.split("\n")):
                res["status"] = "checker-error"
                res["out"] = out[-500:]
            else:
                res["flagged"] = flagged
                if flagged and not test_flagged:
                    res["status"] = "flagged"
                else:
                    trc, tout = sh("cargo test --workspace --offline 2>&1 | tail -40", cwd=wt, env=dict(os.environ, CARGO_NET_OFFLINE="true"), timeout=1200)
                    failed = re.findall(r"^test (\S+) \.\.\. FAILED", tout, flags=re.M)
                    okc = len(re.findall(r"^test result: ok", tout, flags=re.M))
                    if trc == 124:
                        tests = "killed:timeout"
                    elif failed or "test result: FAILED" in tout or "error: test failed" in tout or "error[" in tout or "could not compile" in tout:
                        flaky = {"zones::types::tests::zone_insert_resolve", "zones::types::tests::zone_insert_wildcard_resolve"}
                        tests = "killed" if (set(failed) - flaky or not failed) else "survived(flaky-only)"
                        res["failed"] = failed[:5]
                    elif okc >= 2:
                        tests = "survived"
                    else:
                        tests = "unknown"
                        res["tout"] = tout[-400:]
                    res["tests"] = tests
                    res["status"] = ("flagged+" if flagged else "unflagged+") + tests
        res["wall"] = round(time.time() - t0, 1)
        open(path, "w").write(src)
        with lock:
            outfh.write(json.dumps(res) + "\n")
            outfh.flush()


def run(argv):
    mutants = [json.loads(l) for l in open(argv[0])]
    outp = argv[1]
    workers = 8
    sample = None
    test_flagged = "--test-flagged" in argv
    if "--workers" in argv:
        workers = int(argv[argv.index("--workers") + 1])
    if "--sample" in argv:
        sample = int(argv[argv.index("--sample") + 1])
    only = None
    if "--files" in argv:
        only = argv[argv.index("--files") + 1].split(",")
    done = set()
    if os.path.isfile(outp):
        done = {json.loads(l)["id"] for l in open(outp)}
    todo = [m for m in mutants if m["id"] not in done and (only is None or any(o in m["file"] for o in only))]
    random.Random(7).shuffle(todo)
    if sample:
        todo = todo[:sample]
    q = queue.Queue()
    for m in todo:
        q.put(m)
    sys.stderr.write("%d mutants to run with %d workers\n" % (len(todo), workers))
    lock = threading.Lock()
    outfh = open(outp, "a")
    ths = [threading.Thread(target=worker, args=(k, q, outfh, lock, test_flagged)) for k in range(workers)]
    for t in ths:
        t.start()
    for t in ths:
        t.join()


def recheck(argv):
    """re-run the checks (not the tests) on the unflagged survivors of a results file, in a separate worktree pool"""
    rs = [json.loads(l) for l in open(argv[0])]
    muts = {json.loads(l)["id"]: json.loads(l) for l in open(argv[1])}
    todo = [muts[r["id"]] for r in rs if r["status"].startswith("unflagged+survived") and r["id"] in muts]
    q = queue.Queue()
    for m in todo:
        q.put(m)
    out = {}
    lock = threading.Lock()

    def w(k):
        wt = "/tmp/mv/%d" % k
        cache = "/tmp/mvc/%d" % k
        if not os.path.isdir(wt):
            sh(["git", "-C", REPO, "worktree", "add", "--detach", wt, "HEAD", "-q"])
        os.makedirs(cache, exist_ok=True)
        env = dict(os.environ, VERIF_REPO=wt, VERIF_CACHE=cache, VERIF_SCRATCH_OUT=cache, CARGO_NET_OFFLINE="true")
        while True:
            try:
                m = q.get_nowait()
            except queue.Empty:
                return
            path = os.path.join(wt, m["file"])
            src = open(path).read()
            lines = src.split("\n")
            if lines[m["line"] - 1] != m["old"]:
                with lock:
                    out[m["id"]] = "stale"
                continue
            lines[m["line"] - 1] = m["new"]
            open(path, "w").write("\n".join(lines))
            rc, o = sh([sys.executable, os.path.join(VERIF, "dev", "checkall.py")], env=env, timeout=900)
            open(path, "w").write(src)
            fl = [l.split(" ", 3)[1] + ":" + (l.split(" ", 3)[3][:80] if len(l.split(" ", 3)) > 3 else "") for l in o.split("\n") if l.startswith("RESULT") and l.split(" ")[2] != "0"]
            with lock:
                out[m["id"]] = fl or ("BUILD-FAILED" if "BUILD-FAILED" in o else [])
    ths = [threading.Thread(target=w, args=(k,)) for k in range(4)]
    for t in ths:
        t.start()
    for t in ths:
        t.join()
    for m in todo:
        print("%s %s:%d [%s] %s => %s\n      now: %s" % (m["id"], m["file"].replace("crates/", ""), m["line"], m["op"], m["old"].strip()[:70], m["new"].strip()[:70], out.get(m["id"])))


def report(argv):
    rs = [json.loads(l) for l in open(argv[0])]
    from collections import Counter
    c = Counter(r["status"] for r in rs)
    for k, v in sorted(c.items()):
        print("%6d %s" % (v, k))
    print("--- unflagged survivors")
    for r in sorted(rs, key=lambda r: (r["file"], r["line"])):
        if r["status"].startswith("unflagged+survived"):
            print("%s:%d [%s] %s\n      ->  %s" % (r["file"], r["line"], r["op"], r["old"][:150], r["new"][:150]))


if __name__ == "__main__":
    cmd = sys.argv[1]
    {"gen": lambda a: gen(), "run": run, "report": report, "recheck": recheck}[cmd](sys.argv[2:])
