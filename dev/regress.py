#!/usr/bin/env python3
"""dev tool: run every seeded (must alarm) and benign (must stay quiet) patch against all quick checks,
in parallel scratch worktrees under /tmp/mw (own facts caches under /tmp/mc).  Nothing touches /repo.

  regress.py [--workers N] [--only seeded|benign] [name-substring ...]"""
import json, os, queue, subprocess, sys, threading, time

VERIF = os.path.dirname(os.path.dirname(os.path.abspath(__file__)))
REPO = "/repo"


def sh(cmd, cwd=None, env=None, timeout=None):
    r = subprocess.run(cmd, cwd=cwd, env=env, stdout=subprocess.PIPE, stderr=subprocess.STDOUT, text=True, timeout=timeout, shell=isinstance(cmd, str))
    return r.returncode, r.stdout


def worker(k, q, results, lock):
    wt = "%s/%d" % (os.environ.get("VERIF_POOL_WT", "/tmp/mw"), k)
    cache = "%s/%d" % (os.environ.get("VERIF_POOL_CACHE", "/tmp/mc"), k)
    head = sh(["git", "-C", REPO, "rev-parse", "HEAD"])[1].strip()
    if not os.path.isdir(wt):
        sh(["git", "-C", REPO, "worktree", "add", "--detach", wt, "HEAD", "-q"])
    else:
        sh("git checkout -q -- . && git clean -fdq -e target && git checkout -q --detach %s" % head, cwd=wt)
    os.makedirs(cache, exist_ok=True)
    env = dict(os.environ, VERIF_REPO=wt, VERIF_CACHE=cache, VERIF_SCRATCH_OUT=cache, CARGO_NET_OFFLINE="true")
    while True:
        try:
            kind, name, patch = q.get_nowait()
        except queue.Empty:
            return
        rc, out = sh(["git", "apply", patch], cwd=wt)
        if rc != 0:
            res = {"status": "does-not-apply", "out": out[-300:]}
        else:
            t0 = time.time()
            rc, out = sh([sys.executable, os.path.join(VERIF, "dev", "checkall.py")], env=env, timeout=1200)
            flagged = {}
            for l in out.split("\n"):
                p = l.split(" ", 3)
                if len(p) >= 3 and p[0] == "RESULT" and p[2] != "0":
                    flagged[p[1]] = p[3] if len(p) > 3 else ""
            res = {"status": "build-failed" if "BUILD-FAILED" in out else ("ok" if "RESULT" in out else "error"), "flagged": flagged, "wall": round(time.time() - t0, 1)}
            if res["status"] == "error":
                res["out"] = out[-400:]
        sh("git checkout -q -- . && git clean -fdq -e target", cwd=wt)
        with lock:
            results[(kind, name)] = res


def main():
    args = sys.argv[1:]
    workers = 8
    only = None
    subs = []
    i = 0
    while i < len(args):
        if args[i] == "--workers":
            workers = int(args[i + 1]); i += 2
        elif args[i] == "--only":
            only = args[i + 1]; i += 2
        else:
            subs.append(args[i]); i += 1
    q = queue.Queue()
    items = []
    for kind in ("seeded", "benign"):
        if only and kind != only:
            continue
        d = os.path.join(VERIF, kind)
        for name in sorted(os.listdir(d)):
            p = os.path.join(d, name, "patch.diff")
            mp = os.path.join(d, name, "meta.json")
            if os.path.isfile(mp) and json.load(open(mp)).get("obsolete_since"):
                continue
            if os.path.isfile(p) and (not subs or any(s in name for s in subs)):
                items.append((kind, name, p))
    for it in items:
        q.put(it)
    results = {}
    lock = threading.Lock()
    ths = [threading.Thread(target=worker, args=(k, q, results, lock)) for k in range(min(workers, len(items)))]
    for t in ths:
        t.start()
    for t in ths:
        t.join()
    bad = 0
    for kind, name, p in items:
        r = results.get((kind, name), {"status": "missing"})
        fl = sorted(r.get("flagged", {}))
        if kind == "seeded":
            prop = name.split("-")[0]
            meta = json.load(open(os.path.join(VERIF, kind, name, "meta.json")))
            expected = set(meta.get("detected_by", []))
            ok = r["status"] == "ok" and prop in fl
            note = "" if set(fl) == expected else "  (recorded: %s)" % sorted(expected)
            print("%s seeded %-7s -> %s%s" % ("ok  " if ok else "MISS", name, fl or r["status"], note))
        else:
            ok = r["status"] == "ok" and not fl
            print("%s benign %-7s -> %s" % ("ok  " if ok else "ALRM", name, "quiet" if ok else (r.get("flagged") or r["status"])))
        bad += 0 if ok else 1
    print("%d item(s), %d not as expected" % (len(items), bad))


if __name__ == "__main__":
    main()
