"""Fact loader + program model: functions, CFG, dominators, call graph, pretty printer."""
import json
import os
from collections import defaultdict

from . import facts as factsmod
from . import inline as inlinemod
from . import expand as expandmod
from . import thread as threadmod

EXPAND = os.environ.get("VERIF_NO_EXPAND") is None


class AnchorMissing(Exception):
    """A function / type / field the rule is anchored on does not exist (fail closed)."""


# --------------------------------------------------------------------------- places / operands

def place_local(p):
    return p["l"]


def place_proj(p):
    return p.get("p", [])


def is_plain_local(p):
    return not p.get("p")


def op_place(op):
    if "copy" in op:
        return op["copy"]
    if "move" in op:
        return op["move"]
    return None


def op_const(op):
    return op.get("const")


def const_val(c, prog=None):
    """Scalar / str value of a const operand record, resolving `uneval` through the table."""
    if c is None:
        return None
    if "val" in c and c["val"] is not None:
        return c["val"]
    if "str" in c:
        return c["str"]
    if "uneval" in c and prog is not None:
        r = prog.consts.get(c["uneval"])
        if r is not None:
            return const_val(r, None)
    return None


def fmt_proj(base, proj):
    s = base
    for e in proj:
        if e == "deref":
            s = "(*%s)" % s
        elif isinstance(e, str):
            s = "%s.<%s>" % (s, e)
        elif "f" in e:
            s = "%s.%s" % (s, e["f"])
        elif "downcast" in e:
            s = "(%s as %s)" % (s, e["downcast"])
        elif "index" in e:
            s = "%s[_%d]" % (s, e["index"])
        elif "cindex" in e:
            s = "%s[%s%d]" % (s, "-" if e.get("from_end") else "", e["cindex"])
        elif "subslice" in e:
            s = "%s[%d..%s%d]" % (s, e["subslice"], "-" if e.get("from_end") else "", e["to"])
        else:
            s = "%s.?%s" % (s, e)
    return s


def fmt_place(p):
    return fmt_proj("_%d" % p["l"], p.get("p", []))


def fmt_const(c):
    if "str" in c:
        return "const %r" % c["str"]
    if "uneval" in c:
        return "const %s" % c["uneval"]
    if "fn" in c:
        return "fn %s" % c["fn"]
    if "val" in c and c["val"] is not None:
        if c.get("char"):
            return "const %r" % chr(c["val"])
        return "const %s_%s" % (c["val"], c["ty"])
    if "bytes" in c:
        return "const b%r" % bytes(c["bytes"])
    if "data" in c:
        return "const %s" % fmt_data(c["data"])
    return "const <%s>" % c.get("ty")


def fmt_data(d):
    s = d.get("adt", "")
    if "variant" in d:
        s += "::" + d["variant"]
    if d.get("fields"):
        s += "(" + ", ".join(fmt_const(f)[6:] for f in d["fields"]) + ")"
    return s


def fmt_op(op):
    if "copy" in op:
        return "copy " + fmt_place(op["copy"])
    if "move" in op:
        return "move " + fmt_place(op["move"])
    if "const" in op:
        return fmt_const(op["const"])
    return "<%s>" % op


def fmt_rv(rv):
    k = rv["k"]
    if k == "use":
        return fmt_op(rv["op"])
    if k == "ref":
        return "&%s%s" % ({"mut": "mut ", "shared": "", "fake": "fake "}[rv["bk"]], fmt_place(rv["place"]))
    if k == "rawptr":
        return "&raw %s" % fmt_place(rv["place"])
    if k == "bin":
        return "%s(%s, %s)" % (rv["op"], fmt_op(rv["a"]), fmt_op(rv["b"]))
    if k == "un":
        return "%s(%s)" % (rv["op"], fmt_op(rv["a"]))
    if k == "cast":
        return "%s as %s [%s]" % (fmt_op(rv["op"]), rv["ty"], rv["ck"])
    if k == "discr":
        return "discriminant(%s)" % fmt_place(rv["place"])
    if k == "repeat":
        return "[%s; %s]" % (fmt_op(rv["op"]), rv["n"])
    if k == "agg":
        ak = rv["ak"]
        ops = [fmt_op(o) for o in rv["ops"]]
        if ak == "adt":
            fs = rv["fields"]
            body = ", ".join("%s: %s" % (f, o) for f, o in zip(fs, ops))
            return "%s::%s { %s }" % (rv["adt"], rv["variant"], body)
        if ak == "tuple":
            return "(" + ", ".join(ops) + ")"
        if ak == "array":
            return "[" + ", ".join(ops) + "]"
        return "%s %s(%s)" % (ak, rv.get("def", rv.get("ty", "")), ", ".join(ops))
    return "<%s>" % rv.get("dbg", k)


def callee_name(t):
    return t.get("resolved") or t.get("callee") or "<indirect>"


def fmt_term(t):
    k = t["k"]
    if k == "goto":
        return "goto -> bb%d" % t["target"]
    if k == "switch":
        arms = ", ".join("%s: bb%d" % (v, b) for v, b in t["targets"])
        return "switchInt(%s) -> [%s, otherwise: bb%d]" % (fmt_op(t["discr"]), arms, t["otherwise"])
    if k in ("call", "tailcall"):
        name = t.get("callee") or ("(%s)" % fmt_op(t["callee_op"]))
        if t.get("resolved") and t["resolved"] != t.get("callee"):
            name += " {=> %s}" % t["resolved"]
        args = ", ".join(fmt_op(a) for a in t["args"])
        if k == "tailcall":
            return "tailcall %s(%s)" % (name, args)
        tgt = "bb%d" % t["target"] if t["target"] is not None else "!"
        return "%s = %s(%s) -> %s" % (fmt_place(t["dst"]), name, args, tgt)
    if k == "assert":
        return "assert(%s%s, %s %s) -> bb%d" % ("" if t["expected"] else "!", fmt_op(t["cond"]), t["msg"],
                                                 [fmt_op(o) for o in t["ops"]], t["target"])
    if k == "drop":
        return "drop(%s) -> bb%d" % (fmt_place(t["place"]), t["target"])
    if k == "yield":
        return "yield(%s) -> bb%d" % (fmt_op(t["value"]), t["target"])
    return k


# --------------------------------------------------------------------------- functions

class Fn:
    def __init__(self, prog, target, key, rec):
        self.prog = prog
        self.target = target          # e.g. "dns_resolver.lib"
        self.crate = target.split(".")[0]
        self.key = key
        self.rec = rec
        self.kind = rec["kind"]
        self.file = rec["file"]
        self.line = rec["line"]
        self.root_key = rec.get("root", key)
        self.parent_key = rec.get("parent")
        self.blocks = rec["blocks"]
        self.locals = rec["locals"]
        self.arg_count = rec["arg_count"]
        self.derived = bool(rec.get("derived"))
        self.from_expansion = bool(rec.get("from_expansion"))
        self._succ = None
        self._pred = None
        self._dom = None
        self._defs = None
        self.names = {}
        for v in rec.get("vars", []):
            if is_plain_local(v["place"]):
                self.names.setdefault(v["place"]["l"], v["name"])

    # -- basics
    def __repr__(self):
        return "<Fn %s>" % self.key

    def loc(self, b=None, stmt=None):
        if b is None:
            return "%s:%d" % (self.file, self.line)
        blk = self.blocks[b]
        if stmt is not None and stmt != "term":
            return "%s:%d" % (self.file, blk["stmts"][stmt]["ln"])
        return "%s:%d" % (self.file, blk["term"]["ln"])

    def live_blocks(self):
        return [b["id"] for b in self.blocks if not b.get("cleanup")]

    def term(self, b):
        return self.blocks[b].get("term")

    def stmts(self, b):
        return self.blocks[b].get("stmts", [])

    def local_ty(self, l):
        return self.locals[l]["ty"]

    def is_param(self, l):
        return 1 <= l <= self.arg_count

    def succs(self, b):
        if self._succ is None:
            self._build_cfg()
        return self._succ[b]

    def preds(self, b):
        if self._succ is None:
            self._build_cfg()
        return self._pred[b]

    def edges_of(self, b):
        """[(label, target)] for the terminator of b; label is ('sw', value) / ('sw','otherwise') / 'next'."""
        t = self.term(b)
        if t is None:
            return []
        k = t["k"]
        if k == "switch":
            out = [(("sw", v), tg) for v, tg in t["targets"]]
            out.append((("sw", "otherwise"), t["otherwise"]))
            return out
        if k in ("goto", "drop", "assert", "yield"):
            return [("next", t["target"])]
        if k == "call":
            return [("next", t["target"])] if t["target"] is not None else []
        return []

    def _build_cfg(self):
        n = len(self.blocks)
        self._succ = [[] for _ in range(n)]
        self._pred = [[] for _ in range(n)]
        for b in self.blocks:
            if b.get("cleanup"):
                continue
            for _, tg in self.edges_of(b["id"]):
                if tg is None or self.blocks[tg].get("cleanup"):
                    continue
                if tg not in self._succ[b["id"]]:
                    self._succ[b["id"]].append(tg)
                    self._pred[tg].append(b["id"])

    # -- reachability / dominance
    def reachable(self, start=0, removed_edges=(), removed_blocks=()):
        """Blocks reachable from `start` (inclusive) avoiding removed edges (a,b) / blocks."""
        removed_edges = set(removed_edges)
        removed_blocks = set(removed_blocks)
        seen = set()
        stack = [start] if start not in removed_blocks else []
        while stack:
            b = stack.pop()
            if b in seen:
                continue
            seen.add(b)
            for s in self.succs(b):
                if (b, s) in removed_edges or s in removed_blocks:
                    continue
                if s not in seen:
                    stack.append(s)
        return seen

    def reach_from_edge(self, a, b, removed_edges=(), removed_blocks=()):
        return self.reachable(b, removed_edges, removed_blocks)

    def dominators(self):
        """idom-less simple iterative dominator sets (functions are small)."""
        if self._dom is not None:
            return self._dom
        live = sorted(self.reachable(0))
        order = self._rpo()
        idx = {b: i for i, b in enumerate(order)}
        idom = {0: 0}
        changed = True
        while changed:
            changed = False
            for b in order:
                if b == 0:
                    continue
                new = None
                for p in self.preds(b):
                    if p in idom:
                        new = p if new is None else self._intersect(idom, idx, p, new)
                if new is not None and idom.get(b) != new:
                    idom[b] = new
                    changed = True
        self._idom = idom
        self._dom = idom
        self._live = set(live)
        return idom

    def _intersect(self, idom, idx, a, b):
        while a != b:
            while idx[a] > idx[b]:
                a = idom[a]
            while idx[b] > idx[a]:
                b = idom[b]
        return a

    def _rpo(self):
        seen = set()
        order = []
        stack = [(0, iter(self.succs(0)))]
        seen.add(0)
        while stack:
            b, it = stack[-1]
            adv = False
            for s in it:
                if s not in seen:
                    seen.add(s)
                    stack.append((s, iter(self.succs(s))))
                    adv = True
                    break
            if not adv:
                order.append(b)
                stack.pop()
        order.reverse()
        return order

    def dominates(self, a, b):
        """block a dominates block b (both reachable)."""
        idom = self.dominators()
        if b not in idom or a not in idom:
            return False
        x = b
        while True:
            if x == a:
                return True
            if x == 0:
                return False
            x = idom[x]

    def edge_dominates(self, a, s, b):
        """every path from entry to b uses edge a->s (a single CFG edge)."""
        if b not in self.reachable(0):
            return False
        return b not in self.reachable(0, removed_edges=[(a, s)])

    def all_paths_cross(self, frm, to, cut_edges=(), cut_blocks=()):
        """CUT-REACH: `to` unreachable from `frm` once the cut is removed."""
        return to not in self.reachable(frm, removed_edges=cut_edges, removed_blocks=cut_blocks)

    # -- definitions
    def defs(self):
        """local -> list of (block, idx|'term', kind) where kind in {'assign','call','yield','setdiscr'}
        counting only *whole-local* writes; partial writes recorded under kind 'partial'."""
        if self._defs is not None:
            return self._defs
        d = defaultdict(list)
        for b in self.blocks:
            if b.get("cleanup"):
                continue
            for i, st in enumerate(b.get("stmts", [])):
                if st["k"] == "assign":
                    p = st["dst"]
                    if is_plain_local(p):
                        d[p["l"]].append((b["id"], i, "assign"))
                    elif p["p"][0] != "deref":
                        d[p["l"]].append((b["id"], i, "partial"))
                    # stores through a deref write the pointee, not the local
                elif st["k"] == "setdiscr":
                    d[st["dst"]["l"]].append((b["id"], i, "partial"))
            t = b.get("term")
            if t and t["k"] == "call":
                p = t["dst"]
                if is_plain_local(p):
                    d[p["l"]].append((b["id"], "term", "call"))
                elif p["p"][0] != "deref":
                    d[p["l"]].append((b["id"], "term", "partial"))
            elif t and t["k"] == "yield":
                p = t["resume_arg"]
                d[p["l"]].append((b["id"], "term", "yield" if is_plain_local(p) else "partial"))
        self._defs = d
        return d

    def single_def(self, l):
        """(block, idx) of the unique whole assignment of local l, or None.  Locals that are also
        written field-by-field are never single-def (their value depends on the program point)."""
        all_ds = self.defs().get(l, [])
        if any(x[2] == "partial" for x in all_ds):
            return None
        ds = [x for x in all_ds if x[2] != "partial"]
        if len(ds) == 1 and not self.is_param(l):
            return ds[0]
        return None

    def single_stmt_def(self, l):
        """like single_def, but the copies of one statement made by the threading pass (rules/thread.py) count as one
        definition.  For rules that ask *which statement* builds a value; not for resolving a value at a point."""
        all_ds = self.defs().get(l, [])
        if any(x[2] == "partial" for x in all_ds) or self.is_param(l):
            return None
        have = {(x[0], x[1]) for x in all_ds}
        ds = [x for x in all_ds if (self.blocks[x[0]].get("clone_of"), x[1]) not in have]
        return ds[0] if len(ds) == 1 else None

    def has_partial_defs(self, l):
        return any(x[2] == "partial" for x in self.defs().get(l, []))

    def def_rvalue(self, l):
        """('rv', rvalue) / ('call', term) for a single-def local, else None."""
        sd = self.single_def(l)
        if sd is None:
            return None
        b, i, kind = sd
        if kind == "assign":
            return ("rv", self.blocks[b]["stmts"][i]["rv"], b, i)
        if kind == "call":
            return ("call", self.blocks[b]["term"], b, i)
        return None

    # -- iteration helpers
    def calls(self):
        for b in self.blocks:
            t = b.get("term")
            if t and t["k"] in ("call", "tailcall"):
                yield b["id"], t

    def assigns(self):
        for b in self.blocks:
            for i, st in enumerate(b.get("stmts", [])):
                if st["k"] == "assign":
                    yield b["id"], i, st

    def loops(self):
        """Natural loops: list of (header, set(blocks)) from back edges (edges to a dominator)."""
        out = {}
        self.dominators()
        for b in self.reachable(0):
            for s in self.succs(b):
                if self.dominates(s, b):
                    body = out.setdefault(s, {s})
                    stack = [b]
                    while stack:
                        x = stack.pop()
                        if x in body:
                            continue
                        body.add(x)
                        stack.extend(self.preds(x))
        return sorted(out.items())

    def has_cycle(self, removed_blocks=(), removed_edges=(), within=None):
        """Is there a cycle in the CFG restricted to `within` after removals?"""
        removed_blocks = set(removed_blocks)
        removed_edges = set(removed_edges)
        nodes = set(self.reachable(0)) if within is None else set(within)
        nodes -= removed_blocks
        color = {}
        for root in nodes:
            if root in color:
                continue
            stack = [(root, iter(self.succs(root)))]
            color[root] = 1
            while stack:
                b, it = stack[-1]
                adv = False
                for s in it:
                    if s not in nodes or (b, s) in removed_edges:
                        continue
                    c = color.get(s)
                    if c == 1:
                        return True
                    if c is None:
                        color[s] = 1
                        stack.append((s, iter(self.succs(s))))
                        adv = True
                        break
                if not adv:
                    color[b] = 2
                    stack.pop()
        return False

    # -- printing
    def dump(self):
        out = ["fn %s  [%s %s:%d]" % (self.key, self.kind, self.file, self.line)]
        for l in self.locals:
            nm = self.names.get(l["l"])
            out.append("    let _%d: %s;%s" % (l["l"], l["ty"], ("  // " + nm) if nm else ""))
        for b in self.blocks:
            if b.get("cleanup"):
                continue
            out.append("  bb%d:" % b["id"])
            for st in b.get("stmts", []):
                if st["k"] == "assign":
                    out.append("      %s = %s;   // :%d" % (fmt_place(st["dst"]), fmt_rv(st["rv"]), st["ln"]))
                elif st["k"] == "setdiscr":
                    out.append("      discriminant(%s) = %d;" % (fmt_place(st["dst"]), st["vi"]))
            t = b["term"]
            out.append("      %s;   // :%d" % (fmt_term(t), t["ln"]))
        return "\n".join(out)


# --------------------------------------------------------------------------- program

def _param_names(rec):
    out = [None] * (rec.get("arg_count", 0) + 1)
    for v in rec.get("vars", []):
        pl = v.get("place") or {}
        if not pl.get("p") and isinstance(pl.get("l"), int) and 1 <= pl["l"] <= rec.get("arg_count", 0) and out[pl["l"]] is None:
            out[pl["l"]] = v["name"]
    return out[1:]


def _const_renames(all_consts, known_consts):
    """{current path: known path} for renamed local constants: same module, same type, same value, unique both ways"""
    if not known_consts:
        return {}
    local = lambda k: k.split("::")[0] in ("dns_types", "dns_resolver", "resolved", "dnsq", "htoh", "htoz", "ztoh", "ztoz")
    cur = {k: [c.get("ty"), c.get("val")] for k, c in all_consts.items() if local(k)}
    gone = [k for k in known_consts if k not in cur]
    new = [k for k in cur if k not in known_consts]
    parent = lambda k: k.rsplit("::", 1)[0] if "::" in k else ""
    out = {}
    for g in gone:
        cands = [n for n in new if parent(n) == parent(g) and cur[n] == known_consts[g]]
        back = [g2 for g2 in gone if cands and parent(g2) == parent(g) and known_consts[g2] == cur[cands[0]]]
        if len(cands) == 1 and len(back) == 1:
            out[cands[0]] = g
    return out


def _adt_renames(all_adts, known_fields):
    """{current type path: path in the tree the rules were written against} for renamed local types: a known type that is
    gone is paired with a new type of the same module whose variants and fields are the same (names and types, the type's
    own path apart), uniquely both ways."""
    if not known_fields:
        return {}
    def shape(path, variants):
        return sorted((vn, tuple((fn_, ty.replace(path, "Self")) for fn_, ty in fl)) for vn, fl in variants.items())
    cur = {}
    for k, a in all_adts.items():
        if a.get("local"):
            cur[k] = {v["name"]: [(f["name"], f["ty"]) for f in v["fields"]] for v in a["variants"]}
    gone = [k for k in known_fields if k not in cur]
    new = [k for k in cur if k not in known_fields]
    parent = lambda k: k.rsplit("::", 1)[0] if "::" in k else ""
    out = {}
    for g in gone:
        gs = shape(g, {vn: [tuple(x) for x in fl] for vn, fl in known_fields[g].items()})
        # a struct's single variant carries the struct's own name: compare field lists only
        def same(n):
            ns = shape(n, cur[n])
            if len(gs) == 1 and len(ns) == 1 and gs[0][0] == g.rsplit("::", 1)[-1] and ns[0][0] == n.rsplit("::", 1)[-1]:
                return gs[0][1] == ns[0][1]
            if gs == ns:
                return True
            # some variants renamed as well: same field lists, and at least half of the variant names still there
            shared = len({v for v, _ in gs} & {v for v, _ in ns})
            return len(gs) == len(ns) and sorted(f for _, f in gs) == sorted(f for _, f in ns) and 2 * shared >= len(gs)
        cands = [n for n in new if parent(n) == parent(g) and same(n)]
        if len(cands) == 1:
            out[cands[0]] = g
    # unique both ways
    vals = list(out.values())
    return {k: v for k, v in out.items() if vals.count(v) == 1}


def _variant_renames(adts, known_fields):
    """{adt: {current variant name: known name}}: a new variant name is paired with a vanished one carrying the same fields"""
    out = {}
    for k, a in adts.items():
        kf = (known_fields or {}).get(k)
        if not kf or a.get("kind") != "enum":
            continue
        cur = {v["name"]: [[f["name"], f["ty"]] for f in v["fields"]] for v in a["variants"]}
        if len(cur) != len(kf):
            continue
        new = [n for n in cur if n not in kf]
        gone = [n for n in kf if n not in cur]
        m = {}
        for n in new:
            cands = [g for g in gone if kf[g] == cur[n]]
            back = [n2 for n2 in new if cands and cur[n2] == kf[cands[0]]]
            if len(cands) == 1 and len(back) == 1:
                m[n] = cands[0]
        if m:
            out[k] = m
    return out


def _apply_variant_renames(d, ren):
    if not ren:
        return 0
    n = 0

    def walk(j):
        nonlocal n
        if isinstance(j, list):
            for i, x in enumerate(j):
                if isinstance(x, dict) and "downcast" in x and i + 1 < len(j) and isinstance(j[i + 1], dict) and "adt" in j[i + 1]:
                    m = ren.get(j[i + 1]["adt"])
                    if m and x["downcast"] in m:
                        x["downcast"] = m[x["downcast"]]
                        n += 1
                walk(x)
        elif isinstance(j, dict):
            if "variant" in j and "adt" in j:
                m = ren.get(j["adt"])
                if m and j["variant"] in m:
                    j["variant"] = m[j["variant"]]
                    n += 1
            for v in j.values():
                if isinstance(v, (list, dict)):
                    walk(v)
    for rec in d["fns"].values():
        walk(rec.get("blocks") or [])
        walk(rec.get("vars") or [])
    for k, m in ren.items():
        for v in d["adts"].get(k, {}).get("variants", []):
            if v["name"] in m:
                v["was"] = v["name"]
                v["name"] = m[v["name"]]
                n += 1
    return n


def _fn_renames(all_fns, known_sigs):
    """{current key: key in the tree the rules were written against} for functions that were renamed: a known function
    that is gone is paired with a new function of the same parent path (module / impl) and the same signature, when that
    pairing is unique both ways.  Everything else is left alone (a missing anchor then fails closed)."""
    if not known_sigs:
        return {}
    present = {}
    for k, rec in all_fns.items():
        if rec.get("kind") in ("Fn", "AssocFn") and "{closure" not in k and not rec.get("from_expansion") and not rec.get("derived") and rec.get("locals"):
            present[k] = [l["ty"] for l in rec["locals"][:rec.get("arg_count", 0) + 1]]
    gone = [k for k in known_sigs if k not in present]
    new = [k for k in present if k not in known_sigs]
    parent = lambda k: k.rsplit("::", 1)[0] if "::" in k else ""
    out = {}
    for g in gone:
        cands = [n for n in new if parent(n) == parent(g) and present[n] == known_sigs[g]]
        if len(cands) != 1:
            continue
        back = [g2 for g2 in gone if parent(g2) == parent(cands[0]) and known_sigs[g2] == present[cands[0]]]
        if len(back) == 1:
            out[cands[0]] = g
    # moved to another module of the same crate under the same name and signature
    last = lambda k: k.rsplit("::", 1)[-1]
    crate = lambda k: k.split("::", 1)[0]
    for g in gone:
        if g in out.values():
            continue
        cands = [n for n in new if n not in out and last(n) == last(g) and crate(n) == crate(g) and present[n] == known_sigs[g]]
        back = [g2 for g2 in gone if g2 not in out.values() and cands and last(g2) == last(g) and crate(g2) == crate(g) and known_sigs[g2] == known_sigs[g]]
        if len(cands) == 1 and len(back) == 1:
            out[cands[0]] = g
    return out


def _apply_fn_renames(text, ren):
    """rewrite function paths in the JSON text of one target (keys, callee / resolved names, closure parents, fn-item types)"""
    import re
    for newk, oldk in sorted(ren.items(), key=lambda x: -len(x[0])):
        pat = re.compile(re.escape(json.dumps(newk)[1:-1]) + r"(?![A-Za-z0-9_])")
        text = pat.sub(lambda m_: json.dumps(oldk)[1:-1], text)
    return text


def _field_renames(adts, known_fields):
    """{(adt, variant): {current field name: name in the tree the rules were written against}} for the local types whose
    fields were renamed.  Names present in both trees keep themselves; a new name is paired with a vanished name of the
    same type (in order of appearance).  Anything that does not pair up is left alone."""
    out = {}
    for k, a in adts.items():
        kf = (known_fields or {}).get(k)
        if not kf:
            continue
        for v in a["variants"]:
            old = kf.get(v["name"])
            if old is None or len(old) != len(v["fields"]):
                continue
            cur_names = [f["name"] for f in v["fields"]]
            old_names = [n for n, _ in old]
            if set(cur_names) == set(old_names) or any(n.isdigit() for n in cur_names):
                continue
            new = [(f["name"], f["ty"]) for f in v["fields"] if f["name"] not in old_names]
            gone = [(n, ty) for n, ty in old if n not in cur_names]
            m = {}
            for n, ty in new:
                for j, (on, oty) in enumerate(gone):
                    if oty == ty:
                        m[n] = on
                        del gone[j]
                        break
            if m:
                out[(k, v["name"])] = m
    return out


def _apply_field_renames(d, ren):
    """rewrite field names in places, aggregates and the type table of one target's facts"""
    if not ren:
        return 0
    n = 0
    struct_variant = {}
    for k, a in d["adts"].items():
        if a["kind"] != "enum" and len(a["variants"]) == 1:
            struct_variant[k] = a["variants"][0]["name"]

    def walk(j):
        nonlocal n
        if isinstance(j, list):
            variant = None
            for x in j:
                if isinstance(x, dict) and "downcast" in x:
                    variant = x["downcast"]
                    continue
                if isinstance(x, dict) and "f" in x and "adt" in x and len(x) <= 4:
                    m = ren.get((x["adt"], variant if variant is not None else struct_variant.get(x["adt"])))
                    if m and x["f"] in m:
                        x["f"] = m[x["f"]]
                        n += 1
                    variant = None
                    continue
                variant = None
                walk(x)
        elif isinstance(j, dict):
            if j.get("k") == "agg" and j.get("ak") == "adt" and "fields" in j:
                m = ren.get((j.get("adt"), j.get("variant")))
                if m:
                    j["fields"] = [m.get(f, f) for f in j["fields"]]
                    n += 1
            for v in j.values():
                if isinstance(v, (list, dict)):
                    walk(v)
    for rec in d["fns"].values():
        walk(rec.get("blocks") or [])
        walk(rec.get("vars") or [])
    for (k, vn), m in ren.items():
        for v in d["adts"].get(k, {}).get("variants", []):
            if v["name"] == vn:
                for f in v["fields"]:
                    if f["name"] in m:
                        f["was"] = f["name"]
                        f["name"] = m[f["name"]]
    return n


def _canonical_upvars(fns, known_params):
    """A closure / async body names the variables it captures.  When such a variable is a parameter of the enclosing
    function, the rules refer to it by the name that parameter had in the tree they were written against
    (known_params.json, by position) - so renaming a parameter changes nothing for the rules."""
    if not known_params:
        return
    for k, rec in fns.items():
        ups = rec.get("upvars")
        root = rec.get("root")
        if not ups or not root or root not in fns or root not in known_params:
            continue
        cur = _param_names(fns[root])
        canon = known_params[root]
        if len(cur) != len(canon):
            continue
        m = {c: k_ for c, k_ in zip(cur, canon) if c and k_ and c != k_}
        if m:
            rec["upvars"] = [m.get(u.lstrip("*"), u) if not u.startswith("*") else "*" + m.get(u[1:], u[1:]) for u in ups]


class Program:
    def __init__(self, facts_dir, info=None):
        self.dir = facts_dir
        self.info = info or {}
        self.targets = {}
        self.fns = {}            # key -> Fn (production functions of all targets)
        self.adts = {}
        self.consts = {}
        self.impls = []
        self.unsafe = []
        self.counts = defaultdict(int)
        self.expanded = {}       # fn key -> [(combinator, line)]: iterator pipelines / Option-Result combinators rewritten as loops / matches
        self.threaded = {}       # fn key -> number of stored conditions threaded back into branches (rules/thread.py)
        self.inlined = {}        # caller key -> [(helper key, line)]: new helpers expanded at their call sites
        known = inlinemod.load_known()
        known_params = inlinemod.load_known_params()
        known_fields = inlinemod.load_known_fields()
        self.renamed_fields = {}
        texts = {}
        parsed = {}
        all_fns = {}
        for t in factsmod.EXPECTED_TARGETS:
            path = os.path.join(facts_dir, t + ".json")
            if not os.path.isfile(path):
                raise AnchorMissing("fact file missing: %s" % t)
            with open(path) as fh:
                texts[t] = fh.read()
            parsed[t] = json.loads(texts[t])
        all_adts = {}
        for t in factsmod.EXPECTED_TARGETS:
            for k_, a_ in parsed[t].get("adts", {}).items():
                all_adts.setdefault(k_, a_)
        self.renamed_types = _adt_renames(all_adts, known_fields)              # current path -> the path the rules use
        all_consts = {}
        for t in factsmod.EXPECTED_TARGETS:
            for k_, c_ in parsed[t].get("consts", {}).items():
                all_consts.setdefault(k_, c_)
        self.renamed_types.update(_const_renames(all_consts, inlinemod.load_known_json("known_consts.json")))
        if self.renamed_types:
            for t in factsmod.EXPECTED_TARGETS:
                texts[t] = _apply_fn_renames(texts[t], self.renamed_types)
                parsed[t] = json.loads(texts[t])
        for t in factsmod.EXPECTED_TARGETS:
            for k_, rec_ in parsed[t].get("fns", {}).items():
                all_fns.setdefault(k_, rec_)
        self.renamed_fns = _fn_renames(all_fns, inlinemod.load_known_sigs())   # current name -> the name the rules use
        del all_fns
        for t in factsmod.EXPECTED_TARGETS:
            d = json.loads(_apply_fn_renames(texts[t], self.renamed_fns)) if self.renamed_fns else parsed[t]
            texts[t] = None
            parsed[t] = None
            if d.get("schema") != factsmod.SCHEMA:
                raise AnchorMissing("fact schema mismatch in %s" % t)
            self.targets[t] = d
            vren = _variant_renames(d["adts"], known_fields)
            if _apply_variant_renames(d, vren):
                for k_, m_ in vren.items():
                    self.renamed_fields.setdefault(k_, {}).update(m_)
            ren = _field_renames(d["adts"], known_fields)
            if _apply_field_renames(d, ren):
                for (k_, v_), m_ in ren.items():
                    self.renamed_fields.setdefault("%s::%s" % (k_, v_), {}).update(m_)
            _canonical_upvars(d["fns"], known_params)
            for _round in range(3):
                erep = expandmod.expand_all(d["fns"], known) if EXPAND else {}
                for k, v in erep.items():
                    self.expanded.setdefault(k, []).extend(v)
                rep = inlinemod.inline_all(d["fns"], known)
                for k, v in rep.items():
                    self.inlined.setdefault(k, []).extend(v)
                if not erep and not rep:
                    break
            if EXPAND:
                for k, v in threadmod.thread_all(d["fns"]).items():
                    self.threaded[k] = v
            for k, v in d["counts"].items():
                self.counts[k] += v
            for k, rec in d["fns"].items():
                # bin and lib of `resolved` share a crate name but not paths
                key = k
                if key in self.fns:
                    key = "%s@%s" % (k, t)
                self.fns[key] = Fn(self, t, key, rec)
            for k, a in d["adts"].items():
                self.adts.setdefault(k, a)
            for k, c in d["consts"].items():
                self.consts.setdefault(k, c)
            for i in d["impls"]:
                i = dict(i)
                i["target"] = t
                self.impls.append(i)
            for u in d["unsafe"]:
                u = dict(u)
                u["target"] = t
                self.unsafe.append(u)
        self._children = defaultdict(list)
        for f in self.fns.values():
            if f.root_key != f.key:
                self._children[f.root_key].append(f)
        self._callers = None

    # -- lookup
    def fn(self, key):
        f = self.fns.get(key)
        if f is None:
            raise AnchorMissing("function not found: %s" % key)
        return f

    def find(self, suffix):
        """unique function whose key ends with `suffix` (on a path boundary)."""
        c = [f for k, f in self.fns.items() if k == suffix or k.endswith("::" + suffix)]
        if len(c) != 1:
            raise AnchorMissing("expected exactly one function matching %r, found %d" % (suffix, len(c)))
        return c[0]

    def family(self, root_key):
        """root fn + all closures / coroutines nested in it."""
        root = self.fn(root_key)
        kids = sorted(self._children.get(root_key, []), key=lambda f: f.key)
        # a closure whose body was spliced into its parent (normalised combinator) is analysed there, with its context
        spliced = set(root.rec.get("spliced") or [])
        for k in kids:
            spliced |= set(k.rec.get("spliced") or [])
        return [root] + [k for k in kids if k.key not in spliced]

    def body_of(self, root_key):
        """The function holding the user-written body: for `async fn` / #[async_recursion] that is
        the single coroutine child `{closure#0}`, otherwise the fn itself."""
        f = self.fn(root_key)
        kids = [c for c in self._children.get(root_key, []) if c.key == root_key + "::{closure#0}"
                and c.rec.get("coroutine")]
        if kids:
            return kids[0]
        return f

    def adt(self, key):
        a = self.adts.get(key)
        if a is None:
            raise AnchorMissing("type not found: %s" % key)
        return a

    def variant_by_discr(self, adt_key, val):
        a = self.adts.get(adt_key)
        if not a:
            return None
        for v in a["variants"]:
            if v["discr"] == val:
                return v["name"]
        return None

    def const(self, key):
        c = self.consts.get(key)
        if c is None:
            raise AnchorMissing("constant not found: %s" % key)
        return c

    # -- call graph
    def call_sites(self, pred):
        """all (fn, block, term) whose callee/resolved name satisfies pred(name, term)."""
        for f in self.fns.values():
            for b, t in f.calls():
                names = [t.get("callee"), t.get("resolved")]
                if any(n and pred(n, t) for n in names):
                    yield f, b, t

    def callers_of(self, key):
        if self._callers is None:
            self._callers = defaultdict(list)
            for f in self.fns.values():
                for b, t in f.calls():
                    for n in {t.get("callee"), t.get("resolved")}:
                        if n:
                            self._callers[n].append((f, b, t))
        return self._callers.get(key, [])

    def inlined_helper_keys(self):
        if getattr(self, "_inl_keys", None) is None:
            self._inl_keys = {h for v in self.inlined.values() for h, _ in v}
        return self._inl_keys

    def callees_of(self, f, include_children=True):
        fs = self.family(f.key) if include_children and f.root_key == f.key else [f]
        out = set()
        for g in fs:
            for b, t in g.calls():
                for n in (t.get("resolved"), t.get("callee")):
                    if n in self.fns:
                        rk = self.fns[n].root_key
                        if rk != n and rk in self.inlined_helper_keys() and not self.callers_of(rk):
                            out.add(n)      # a closure of a helper that now exists only expanded at its call sites
                        else:
                            out.add(rk)
                        break
            # closures / coroutines created here are part of the family already
        return out

    def reachable_fns(self, roots):
        """root-level functions reachable in the workspace call graph from `roots` (keys)."""
        seen = set()
        stack = [self.fn(r).root_key for r in roots]
        while stack:
            k = stack.pop()
            if k in seen:
                continue
            seen.add(k)
            for c in self.callees_of(self.fn(k)):
                if c not in seen:
                    stack.append(c)
        return seen


def load(profile="dev"):
    d, info = factsmod.extract(profile)
    return Program(d, info)
