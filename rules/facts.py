"""Run the mirfacts driver over /repo's current working tree (cached by content hash)."""
import fcntl
import hashlib
import json
import os
import shutil
import subprocess
import sys
import time

VERIF = os.path.dirname(os.path.dirname(os.path.abspath(__file__)))
REPO = os.environ.get("VERIF_REPO", "/repo")
CACHE = os.environ.get("VERIF_CACHE") or os.path.join(VERIF, ".cache")
DRIVER = os.path.join(VERIF, "mirfacts", "target", "release", "mirfacts")
SCHEMA = 3

EXPECTED_TARGETS = [
    "dns_types.lib", "dns_resolver.lib", "resolved.lib", "resolved.bin",
    "dnsq.bin", "htoh.bin", "htoz.bin", "ztoh.bin", "ztoz.bin",
]
MEMBERS = ["dns-types", "dns_types", "dns-resolver", "dns_resolver", "resolved",
           "dnsq", "htoh", "htoz", "ztoh", "ztoz"]


class BuildFailed(Exception):
    pass


def _sysroot():
    return subprocess.check_output(["rustc", "+nightly", "--print", "sysroot"], text=True).strip()


def tree_hash(profile):
    h = hashlib.sha256()
    h.update(("schema=%d profile=%s\n" % (SCHEMA, profile)).encode())
    paths = []
    for top in ("Cargo.toml", "Cargo.lock", "rust-toolchain.toml", ".cargo/config.toml"):
        p = os.path.join(REPO, top)
        if os.path.isfile(p):
            paths.append(p)
    for root, dirs, files in os.walk(os.path.join(REPO, "crates")):
        dirs.sort()
        if "target" in dirs:
            dirs.remove("target")
        for f in sorted(files):
            paths.append(os.path.join(root, f))
    for p in paths:
        h.update(os.path.relpath(p, REPO).encode() + b"\0")
        with open(p, "rb") as fh:
            h.update(hashlib.sha256(fh.read()).digest())
    with open(DRIVER, "rb") as fh:
        h.update(hashlib.sha256(fh.read()).digest())
    return h.hexdigest()[:24]


def ensure_driver():
    if not os.path.isfile(DRIVER):
        env = dict(os.environ, CARGO_NET_OFFLINE="true")
        r = subprocess.run(["cargo", "+nightly", "build", "--release", "--offline"],
                           cwd=os.path.join(VERIF, "mirfacts"), env=env,
                           stdout=subprocess.PIPE, stderr=subprocess.STDOUT, text=True)
        if r.returncode != 0:
            sys.stderr.write(r.stdout)
            raise BuildFailed("mirfacts driver does not build")


def _drop_member_fingerprints(target_dir, profile_dir):
    fp = os.path.join(target_dir, profile_dir, ".fingerprint")
    if os.path.isdir(fp):
        for d in os.listdir(fp):
            base = d.rsplit("-", 1)[0]
            if base in MEMBERS:
                shutil.rmtree(os.path.join(fp, d), ignore_errors=True)


def extract(profile="dev", verbose=False):
    """Return (directory with the nine fact files, info dict). Fail closed."""
    os.makedirs(CACHE, exist_ok=True)
    ensure_driver()
    lock = open(os.path.join(CACHE, "lock"), "w")
    fcntl.flock(lock, fcntl.LOCK_EX)
    try:
        key = tree_hash(profile)
        out = os.path.join(CACHE, "facts", key)
        marker = os.path.join(out, "COMPLETE")
        if os.path.isfile(marker):
            return out, {"cached": True, "key": key, "profile": profile}
        shutil.rmtree(out, ignore_errors=True)
        tmp = out + ".tmp"
        shutil.rmtree(tmp, ignore_errors=True)
        os.makedirs(tmp)
        target_dir = os.path.join(CACHE, "target")
        _drop_member_fingerprints(target_dir, "debug" if profile == "dev" else "release")
        env = dict(os.environ)
        env.update({
            "LD_LIBRARY_PATH": _sysroot() + "/lib",
            "MIRFACTS_OUT": tmp,
            "CARGO_INCREMENTAL": "0",
            "RUSTFLAGS": "-Zmir-opt-level=0 -Awarnings",
            "RUSTC_WORKSPACE_WRAPPER": DRIVER,
            "CARGO_TARGET_DIR": target_dir,
            "CARGO_NET_OFFLINE": "true",
        })
        cmd = ["cargo", "+nightly", "check", "--offline", "--workspace"]
        if profile == "release":
            cmd.append("--release")
        t0 = time.time()
        r = subprocess.run(cmd, cwd=REPO, env=env, stdout=subprocess.PIPE,
                           stderr=subprocess.STDOUT, text=True)
        if r.returncode != 0:
            sys.stderr.write(r.stdout[-6000:])
            shutil.rmtree(tmp, ignore_errors=True)
            raise BuildFailed("cargo check of /repo failed (tree does not compile)")
        missing = [t for t in EXPECTED_TARGETS if not os.path.isfile(os.path.join(tmp, t + ".json"))]
        if missing:
            shutil.rmtree(tmp, ignore_errors=True)
            raise BuildFailed("fact files not written by this run: %s" % missing)
        with open(os.path.join(tmp, "COMPLETE"), "w") as fh:
            json.dump({"key": key, "profile": profile, "wall_s": time.time() - t0}, fh)
        os.makedirs(os.path.dirname(out), exist_ok=True)
        os.rename(tmp, out)
        _gc(os.path.join(CACHE, "facts"), keep=6)
        return out, {"cached": False, "key": key, "profile": profile, "wall_s": time.time() - t0}
    finally:
        fcntl.flock(lock, fcntl.LOCK_UN)
        lock.close()


def _gc(d, keep):
    ents = [os.path.join(d, e) for e in os.listdir(d)]
    ents.sort(key=lambda p: os.path.getmtime(p), reverse=True)
    for p in ents[keep:]:
        shutil.rmtree(p, ignore_errors=True)


if __name__ == "__main__":
    d, info = extract(sys.argv[1] if len(sys.argv) > 1 else "dev")
    print(d, info)
