"""Rule primitives over the fact model: ORIGIN (expression resolution through reaching
definitions), edge conditions, guards (CUT-REACH over condition edges), site finders."""
from . import mir
from .mir import op_place, is_plain_local

MAX_DEPTH = 40
TAGGED_GUARDS = True

# Calls that return (a view of / a copy of) their first argument: looked through by peel().
TRANSPARENT = (
    "std::clone::Clone::clone", "std::borrow::ToOwned::to_owned", "std::convert::Into::into",
    "std::convert::From::from", "std::convert::AsRef::as_ref", "std::ops::Deref::deref",
    "std::ops::DerefMut::deref_mut", "std::borrow::Borrow::borrow", "std::option::Option::<T>::cloned",
    "std::option::Option::<T>::copied", "std::option::Option::<&T>::cloned", "std::option::Option::<&T>::copied",
    "std::option::Option::<T>::as_ref", "std::option::Option::<T>::as_mut",
    "std::iter::Iterator::cloned", "std::iter::Iterator::copied",
    "std::boxed::Box::<T>::new", "std::boxed::Box::<T>::pin", "std::pin::Pin::<Ptr>::new",
    "std::pin::Pin::<Ptr>::new_unchecked", "tracing::Instrument::instrument",
    "std::future::IntoFuture::into_future", "std::iter::IntoIterator::into_iter",
    "std::slice::<impl [T]>::iter", "std::slice::<impl [T]>::to_vec", "std::vec::Vec::<T, A>::as_slice",
    "std::string::String::as_str", "std::convert::identity", "std::hint::must_use",
    "std::collections::HashMap::<K, V, S, A>::values", "std::collections::HashMap::<K, V, S, A>::values_mut",
)


def is_transparent(name):
    if name in TRANSPARENT:
        return True
    tail = name.rsplit("::", 1)[-1]
    if name.endswith("<impl [T]>::iter") or name.endswith("<impl [T]>::iter_mut"):
        return True
    if name.startswith("<") and tail in ("clone", "deref", "deref_mut", "as_ref", "borrow", "to_owned",
                                           "into_iter", "into_future"):
        return True
    return False


# ------------------------------------------------------------------------------------ expressions
# ('const', ty, val, rec) ('param', n) ('local', l) ('upvar', i) ('field', e, name) ('deref', e)
# ('downcast', e, variant) ('index', e, ie) ('ref', e) ('call', name, [args], (fnkey, block))
# ('bin', op, a, b) ('un', op, a) ('cast', e, ty) ('agg', adt, variant, [(field, e)])
# ('tuple', [e]) ('array', [e]) ('closure', def, [e]) ('discr', e, adt) ('phi', [e]) ('loop', l)
# ('unknown', why)


INT_BITS = {"u8": 8, "u16": 16, "u32": 32, "u64": 64, "usize": 64, "u128": 128}


def fold(e):
    """constant folding of unsigned integer arithmetic on literal / named-constant operands, so that
    `x & !TAG` and `x & 0b0011_1111` (or `LIMIT - 1` and a literal) are the same expression to the rules."""
    if e[0] == "un" and e[1] == "Not":
        a = e[2]
        if a[0] == "const" and a[1] in INT_BITS and isinstance(a[2], int) and not isinstance(a[2], bool):
            v = (~a[2]) & ((1 << INT_BITS[a[1]]) - 1)
            return ("const", a[1], v, {"ty": a[1], "val": v, "folded": True})
    if e[0] == "bin":
        a, b = e[2], e[3]
        if a[0] == "const" and b[0] == "const" and a[1] in INT_BITS and isinstance(a[2], int) and isinstance(b[2], int) \
                and not isinstance(a[2], bool) and not isinstance(b[2], bool):
            op = e[1]
            mask = (1 << INT_BITS[a[1]]) - 1
            v = None
            if op == "BitAnd":
                v = a[2] & b[2]
            elif op == "BitOr":
                v = a[2] | b[2]
            elif op == "BitXor":
                v = a[2] ^ b[2]
            elif op == "Shl" and b[2] < INT_BITS[a[1]]:
                v = (a[2] << b[2]) & mask
            elif op == "Shr":
                v = a[2] >> b[2]
            elif op == "Add" and a[2] + b[2] <= mask:
                v = a[2] + b[2]
            elif op == "Sub" and a[2] >= b[2]:
                v = a[2] - b[2]
            elif op == "Mul" and a[2] * b[2] <= mask:
                v = a[2] * b[2]
            if v is not None:
                return ("const", a[1], v, {"ty": a[1], "val": v, "folded": True})
    return e


class Resolver:
    def __init__(self, fn):
        self.fn = fn
        self.prog = fn.prog
        self._memo = {}
        self._inprogress = set()
        self._loop_hits = set()
        self._trunc = 0
        self._memo_trunc = {}

    # ---- reaching definitions of a local at a point -------------------------------------
    def reaching(self, l, b, idx):
        """Set of def sites (block, idx, kind) of whole-local defs of l that reach point (b, idx)
        (idx = statement index, or 'term' = at the terminator). 'entry' is included when the
        function entry reaches the point without a def."""
        fn = self.fn
        defs = [d for d in fn.defs().get(l, []) if d[2] != "partial"]
        by_block = {}
        for d in defs:
            by_block.setdefault(d[0], []).append(d)

        def last_before(block, limit):
            """last def in block strictly before position limit (None = whole block incl. term)."""
            best = None
            for d in by_block.get(block, []):
                pos = d[1]
                if limit is not None:
                    if pos == "term":
                        continue
                    if limit != "term" and pos >= limit:
                        continue
                if best is None or _pos_key(pos) > _pos_key(best[1]):
                    best = d
            return best

        out = set()
        d = last_before(b, idx)
        if d is not None:
            return {d}
        seen = set()
        stack = list(fn.preds(b))
        if b == 0:
            out.add("entry")
        while stack:
            p = stack.pop()
            if p in seen:
                continue
            seen.add(p)
            d = last_before(p, None)
            if d is not None:
                out.add(d)
                continue
            if p == 0:
                out.add("entry")
            stack.extend(fn.preds(p))
        return out

    # ---- resolution -----------------------------------------------------------------------
    def operand(self, op, at, depth=0):
        if "const" in op:
            c = op["const"]
            return ("const", c.get("ty"), mir.const_val(c, self.prog), c)
        p = op_place(op)
        if p is None:
            return ("unknown", "operand")
        return self.place(p, at, depth)

    def place(self, p, at, depth=0):
        base = self.local(p["l"], at, depth)
        return self.project(base, p.get("p", []), at, depth)

    def project(self, e, proj, at, depth):
        for el in proj:
            if el == "deref":
                e = ("deref", e)
            elif isinstance(el, str):
                e = ("field", e, "<%s>" % el)
            elif "f" in el:
                if e == ("env",) or (e[0] == "deref" and e[1] == ("env",)):
                    ups = self.fn.rec.get("upvars") or []
                    i = el.get("i", 0)
                    e = ("upvar", ups[i] if i < len(ups) else str(i))
                else:
                    fty = self._field_ty(el)
                    e = ("field", e, el["f"], fty) if fty else ("field", e, el["f"])
            elif "downcast" in el:
                e = ("downcast", e, el["downcast"])
            elif "index" in el:
                e = ("index", e, self.local(el["index"], at, depth + 1))
            elif "cindex" in el:
                e = ("index", e, ("const", "usize", -el["cindex"] - 1 if el.get("from_end") else el["cindex"], None))
            else:
                e = ("field", e, "<subslice>")
            e = simplify(e)
        return e

    def _field_ty(self, el):
        a = self.prog.adts.get(el.get("adt") or "")
        if not a:
            return None
        tys = {f["ty"] for v in a["variants"] for f in v["fields"] if f["name"] == el["f"]}
        if len(tys) == 1:
            ty = tys.pop()
            return ty if ty in ("u8", "u16", "u32", "u64", "usize", "bool", "char") else None
        return None

    def local_init(self, l, at=(0, 0)):
        """value of the whole-local definitions of l, ignoring later field-by-field writes."""
        fn = self.fn
        ds = [d for d in fn.defs().get(l, []) if d[2] != "partial"]
        if fn.is_param(l) and not ds:
            return ("param", l)
        es = [self._def_expr(d, 1) for d in sorted(ds, key=str)]
        if not es:
            return ("local", l)
        return es[0] if len(es) == 1 else ("phi", es)

    def local(self, l, at, depth=0):
        fn = self.fn
        if depth > MAX_DEPTH:
            self._trunc += 1            # a value cut off here must not be remembered as the value of the enclosing keys
            return ("local", l)
        if fn.is_param(l):
            # parameters may be reassigned, but that is rare; treat partial/whole writes conservatively
            whole = [d for d in fn.defs().get(l, []) if d[2] != "partial"]
            if not whole:
                if fn.kind != "Fn" and fn.kind != "AssocFn" and l == 1:
                    return ("env",)
                return ("param", l)
        if fn.has_partial_defs(l):
            # written field-by-field somewhere: opaque storage, rules look at the stores explicitly
            return ("local", l)
        sd = fn.single_def(l)
        if sd is not None:
            key = ("sd", l)
            if key in self._memo and not (key in self._memo_trunc and depth < self._memo_trunc[key] and key not in self._inprogress):
                return self._memo_get(key)
            return self._memo_compute(key, l, lambda: self._def_expr(sd, depth + 1), depth)
        rs = self.reaching(l, at[0], at[1])
        if not rs:
            return ("local", l)
        key = ("phi", l, tuple(sorted(map(str, rs))))
        if key in self._memo and not (key in self._memo_trunc and depth < self._memo_trunc[key] and key not in self._inprogress):
            return self._memo_get(key)

        def compute():
            es = []
            for d in sorted(rs, key=str):
                if d == "entry":
                    es.append(("param", l) if fn.is_param(l) else ("uninit", l))
                else:
                    es.append(self._def_expr(d, depth + 1))
            return es[0] if len(es) == 1 else ("phi", es, l)
        return self._memo_compute(key, l, compute, depth)

    # memoisation that is independent of the order of queries: a value computed while an *outer* key
    # was still in progress (and whose rendering therefore contains that key's ('loop', l) cut-off) is
    # not kept, otherwise a later top-level query for it would see the cut-off instead of the value.
    def _memo_get(self, key):
        if key in self._inprogress:
            self._loop_hits.add(key)
        return self._memo[key]

    def _memo_compute(self, key, l, thunk, depth=0):
        outer = self._loop_hits
        self._loop_hits = set()
        self._inprogress.add(key)
        self._memo[key] = ("loop", l)
        t0 = self._trunc
        try:
            e = thunk()
        finally:
            self._inprogress.discard(key)
            hits = self._loop_hits - {key}
            self._loop_hits = outer | hits
        if hits:
            del self._memo[key]
            self._memo_trunc.pop(key, None)
        else:
            self._memo[key] = e
            if self._trunc != t0:
                self._memo_trunc[key] = depth      # cut off somewhere below: good enough at this depth or deeper, recomputed when asked from nearer the top
            else:
                self._memo_trunc.pop(key, None)
        return e

    def _def_expr(self, d, depth):
        fn = self.fn
        b, i, kind = d
        if kind == "assign":
            return self.rvalue(fn.blocks[b]["stmts"][i]["rv"], (b, i), depth)
        if kind == "call":
            t = fn.blocks[b]["term"]
            return self.call_expr(t, b, depth)
        if kind == "yield":
            return ("resume", b)
        return ("unknown", kind)

    def call_expr(self, t, b, depth=0):
        name = t.get("resolved") or t.get("callee")
        if name and name.endswith("box_assume_init_into_vec_unsafe"):
            v = self._vec_macro(t, b, depth)
            if v is not None:
                return v
        args = [self.operand(a, (b, "term"), depth + 1) for a in t["args"]]
        if name is None:
            name = "<indirect>"
            args = [self.operand(t["callee_op"], (b, "term"), depth + 1)] + args
        return ("call", name, args, (self.fn.key, b), t.get("callee"))

    def _vec_macro(self, t, b, depth):
        """`vec![a, b]` lowers to Box::new_uninit + `(*box).value.value.0 = [a, b]` +
        box_assume_init_into_vec_unsafe(box): recover the element list."""
        fn = self.fn
        p = op_place(t["args"][0])
        seen = set()
        while p is not None and is_plain_local(p) and p["l"] not in seen:
            l = p["l"]
            seen.add(l)
            for bb, i, st in fn.assigns():
                d = st["dst"]
                if d["l"] == l and d.get("p") and d["p"][0] == "deref" and st["rv"]["k"] == "agg" and st["rv"]["ak"] == "array":
                    elems = [self.operand(o, (bb, i), depth + 1) for o in st["rv"]["ops"]]
                    return ("call", "vec!", [("array", elems)], (fn.key, b), "vec!")
            sd = [x for x in fn.defs().get(l, []) if x[2] == "assign"]
            if len(sd) != 1:
                return None
            rv = fn.blocks[sd[0][0]]["stmts"][sd[0][1]]["rv"]
            p = op_place(rv["op"]) if rv["k"] == "use" else None
        return None

    def rvalue(self, rv, at, depth=0):
        k = rv["k"]
        if k == "use":
            return self.operand(rv["op"], at, depth)
        if k == "ref" or k == "rawptr":
            return simplify(("ref", self.place(rv["place"], at, depth)))
        if k == "bin":
            return fold(("bin", rv["op"], self.operand(rv["a"], at, depth), self.operand(rv["b"], at, depth)))
        if k == "un":
            return fold(("un", rv["op"], self.operand(rv["a"], at, depth)))
        if k == "cast":
            pl = op_place(rv["op"])
            src_ty = self.fn.local_ty(pl["l"]) if pl is not None and is_plain_local(pl) else None
            return ("cast", self.operand(rv["op"], at, depth), rv["ty"], src_ty)
        if k == "discr":
            return ("discr", self.place(rv["place"], at, depth), rv.get("adt"))
        if k == "repeat":
            return ("repeat", self.operand(rv["op"], at, depth), rv["n"])
        if k == "agg":
            ops = [self.operand(o, at, depth) for o in rv["ops"]]
            ak = rv["ak"]
            if ak == "adt":
                return ("agg", rv["adt"], rv["variant"], list(zip(rv["fields"], ops)))
            if ak == "tuple":
                return ("tuple", ops)
            if ak == "array":
                return ("array", ops)
            return ("closure", rv.get("def"), ops, ak)
        return ("unknown", rv.get("dbg", k))


def _pos_key(pos):
    return 10 ** 9 if pos == "term" else pos


def simplify(e):
    """local algebra: deref(ref x) = x, field of aggregate, downcast of aggregate."""
    k = e[0]
    if k == "deref" and e[1][0] == "ref":
        return e[1][1]
    if k == "ref" and e[1][0] == "deref":
        return e[1][1]
    if k == "field":
        base = e[1]
        if e[2] == "0" and base[0] == "downcast" and base[2] == "Ready" and base[1][0] == "call" \
                and (base[1][4] or base[1][1]).endswith("Future::poll") and base[1][2]:
            # `x.await`: ((poll(Pin::new_unchecked(&mut into_future(x)), cx) as Ready).0)
            return ("await", peel(base[1][2][0]))
        if base[0] == "agg":
            for f, v in base[3]:
                if f == e[2]:
                    return v
        if base[0] == "tuple":
            try:
                return base[1][int(e[2])]
            except (ValueError, IndexError):
                pass
        if base[0] == "closure":
            # a captured variable read through the environment of a closure whose body was spliced into this function
            try:
                return base[2][int(e[2])]
            except (ValueError, IndexError):
                pass
        if base[0] == "downcast" and base[1][0] == "agg" and base[1][2] == base[2]:
            for f, v in base[1][3]:
                if f == e[2]:
                    return v
        if e[2] == "0" and base[0] == "downcast" and base[2] == "Continue" and base[1][0] == "call" \
                and (base[1][4] or base[1][1]).endswith("Try::branch") and base[1][2]:
            # `r?` where r was built right here as Ok(v) / Err(e) on different paths (what `.ok_or(e)?` and
            # `.ok_or_else(..)?` normalise to): the value that continues is the Ok payload
            r = base[1][2][0]
            while r[0] in ("ref", "deref"):
                r = r[1]
            alts = r[1] if r[0] == "phi" else [r]
            if len(alts) >= 2 and all(a[0] == "agg" and a[2] in ("Ok", "Err", "Some", "None") for a in alts):
                vals = [v for a in alts if a[2] in ("Ok", "Some") for f, v in a[3] if f == "0"]
                if vals and all(v == vals[0] for v in vals):
                    return vals[0]
    return e


def peel_refs(e):
    while e[0] in ("ref", "deref") or (e[0] == "cast" and isinstance(e[2], str) and e[2].startswith("&")):
        e = e[1]
    return e


def peel(e, extra=()):
    """strip refs, derefs, reference-to-reference (unsizing) casts and transparent calls: the
    underlying value source."""
    while True:
        k = e[0]
        if k in ("ref", "deref"):
            e = e[1]
        elif k == "cast" and isinstance(e[2], str) and e[2].startswith("&"):
            e = e[1]
        elif k == "call" and (is_transparent(e[1]) or (e[4] and is_transparent(e[4])) or e[1] in extra) and e[2]:
            e = e[2][0]
        else:
            return e


def path_str(e, open_root=False):
    """canonical access path ("param2.header.id"), looking through refs/derefs/clones; None if
    the expression is not a pure path (with open_root: the non-path root is rendered as "…")."""
    parts = []
    while True:
        e = peel(e)
        k = e[0]
        if k == "field":
            parts.append(e[2])
            e = e[1]
        elif k == "downcast":
            parts.append("<%s>" % e[2])
            e = e[1]
        elif k == "index":
            parts.append("[]")
            e = e[1]
        elif k == "call" and e[1].endswith("::next") and len(e[2]) == 1 and parts[-2:] == ["0", "<Some>"]:
            # element of an iteration: (next(&mut into_iter(X)) as Some).0  ==>  X[]
            del parts[-2:]
            parts.append("[]")
            e = e[2][0]
        elif k == "param":
            parts.append("param%d" % e[1])
            break
        elif k == "env":
            parts.append("env")
            break
        elif k == "upvar":
            parts.append("^" + e[1])
            break
        elif k == "local":
            parts.append("_%d" % e[1])
            break
        else:
            if open_root:
                parts.append("…")
                break
            return None
    return ".".join(reversed(parts))


def show(e, depth=0):
    """compact rendering for reports."""
    if depth > 6:
        return "…"
    k = e[0]
    if k == "const":
        if e[3] is not None and "data" in e[3]:
            return mir.fmt_data(e[3]["data"])
        return repr(e[2]) if e[2] is not None else "const<%s>" % e[1]
    if k == "param":
        return "param%d" % e[1]
    if k == "env":
        return "env"
    if k == "upvar":
        return "^" + e[1]
    if k == "await":
        return "await(%s)" % show(e[1], depth + 1)
    if k in ("local", "loop", "uninit"):
        return "%s_%d" % (k[0], e[1])
    if k == "field":
        return "%s.%s" % (show(e[1], depth + 1), e[2])
    if k == "deref":
        return "*%s" % show(e[1], depth + 1)
    if k == "ref":
        return "&%s" % show(e[1], depth + 1)
    if k == "downcast":
        return "(%s as %s)" % (show(e[1], depth + 1), e[2])
    if k == "index":
        return "%s[%s]" % (show(e[1], depth + 1), show(e[2], depth + 1))
    if k == "call":
        return "%s(%s)" % (short(e[1]), ", ".join(show(a, depth + 1) for a in e[2]))
    if k == "bin":
        return "%s(%s, %s)" % (e[1], show(e[2], depth + 1), show(e[3], depth + 1))
    if k == "un":
        return "%s(%s)" % (e[1], show(e[2], depth + 1))
    if k == "cast":
        return "%s as %s" % (show(e[1], depth + 1), e[2])
    if k == "discr":
        return "discr(%s)" % show(e[1], depth + 1)
    if k == "agg":
        return "%s::%s{%s}" % (short(e[1]), e[2], ", ".join("%s: %s" % (f, show(v, depth + 1)) for f, v in e[3]))
    if k == "tuple":
        return "(%s)" % ", ".join(show(a, depth + 1) for a in e[1])
    if k == "array":
        return "[%s]" % ", ".join(show(a, depth + 1) for a in e[1])
    if k == "phi":
        return "phi(%s)" % " | ".join(show(a, depth + 1) for a in e[1])
    if k == "closure":
        return "closure %s" % short(e[1] or "")
    return "<%s>" % (k,)


def short(name):
    """last two path segments."""
    if name.startswith("<"):
        return name
    parts = name.split("::")
    return "::".join(parts[-2:])


def walk(e):
    """all sub-expressions (pre-order)."""
    yield e
    k = e[0]
    if k in ("field", "deref", "ref", "downcast", "un", "cast", "discr", "repeat", "await"):
        yield from walk(e[1] if k != "un" else e[2])
    elif k == "index":
        yield from walk(e[1])
        yield from walk(e[2])
    elif k == "bin":
        yield from walk(e[2])
        yield from walk(e[3])
    elif k == "call":
        for a in e[2]:
            yield from walk(a)
    elif k == "agg":
        for _, v in e[3]:
            yield from walk(v)
    elif k in ("tuple", "array", "phi"):
        for a in e[1]:
            yield from walk(a)
    elif k == "closure":
        for a in e[2]:
            yield from walk(a)


def mentions(e, pred):
    return any(pred(x) for x in walk(e))


def calls_in(e, name_pred):
    return [x for x in walk(e) if x[0] == "call" and (name_pred(x[1]) or (x[4] and name_pred(x[4])))]


# ------------------------------------------------------------------------------------ conditions

CMP = {"Eq", "Ne", "Lt", "Le", "Gt", "Ge"}
NEG = {"Eq": "Ne", "Ne": "Eq", "Lt": "Ge", "Ge": "Lt", "Gt": "Le", "Le": "Gt"}
SWAP = {"Eq": "Eq", "Ne": "Ne", "Lt": "Gt", "Gt": "Lt", "Le": "Ge", "Ge": "Le"}
EQ_CALLS = {"eq": "Eq", "ne": "Ne", "lt": "Lt", "le": "Le", "gt": "Gt", "ge": "Ge"}


def bool_facts(e, truth, prog):
    """Atomic facts implied by boolean expression e having value `truth`.
    Facts: ('cmp', op, A, B) | ('is', variant, X) | ('isnot', variant, X) | ('call', name, args, truth)
    | ('truth', X, truth)"""
    e0 = e
    e = peel_bool(e)
    k = e[0]
    if k == "un" and e[1] == "Not":
        return bool_facts(e[2], not truth, prog)
    if k == "bin" and e[1] in CMP:
        op = e[1] if truth else NEG[e[1]]
        return [("cmp", op, e[2], e[3])]
    if k == "bin" and e[1] in ("BitAnd", "BitOr"):
        # non-short-circuit: a & b true => both; a | b false => both false
        if (e[1] == "BitAnd" and truth) or (e[1] == "BitOr" and not truth):
            return bool_facts(e[2], truth, prog) + bool_facts(e[3], truth, prog)
        return [("truth", e, truth)]
    if k == "call":
        name = e[1]
        tail = name.rsplit("::", 1)[-1]
        orig_tail = (e[4] or name).rsplit("::", 1)[-1]
        if orig_tail in EQ_CALLS and len(e[2]) == 2 and (e[4] or "").startswith("std::cmp::"):
            op = EQ_CALLS[orig_tail]
            op = op if truth else NEG[op]
            return [("cmp", op, e[2][0], e[2][1]), ("call", name, e[2], truth)]
        if tail in ("is_some", "is_ok", "is_none", "is_err") and len(e[2]) == 1 and ("Option" in name or "Result" in name):
            v = {"is_some": "Some", "is_ok": "Ok", "is_none": "None", "is_err": "Err"}[tail]
            other = {"Some": "None", "None": "Some", "Ok": "Err", "Err": "Ok"}[v]
            # two-variant enums: not one is the other
            if truth:
                return [("is", v, e[2][0]), ("isnot", other, e[2][0]), ("call", name, e[2], truth)]
            return [("isnot", v, e[2][0]), ("is", other, e[2][0]), ("call", name, e[2], truth)]
        return [("call", name, e[2], truth)]
    if k == "const":
        return [("const", e[2], truth)]
    if k == "phi":
        # a value merge, e.g. `a && b` materialised into a temporary: phi(b | false).  The alternatives that are the
        # constant !truth cannot be the one taken; if exactly one alternative remains, its facts hold.
        live = [x for x in e[1] if not (peel_bool(x)[0] == "const" and peel_bool(x)[2] is (not truth))]
        if len(live) == 1 and len(e[1]) > 1 and peel_bool(live[0])[0] != "const":
            return bool_facts(live[0], truth, prog) + [("truth", e, truth)]
        return [("truth", e, truth)]
    return [("truth", e, truth)]


def peel_bool(e):
    while e[0] in ("ref", "deref") or (e[0] == "call" and (e[1] in TRANSPARENT) and e[2]):
        e = e[1] if e[0] != "call" else e[2][0]
    return e


class Conds:
    """Edge conditions of one function."""

    def __init__(self, fn, resolver=None):
        self.fn = fn
        self.prog = fn.prog
        self.r = resolver or Resolver(fn)
        self._edge_facts = {}
        self._switch_exprs = {}

    def switch_expr(self, b):
        if b not in self._switch_exprs:
            t = self.fn.term(b)
            self._switch_exprs[b] = self.r.operand(t["discr"], (b, "term"))
        return self._switch_exprs[b]

    def edge_facts(self, a, s):
        """facts that hold whenever control goes a -> s."""
        key = (a, s)
        if key in self._edge_facts:
            return self._edge_facts[key]
        t = self.fn.term(a)
        facts = []
        if t and t["k"] == "switch":
            e = self.switch_expr(a)
            labels = [lab for lab, tg in self.fn.edges_of(a) if tg == s]
            all_vals = [v for v, _ in t["targets"]]
            ty = t.get("ty")
            if len(labels) == 1:
                lab = labels[0][1]
                facts = self._facts_for(e, ty, lab, all_vals)
                if ty == "bool":
                    # also name the bool variable itself: ('ltruth', local, truth)
                    root = self._root_bool_local(t["discr"])
                    tr = None
                    if lab == "otherwise":
                        tr = True if all_vals == [0] else (False if all_vals == [1] else None)
                    else:
                        tr = bool(lab)
                    if root is not None and tr is not None:
                        facts = facts + [("ltruth", root, tr)]
            else:
                # several labels to the same target: disjunction; keep only what is common
                sets = [self._facts_for(e, ty, lab[1], all_vals) for lab in labels]
                facts = [("anyof", sets)]
        self._edge_facts[key] = facts
        return facts

    def _root_bool_local(self, op):
        fn = self.fn
        p = op_place(op)
        seen = set()
        while p is not None and is_plain_local(p) and p["l"] not in seen:
            l = p["l"]
            seen.add(l)
            if fn.locals[l]["user"] or fn.is_param(l):
                return l
            sd = fn.single_def(l)
            if sd is None or sd[2] != "assign":
                return l
            rv = fn.blocks[sd[0]]["stmts"][sd[1]]["rv"]
            if rv["k"] == "use" and op_place(rv["op"]) is not None:
                p = op_place(rv["op"])
            else:
                return l
        return None

    def _facts_for(self, e, ty, lab, all_vals):
        pe = peel_bool(e)
        if pe[0] == "discr":
            adt = pe[2]
            if lab == "otherwise":
                names = [self.prog.variant_by_discr(adt, v) for v in all_vals]
                rem = [v["name"] for v in self.prog.adts.get(adt, {}).get("variants", [])
                       if v["name"] not in names]
                if len(rem) == 1:
                    return [("is", rem[0], pe[1])] + [("isnot", n, pe[1]) for n in names]
                return [("isnot", n, pe[1]) for n in names]
            v = self.prog.variant_by_discr(adt, lab)
            out = [("is", v, pe[1])]
            # the scrutinee is a merge of values, some of them literally built as another variant (`None` | f(x)): the
            # one that is left must be the one that is `v`
            sc = peel(pe[1])
            if sc[0] == "phi":
                def dead(x):
                    px = peel(x)
                    if px[0] == "agg" and px[2] != v:
                        return True
                    # the error exit of `?` builds the failure variant
                    return px[0] == "call" and (px[4] or px[1]).endswith("FromResidual::from_residual") and v in ("Some", "Ok")
                live = [x for x in sc[1] if not dead(x)]
                if len(live) == 1 and len(sc[1]) > 1 and peel(live[0])[0] != "agg":
                    out.append(("is", v, live[0]))
            return out
        if ty == "bool":
            if lab == "otherwise":
                truth = not (all_vals == [1])  # switchInt(x) -> [0: f, otherwise: t]
                if all_vals == [0]:
                    truth = True
                elif all_vals == [1]:
                    truth = False
                else:
                    return []
            else:
                truth = bool(lab)
            return bool_facts(e, truth, self.prog)
        # integer / char scrutinee
        if lab == "otherwise":
            return [("intne", pe, v) for v in all_vals]
        return [("inteq", pe, lab)]

    # ---- queries
    def edges_where(self, pred):
        """all CFG edges (a, s) carrying a fact for which pred(fact) is true."""
        out = []
        fn = self.fn
        for b in fn.reachable(0):
            t = fn.term(b)
            if not t or t["k"] != "switch":
                continue
            for s in fn.succs(b):
                fs = self.edge_facts(b, s)
                if any(_fact_match(f, pred) for f in fs):
                    out.append((b, s))
        return out

    def guarded(self, site_block, pred, start=0):
        """every path entry -> site crosses an edge carrying a fact satisfying pred.
        returns (ok, edges)"""
        edges = self.edges_where(pred)
        if not edges:
            return False, edges
        ok = site_block not in self.fn.reachable(start, removed_edges=edges)
        if not ok and TAGGED_GUARDS:
            # second chance with variant / constant tracking: a test whose outcome is first stored in a bool or an
            # Option (`let dup = it.any(..)`, normalised combinators, `let r = match ..; r?`) and then branched on
            ok = site_block not in reachable_tagged(self.fn, start, removed_edges=edges)
        return ok, edges

    def facts_on_all_paths(self, site_block):
        """facts of edges that individually dominate the site (convenience for reports)."""
        out = []
        fn = self.fn
        for b in fn.reachable(0):
            t = fn.term(b)
            if not t or t["k"] != "switch":
                continue
            for s in fn.succs(b):
                if fn.edge_dominates(b, s, site_block):
                    out.extend(self.edge_facts(b, s))
        return out


def _fact_match(f, pred):
    if f[0] == "anyof":
        return all(any(_fact_match(x, pred) for x in alt) for alt in f[1])
    try:
        return bool(pred(f))
    except (IndexError, TypeError, KeyError):
        return False


# ------------------------------------------------------------------------------------ fact predicates

def cmp_fact(op_set, a_pred, b_pred):
    """predicate for ('cmp', op, A, B) with swapped-operand normalisation."""
    def p(f):
        if f[0] != "cmp":
            return False
        op, a, b = f[1], f[2], f[3]
        if op in op_set and a_pred(a) and b_pred(b):
            return True
        if SWAP[op] in op_set and a_pred(b) and b_pred(a):
            return True
        return False
    return p


def is_variant(variant, x_pred):
    return lambda f: f[0] == "is" and f[1] == variant and x_pred(f[2])


def call_fact(name_pred, truth, args_pred=lambda a: True):
    return lambda f: f[0] == "call" and name_pred(f[1]) and f[3] == truth and args_pred(f[2])


def path_is(*paths):
    return lambda e: path_str(e) in paths


def path_endswith(suffix):
    def p(e):
        s = path_str(e)
        return s is not None and (s == suffix or s.endswith("." + suffix))
    return p


def const_is(val):
    return lambda e: peel(e)[0] == "const" and peel(e)[2] == val


def any_expr(e):
    return True


# ------------------------------------------------------------------------------------ site finders

def aggregates(fn, adt, variant=None):
    """(block, idx, stmt) of Aggregate constructions of adt[::variant] in fn."""
    for b, i, st in fn.assigns():
        rv = st["rv"]
        if rv["k"] == "agg" and rv["ak"] == "adt" and rv["adt"] == adt and (variant is None or rv["variant"] == variant):
            yield b, i, st


def who_constructs(prog, adt, variant=None, include_derived=False):
    out = []
    for f in prog.fns.values():
        if f.derived and not include_derived:
            continue
        for b, i, st in aggregates(f, adt, variant):
            out.append((f, b, i, st))
    return out


def field_writes(fn, adt, field):
    """stores to / &mut borrows of a place that projects `field` of `adt`."""
    out = []
    for b, i, st in fn.assigns():
        for kind, p in (("store", st["dst"]),):
            if _projects(p, adt, field, last_only=False):
                out.append((b, i, kind, st))
        rv = st["rv"]
        if rv["k"] == "ref" and rv["bk"] == "mut" and _projects(rv["place"], adt, field, last_only=False):
            out.append((b, i, "mutref", st))
    for b, t in fn.calls():
        if _projects(t["dst"], adt, field, last_only=False):
            out.append((b, "term", "store", t))
    return out


def _projects(p, adt, field, last_only=False):
    proj = p.get("p", [])
    for el in proj:
        if isinstance(el, dict) and el.get("f") == field and el.get("adt") == adt:
            return True
    return False


def who_writes(prog, adt, field):
    out = []
    for f in prog.fns.values():
        for w in field_writes(f, adt, field):
            out.append((f,) + w)
    return out


def who_calls(prog, name):
    """production call sites of function `name` (matching callee or resolved)."""
    return prog.callers_of(name)


def call_blocks(fn, name_pred):
    return [(b, t) for b, t in fn.calls() if name_pred(t.get("resolved") or "") or name_pred(t.get("callee") or "")]


def name_is(*names):
    s = set(names)
    return lambda n: n in s


def name_endswith(*suffixes):
    return lambda n: any(n == x or n.endswith("::" + x) for x in suffixes)


# ------------------------------------------------------------------------------------ expression patterns
# Combinators returning predicates over expressions.  Every combinator first peels refs, derefs
# and transparent (value-preserving) calls, so `&(*x).clone()` matches what `x` matches.

def _name_ok(e, suffix):
    for n in (e[1], e[4]):
        if n and (n == suffix or n.endswith("::" + suffix) or n.endswith(suffix)):
            return True
    return False


def Call(suffix, *argpats, peel_first=True):
    def p(e):
        if peel_first:
            e = peel_until_call(e, suffix)
        if e[0] != "call" or not _name_ok(e, suffix):
            return False
        if len(e[2]) < len(argpats):
            return False
        return all(ap(a) for ap, a in zip(argpats, e[2]))
    return p


def peel_until_call(e, suffix):
    """peel refs/derefs/transparent calls, but stop at a call whose name matches suffix."""
    while True:
        k = e[0]
        if k in ("ref", "deref") or (k == "cast" and isinstance(e[2], str) and e[2].startswith("&")):
            e = e[1]
        elif k == "call" and not _name_ok(e, suffix) and (is_transparent(e[1]) or (e[4] and is_transparent(e[4]))) and e[2]:
            e = e[2][0]
        else:
            return e


def Any():
    return lambda e: True


def Param(n):
    return lambda e: peel(e) == ("param", n)


def Path(*paths):
    return lambda e: path_str(e) in paths


def PathEnds(suffix):
    return path_endswith(suffix)


def Konst(val):
    return lambda e: peel(e)[0] == "const" and peel(e)[2] == val


def AnyConst():
    return lambda e: peel(e)[0] == "const"


def Field(basepat, name):
    def p(e):
        e = peel(e)
        return e[0] == "field" and e[2] == name and basepat(e[1])
    return p


def Bin(ops, apat, bpat, commutative=False):
    if isinstance(ops, str):
        ops = {ops}
    def p(e):
        e = peel(e)
        if e[0] != "bin" or e[1] not in ops:
            return False
        if apat(e[2]) and bpat(e[3]):
            return True
        return commutative and apat(e[3]) and bpat(e[2])
    return p


def Agg(adt_suffix, variant=None, **fieldpats):
    def p(e):
        e = peel(e)
        if e[0] != "agg" or not (e[1] == adt_suffix or e[1].endswith("::" + adt_suffix)):
            return False
        if variant is not None and e[2] != variant:
            return False
        d = dict(e[3])
        return all(k in d and fp(d[k]) for k, fp in fieldpats.items())
    return p


def Same(expr):
    """structurally the same value source as `expr` (after peeling)."""
    ps = path_str(expr)
    pe = peel(expr)
    def p(e):
        if ps is not None:
            return path_str(e) == ps
        return peel(e) == pe
    return p


def Or(*ps):
    return lambda e: any(p(e) for p in ps)


def Checked(*argpats):
    """a checked integer conversion of the argument, however it is spelled: `x.try_into()` / `T::try_from(x)`"""
    return Or(Call("try_into", *argpats), Call("try_from", *argpats))


def Phi(*alts):
    """phi whose alternatives each match one of alts (all alts must be hit)."""
    def p(e):
        e = peel(e)
        es = e[1] if e[0] == "phi" else [e]
        hit = set()
        for x in es:
            ok = False
            for i, a in enumerate(alts):
                if a(x):
                    hit.add(i)
                    ok = True
                    break
            if not ok:
                return False
        return len(hit) == len(alts)
    return p


def strip_refs(e):
    """remove every ref/deref/transparent-call layer anywhere in the expression (for comparisons)."""
    e = peel(e)
    k = e[0]
    if k == "field":
        return ("field", strip_refs(e[1]), e[2])
    if k == "downcast":
        return ("downcast", strip_refs(e[1]), e[2])
    if k == "index":
        return ("index", strip_refs(e[1]), strip_refs(e[2]))
    if k == "call":
        return ("call", e[1], tuple(strip_refs(a) for a in e[2]), e[3])
    if k == "bin":
        return ("bin", e[1], strip_refs(e[2]), strip_refs(e[3]))
    if k == "un":
        return ("un", e[1], strip_refs(e[2]))
    if k == "cast":
        return ("cast", strip_refs(e[1]), e[2])
    if k == "await":
        return ("await", strip_refs(e[1]))
    if k == "const":
        return ("const", e[1], e[2])
    if k in ("tuple", "array", "phi"):
        return (k, tuple(strip_refs(a) for a in e[1]))
    if k == "agg":
        return ("agg", e[1], e[2], tuple((f, strip_refs(v)) for f, v in e[3]))
    return e


def same(e1, e2):
    """do two expressions denote the same value source (same access path / same call site result)?"""
    p1, p2 = path_str(e1), path_str(e2)
    if p1 is not None or p2 is not None:
        return p1 == p2
    return strip_refs(e1) == strip_refs(e2)


def same_value(e1, e2):
    """order-independent sameness: the memoised resolver may render one value with or without
    ('loop', l) cut-offs depending on which query met it first, so two renderings of the result of one
    call site are compared by that site (function, block) instead of structurally."""
    a, b = strip_refs(e1), strip_refs(e2)
    if a == b:
        return True
    if a[0] == "call" and b[0] == "call":
        return a[1] == b[1] and a[3] == b[3]
    if a[0] == "cast" and b[0] == "cast":
        return a[2] == b[2] and same_value(a[1], b[1])
    if a[0] == "field" and b[0] == "field":
        return a[2] == b[2] and same_value(a[1], b[1])
    if a[0] == "downcast" and b[0] == "downcast":
        return a[2] == b[2] and same_value(a[1], b[1])
    return False


def true_alternatives(fn, res=None, conds=None, local=0, want=True):
    """For a bool-valued local (default: the return place) list, per assignment that may store
    `want`, the facts known to hold there: facts of individually dominating edges + the facts
    implied by the stored expression being `want`.  [(block, [facts])]"""
    res = res or Resolver(fn)
    conds = conds or Conds(fn, res)
    out = []
    for d in fn.defs().get(local, []):
        if d[2] == "partial":
            continue
        b = d[0]
        if b not in fn.reachable(0):
            continue
        e = res._def_expr(d, 0)
        pe = peel(e)
        if pe[0] == "const" and pe[2] is not None and bool(pe[2]) != want:
            continue
        facts = list(conds.facts_on_all_paths(b))
        if pe[0] != "const":
            facts += bool_facts(e, want, fn.prog)
        out.append((b, facts))
    return out


def has_fact(facts, pred):
    return any(_fact_match(f, pred) for f in facts)


def returns(fn):
    return [b for b in fn.live_blocks() if fn.term(b) and fn.term(b)["k"] == "return" and b in fn.reachable(0)]


def value_sources(fn, res, d, seen=None):
    """(block, resolved expr) of the definitions a def site `d` ultimately copies: whole-local moves /
    copies of a local with several definitions are followed to each of those definitions, so that an
    `Err(..)` built in one branch (or in an expanded helper) and returned through a temporary is
    attributed to the block that built it."""
    seen = seen if seen is not None else set()
    if d in seen:
        return []
    seen.add(d)
    b, i, kind = d
    if kind == "assign":
        rv = fn.blocks[b]["stmts"][i]["rv"]
        if rv["k"] == "use":
            pl = op_place(rv["op"])
            if pl is not None and is_plain_local(pl) and not fn.has_partial_defs(pl["l"]) and not (fn.is_param(pl["l"]) and not fn.defs().get(pl["l"])):
                rs = [x for x in res.reaching(pl["l"], b, i) if x != "entry"]
                if rs:
                    out = []
                    for x in sorted(rs, key=str):
                        out.extend(value_sources(fn, res, x, seen))
                    return out
    return [(b, res._def_expr(d, 0))]


def return_exprs(fn, res=None):
    """resolved expressions stored into _0, one per originating definition (see value_sources)."""
    res = res or Resolver(fn)
    out = []
    live = fn.reachable(0)
    for d in fn.defs().get(0, []):
        if d[2] != "partial" and d[0] in live:
            out.extend((b, e) for b, e in value_sources(fn, res, d) if b in live)
    return out


ADDERS = ("Vec::<T, A>::push", "HashSet::<T, S, A>::insert", "HashMap::<K, V, S, A>::insert", "VecDeque::<T, A>::push_back")


def fresh_collection_site(e):
    """(fn key, block) of the `X::new()` / `with_capacity(..)` / `vec![]` call a collection value comes from, or None"""
    pe = peel(e)
    if pe[0] == "call" and (pe[1].endswith("::new") or pe[1].endswith("::with_capacity") or pe[1].endswith("::default")):
        return pe[3]
    return None


def collection_fills(fn, res, e):
    """[(block, [element exprs])] of the push / insert calls into the freshly created collection `e` (one creation
    site).  The loop spelling and the `.map(f).collect()` spelling (after normalisation) both end up here."""
    site = fresh_collection_site(e)
    if site is None:
        return None
    out = []
    for b, t in fn.calls():
        n = t.get("callee") or ""
        if any(n.endswith(a) for a in ADDERS) and b in fn.reachable(0):
            ce = res.call_expr(t, b)
            if fresh_collection_site(ce[2][0]) == site:
                out.append((b, ce[2][1:]))
    return out


def iter_elem_source(e):
    """for the element of an iteration, `(next(&mut into_iter(X)) as Some).0`, the iterated expression X (refs,
    `iter()` / `into_iter()` looked through); None for anything else"""
    pe = peel(e)
    if pe[0] == "field" and pe[2] == "0" and pe[1][0] == "downcast" and pe[1][2] == "Some":
        c = peel(pe[1][1])
        if c[0] == "call" and c[1].endswith("::next") and c[2]:
            return peel(c[2][0])
    return None


def never_after(fn, edges, block, stop_blocks=()):
    """once one of `edges` has been taken, `block` is not reached any more (before passing a stop block - e.g. the
    header of the enclosing loop, to say "in this iteration")"""
    return bool(edges) and all(block not in reachable_tagged(fn, s, removed_blocks=stop_blocks) for a, s in edges)


def innermost_loop_header(fn, block):
    best = None
    for h, body in fn.loops():
        if block in body and (best is None or len(body) < len(best[1])):
            best = (h, body)
    return best[0] if best else None


def ascending_index_of(e):
    """if e is a loop index running 0, 1, 2, .. over a collection - the element of `0..coll.len()` or the `.0` of the
    element of `coll.iter().enumerate()` - return the collection expression, else None"""
    pe = peel(e)
    if pe[0] == "field" and pe[2] == "0":
        inner = peel(pe[1])
        src = iter_elem_source(inner)
        if src is not None and src[0] == "call" and src[1].endswith("Iterator::enumerate") and src[2]:
            return peel(src[2][0])
    src = iter_elem_source(pe)
    if src is not None and src[0] == "agg" and src[1] == "std::ops::Range":
        d = dict(src[3])
        st, en = peel(d["start"]), peel(d["end"])
        if st[0] == "const" and st[2] == 0 and en[0] == "call" and en[1].endswith("::len") and en[2]:
            return peel(en[2][0])
    return None


def root_local(fn, op_or_place):
    """the variable an operand / place ultimately names: temporaries that are plain copies, moves or reborrows of
    another local are followed back (so the answer does not depend on what the variable is called)"""
    p = op_place(op_or_place) if isinstance(op_or_place, dict) and ("move" in op_or_place or "copy" in op_or_place) else op_or_place
    seen = set()
    while isinstance(p, dict) and "l" in p and p["l"] not in seen:
        l = p["l"]
        seen.add(l)
        if fn.locals[l].get("user") or fn.is_param(l):
            return l
        sd = fn.single_stmt_def(l)
        if sd is None or sd[2] != "assign":
            return l
        rv = fn.blocks[sd[0]]["stmts"][sd[1]]["rv"]
        if rv["k"] == "use" and op_place(rv["op"]) is not None and is_plain_local(op_place(rv["op"])):
            p = op_place(rv["op"])
        elif rv["k"] == "ref" and is_plain_local(rv["place"]):
            p = rv["place"]
        elif rv["k"] == "ref" and rv["place"].get("p") == ["deref"]:
            p = {"l": rv["place"]["l"]}                  # a reborrow `&*r`
        elif rv["k"] == "use" and op_place(rv["op"]) is not None and op_place(rv["op"]).get("p") == ["deref"]:
            p = {"l": op_place(rv["op"])["l"]}           # `*r` copied out
        elif rv["k"] == "cast" and op_place(rv["op"]) is not None and is_plain_local(op_place(rv["op"])):
            p = op_place(rv["op"])
        else:
            return l
    return p["l"] if isinstance(p, dict) and "l" in p else None


def locals_defined_as(fn, res, pred):
    """user-visible locals (or temporaries) having a whole definition whose resolved value satisfies pred"""
    out = []
    for l, ds in fn.defs().items():
        for d in ds:
            if d[2] == "partial" or d[0] not in fn.reachable(0):
                continue
            try:
                if pred(res._def_expr(d, 0)):
                    out.append(l)
                    break
            except (IndexError, TypeError, KeyError):
                pass
    return out


def early_loop_exits(fn, conds):
    """edges that leave a loop of fn other than (a) the iterator being exhausted (`next()` is None), or (b) towards a
    return / panic that ends the function.  A writer that must emit every element has none."""
    out = []
    for h, body in fn.loops():
        for a in sorted(body):
            for s_ in fn.succs(a):
                if s_ in body or fn.term(s_)["k"] == "unreachable":
                    continue
                facts = conds.edge_facts(a, s_)
                exhausted = any(fc[0] == "is" and fc[1] == "None" and peel(fc[2])[0] == "call" and peel(fc[2])[1].endswith("::next") for fc in facts)
                if exhausted:
                    continue
                # leaving towards an outer loop's next iteration (continue of the outer loop) is not an early exit of the data
                outer = [b2 for h2, b2 in fn.loops() if h in b2 and b2 is not body and len(b2) > len(body)]
                if any(s_ in b2 for b2 in outer) and False:
                    continue
                out.append((h, a, s_))
    return out


def vec_tail_appends(fn):
    """(block, term) of the calls that add all elements of their argument at the END of a Vec, in order:
    `v.append(&mut w)`, `v.extend(w)`, `v.extend_from_slice(&w)` - interchangeable ways to write concatenation."""
    out = []
    for b, t in fn.calls():
        n = t.get("callee") or ""
        rn = t.get("resolved") or ""
        if n.endswith("Vec::<T, A>::append") or n.endswith("Vec::<T, A>::extend_from_slice"):
            out.append((b, t))
        elif n.endswith("iter::Extend::extend") or rn.endswith("::extend"):
            pl = op_place(t["args"][0]) if t["args"] else None
            ty = fn.local_ty(pl["l"]) if pl is not None else ""
            if "std::vec::Vec<" in ty and ("Extend" in n or "Extend" in rn):
                out.append((b, t))
    return out


def possible_variants(fn, conds, scrut_pred, variants, block):
    """variants V of the enum value identified by scrut_pred for which `block` can be reached: the block is
    reachable (tag-aware) once every edge that requires another variant is removed.  Works for merged arms
    (`A {..} | B {..} =>`), `matches!(x, A | B)` stored in a bool, `if let`, and guards alike."""
    by_variant = {}
    for v in variants:
        by_variant[v] = conds.edges_where(lambda fc, v=v: ((fc[0] == "is" and fc[1] != v and fc[1] in variants) or (fc[0] == "isnot" and fc[1] == v)) and scrut_pred(fc[2]))
    out = []
    for v in variants:
        if block in reachable_tagged(fn, 0, removed_edges=by_variant[v]):
            out.append(v)
    return out


def payload_of_merge(e):
    """`(phi(Some{x} | None | None) as Some).0` is x - the alternatives built as another variant cannot be the one the
    payload is read from.  Returns x, or e unchanged when the shape is different."""
    pe = peel(e)
    if pe[0] == "field" and pe[1][0] == "downcast":
        m = peel(pe[1][1])
        if m[0] == "phi":
            vals = []
            for a in m[1]:
                a = peel(a)
                if a[0] != "agg":
                    return e
                if a[2] == pe[1][2]:
                    vals.extend(v for f, v in a[3] if f == pe[2])
            if vals and all(strip_refs(v) == strip_refs(vals[0]) for v in vals):
                return vals[0]
    return e


def deep_payload(e, _depth=0):
    """payload_of_merge applied bottom-up through an expression, re-simplifying field reads of the tuples / aggregates
    it uncovers: `((phi(Some{(a, b)} | None) as Some).0).1` is b."""
    if not isinstance(e, tuple) or _depth > 30:
        return e
    out = []
    for x in e:
        if isinstance(x, tuple):
            out.append(deep_payload(x, _depth + 1))
        elif isinstance(x, list):
            out.append([deep_payload(y, _depth + 1) if isinstance(y, tuple) else y for y in x])
        else:
            out.append(x)
    ne = tuple(out)
    if ne and ne[0] == "field":
        pm = payload_of_merge(ne)
        if pm is not ne:
            return pm
        base = peel(ne[1]) if isinstance(ne[1], tuple) else ne[1]
        if isinstance(base, tuple) and base and base[0] in ("tuple", "agg"):
            return simplify(("field", base, ne[2]) + tuple(ne[3:]))
    return ne


RANGE_ADTS = ("std::ops::Range", "std::ops::RangeTo", "std::ops::RangeFrom", "std::ops::RangeFull")


def is_empty_name(n):
    """`v.is_empty()` on a Vec or on the slice it derefs to (what first() / last() / split_last() normalise to)"""
    return n.endswith("Vec::<T, A>::is_empty") or n.endswith("<impl [T]>::is_empty")


def subslice(e):
    """`base[s .. e]` however the range is spelt (`a..b`, `..b`, `a..`, `..`): (base, start | None, end | None) of an
    `Index::index(base, range)` expression (None = the respective end of base), or None when e is something else."""
    pe = peel(deep_payload(e))
    if pe[0] != "call" or not pe[1].endswith("::index") or len(pe[2]) != 2:
        return None
    rng = peel(pe[2][1])
    if rng[0] != "agg" or rng[1] not in RANGE_ADTS:
        return None
    fields = dict(rng[3])
    return pe[2][0], fields.get("start"), fields.get("end")


def is_err_value(e):
    """does a returned expression denote a failure: `Err(..)` / `None` built here, or the error exit of `?`
    (`FromResidual::from_residual(residual)`), or a Result adaptor over one of these"""
    pe = peel(e)
    if pe[0] == "agg" and pe[2] in ("Err",):
        return True
    if pe[0] == "call" and (pe[4] or pe[1]).endswith("FromResidual::from_residual"):
        return True
    return False


def error_exits(fn, res=None):
    """blocks whose returned value is a failure (see is_err_value)"""
    res = res or Resolver(fn)
    return [b for b, e in return_exprs(fn, res) if is_err_value(e)]


def last_field(e):
    """name of the outermost field projection of a (peeled) expression, or None."""
    e = peel(e)
    return e[2] if e[0] == "field" else None


def value_holders(fn, res, is_value, ty_substr):
    """Locals that own a value identified by is_value(resolved expr) (e.g. a lock guard), after
    following whole-local moves: returns the final holders (locals the value is not moved out of).
    A `drop` of a moved-from intermediate is a no-op and must not be mistaken for a release."""
    cands = []
    for l in range(len(fn.locals)):
        ty = fn.local_ty(l)
        if ty_substr not in ty or ty.startswith("&") or "Poll<" in ty or "Future" in ty or "Pin<" in ty:
            continue
        if fn.single_def(l) is None:
            continue
        if is_value(res.local(l, (0, 0))):
            cands.append(l)
    moved_from = set()
    for b, i, st in fn.assigns():
        rv = st["rv"]
        if rv["k"] == "use" and "move" in rv["op"] and is_plain_local(rv["op"]["move"]) and rv["op"]["move"]["l"] in cands \
                and is_plain_local(st["dst"]):
            moved_from.add(rv["op"]["move"]["l"])
    return [l for l in cands if l not in moved_from], sorted(moved_from)


def drops_of(fn, l):
    return [b for b in fn.live_blocks() if fn.term(b)["k"] == "drop" and fn.term(b)["place"] == {"l": l}]


def _uses_move(op, l):
    return isinstance(op, dict) and op.get("move") == {"l": l}


def _stmt_consumes(st, l):
    if st["k"] != "assign":
        return False
    rv = st["rv"]
    if rv["k"] == "use":
        return _uses_move(rv["op"], l)
    if rv["k"] in ("agg",):
        return any(_uses_move(o, l) for o in rv["ops"])
    if rv["k"] in ("cast", "repeat"):
        return _uses_move(rv["op"], l)
    return False


def unconsumed_drops(fn, l, avoid_edges=(), only_edges=None):
    """`drop(l)` terminators reachable from the (single) definition of l along a path on which l is
    never moved out: the value is destroyed there (moved-before-dropped typestate).  [(block)]"""
    sd = fn.single_def(l)
    if sd is None:
        return None
    b0, i0, kind = sd
    out = []
    seen = set()
    avoid = set(avoid_edges)
    # (block, start index)
    work = [(b0, (i0 + 1) if kind == "assign" else None)]
    while work:
        b, start = work.pop()
        if (b, start is None) in seen and start != (i0 + 1 if kind == "assign" else None):
            continue
        seen.add((b, start is None))
        consumed = False
        if start is not None or b != b0 or kind != "assign":
            pass
        stmts = fn.stmts(b)
        if b == b0 and kind != "assign":
            # defined by the terminator of b0: live from the successors on
            for s in fn.succs(b):
                if (s, False) not in seen:
                    work.append((s, 0))
            continue
        for i in range(start or 0, len(stmts)):
            if _stmt_consumes(stmts[i], l):
                consumed = True
                break
        if consumed:
            continue
        t = fn.term(b)
        if t["k"] in ("call", "tailcall") and any(_uses_move(a, l) for a in t["args"]):
            continue
        if t["k"] == "drop" and t["place"] == {"l": l}:
            out.append(b)
            continue
        if t["k"] == "yield" and _uses_move(t.get("value"), l):
            continue
        for s in fn.succs(b):
            if (b, s) in avoid or (only_edges is not None and (b, s) not in only_edges):
                continue                  # e.g. the edge on which the value was recognised as a duplicate / an infeasible edge
            if (s, False) not in seen:
                work.append((s, 0))
    return out


# ------------------------------------------------------------------------------------ EFFECT: path enumeration

def _trackable_locals(fn):
    """plain locals of Option / bool type all of whose definitions are variant aggregates or bool
    constants (possibly through one temporary): their value along a path is known exactly."""
    out = {}
    for l in range(fn.arg_count + 1, len(fn.locals)):
        ty = fn.local_ty(l)
        if not (ty == "bool" or ty.startswith("std::option::Option<")):
            continue
        ds = fn.defs().get(l, [])
        if len(ds) < 2 or any(d[2] != "assign" for d in ds):
            continue
        vals = {}
        ok = True
        for d in ds:
            v = _const_variant(fn, fn.blocks[d[0]]["stmts"][d[1]]["rv"])
            if v is None:
                ok = False
                break
            vals[(d[0], d[1])] = v
        if ok:
            out[l] = vals
    return out


def _const_variant(fn, rv, depth=0):
    if rv["k"] == "agg" and rv["ak"] == "adt":
        return ("variant", rv["variant"])
    if rv["k"] == "use":
        op = rv["op"]
        if "const" in op and isinstance(op["const"].get("val"), bool):
            return ("bool", op["const"]["val"])
        p = op_place(op)
        if p is not None and is_plain_local(p) and depth < 3:
            sd = fn.single_def(p["l"])
            if sd and sd[2] == "assign":
                return _const_variant(fn, fn.blocks[sd[0]]["stmts"][sd[1]]["rv"], depth + 1)
    return None


def enumerate_paths(fn, max_visits=2, cap=20000):
    """All entry->return paths visiting each block at most max_visits times, pruned by the exactly
    known values of trackable Option/bool locals.  Returns (paths, truncated)."""
    track = _trackable_locals(fn)
    prog = fn.prog
    paths = []
    truncated = [False]
    rets = set(returns(fn))

    def step_env(b, env):
        env = dict(env)
        for i, st in enumerate(fn.stmts(b)):
            if st["k"] == "assign" and is_plain_local(st["dst"]) and st["dst"]["l"] in track:
                env[st["dst"]["l"]] = track[st["dst"]["l"]].get((b, i))
        return env

    def allowed_succs(b, env):
        t = fn.term(b)
        if t["k"] != "switch":
            return fn.succs(b)
        p = op_place(t["discr"])
        if p is None or not is_plain_local(p):
            return fn.succs(b)
        l = p["l"]
        known = None
        adt = None
        if l in track and env.get(l) is not None:
            known = env[l]
        else:
            sd = fn.single_def(l)
            if sd and sd[2] == "assign":
                rv = fn.blocks[sd[0]]["stmts"][sd[1]]["rv"]
                if rv["k"] == "discr" and is_plain_local(rv["place"]) and rv["place"]["l"] in track:
                    known = env.get(rv["place"]["l"])
                    adt = rv.get("adt")
                elif rv["k"] == "use" and op_place(rv["op"]) is not None and is_plain_local(op_place(rv["op"])) \
                        and op_place(rv["op"])["l"] in track:
                    known = env.get(op_place(rv["op"])["l"])
        if known is None:
            return fn.succs(b)
        if known[0] == "bool":
            want = 1 if known[1] else 0
        else:
            want = None
            for v in prog.adts.get(adt or "std::option::Option", {}).get("variants", []):
                if v["name"] == known[1]:
                    want = v["discr"]
        if want is None:
            return fn.succs(b)
        for val, tg in t["targets"]:
            if val == want:
                return [tg]
        return [t["otherwise"]]

    def dfs(b, visits, env, path):
        if truncated[0]:
            return
        if len(paths) >= cap:
            truncated[0] = True
            return
        env = step_env(b, env)
        path.append(b)
        if b in rets:
            paths.append(list(path))
        else:
            for s in allowed_succs(b, env):
                if fn.blocks[s].get("cleanup"):
                    continue
                c = visits.get(s, 0)
                if c >= max_visits:
                    continue
                visits[s] = c + 1
                dfs(s, visits, env, path)
                visits[s] = c
        path.pop()

    import sys
    old = sys.getrecursionlimit()
    sys.setrecursionlimit(max(old, 20000))
    try:
        dfs(0, {0: 1}, {}, [])
    finally:
        sys.setrecursionlimit(old)
    return paths, truncated[0]


def store_delta(fn, st):
    """for `place = place ± const` (checked or unchecked arithmetic) return (place_key, ±const)."""
    if st["k"] != "assign":
        return None
    dst = st["dst"]
    rv = st["rv"]
    src = None
    if rv["k"] == "bin":
        src = rv
    elif rv["k"] == "use":
        p = op_place(rv["op"])
        if p is not None and p.get("p") and isinstance(p["p"][-1], dict) and p["p"][-1].get("f") == "0" and len(p["p"]) == 1:
            sd = fn.single_def(p["l"])
            if sd and sd[2] == "assign":
                r2 = fn.blocks[sd[0]]["stmts"][sd[1]]["rv"]
                if r2["k"] == "bin":
                    src = r2
    if src is None:
        return None
    op = src["op"].replace("WithOverflow", "").replace("Unchecked", "")
    if op not in ("Add", "Sub"):
        return None
    a = op_place(src["a"])
    if a != dst:
        return None
    c = src["b"].get("const", {}).get("val") if "const" in src["b"] else None
    if not isinstance(c, int) or isinstance(c, bool):
        return ("sym", op, src["b"])
    return ("const", c if op == "Add" else -c)


# ------------------------------------------------------------------------------------ feasible reachability

def _scrutinee_key(fn, op):
    """(key, base locals) identifying the value a switch examines: the place itself, or
    `discr:<place>` when the operand is a temp holding a discriminant."""
    p = op_place(op)
    if p is None:
        return None
    if is_plain_local(p) and not fn.locals[p["l"]]["user"]:
        sd = fn.single_def(p["l"])
        if sd and sd[2] == "assign":
            rv = fn.blocks[sd[0]]["stmts"][sd[1]]["rv"]
            if rv["k"] == "discr":
                return ("discr:" + mir.fmt_place(rv["place"]), _locals_of(rv["place"]))
            if rv["k"] == "use" and op_place(rv["op"]) is not None:
                q = op_place(rv["op"])
                return (mir.fmt_place(q), _locals_of(q))
        return None
    return (mir.fmt_place(p), _locals_of(p))


def _locals_of(p):
    s = {p["l"]}
    for el in p.get("p", []):
        if isinstance(el, dict) and "index" in el:
            s.add(el["index"])
    return frozenset(s)


def reachable_tagged(fn, start, removed_edges=(), removed_blocks=(), max_states=50000, want_edges=False):
    """Blocks reachable from `start` when the *variant* of enum values built on the way is tracked: an
    `Err(..)` built in one block, moved through temporaries (or returned by an expanded helper), handed to
    `?` (Try::branch) and then switched on can only take the Break edge.  Plain reachability would also
    follow the Continue edge - a path no execution takes - so "this edge leads only to the error exit"
    could not be established for `foo(x)?` written as `let r = match .. { .. Err(e) }; r?`."""
    removed_edges = set(removed_edges)
    removed_blocks = set(removed_blocks)
    BR = {"Ok": ("Continue", 0), "Some": ("Continue", 0), "Err": ("Break", 1), "None": ("Break", 1)}
    seen = set()
    out = set()
    edges_out = set()
    work = [(start, frozenset())]
    n = 0
    while work:
        b, tags = work.pop()
        if b in removed_blocks or fn.blocks[b].get("cleanup"):
            continue
        if (b, tags) in seen:
            continue
        seen.add((b, tags))
        n += 1
        if n > max_states:
            r_ = fn.reachable(start, removed_edges, removed_blocks)
            if want_edges:
                return r_, {(a_, s_) for a_ in r_ for s_ in fn.succs(a_) if (a_, s_) not in removed_edges}
            return r_
        out.add(b)
        tg = dict(tags)
        for st in fn.stmts(b):
            k = st.get("k")
            if k == "assign":
                d = st["dst"]
                if d.get("p"):
                    if d["p"][0] != "deref":
                        tg.pop(d["l"], None)
                        for k_ in [k_ for k_ in tg if isinstance(k_, tuple) and k_[0] == d["l"]]:
                            del tg[k_]
                    continue
                rv = st["rv"]
                new = None
                for k_ in [k_ for k_ in tg if isinstance(k_, tuple) and k_[0] == d["l"]]:
                    del tg[k_]                              # the whole value is replaced: what was known of its fields is gone
                if rv["k"] in ("ref", "rawptr") and rv.get("bk") not in ("shared", "fake") and isinstance(rv.get("place"), dict):
                    tg.pop(rv["place"]["l"], None)          # a `&mut x` escapes: x may change behind our back
                if rv["k"] == "agg" and rv.get("ak") == "tuple":
                    for i_, o_ in enumerate(rv.get("ops", [])):
                        pl_ = op_place(o_)
                        if pl_ is not None and is_plain_local(pl_) and pl_["l"] in tg:
                            tg[(d["l"], i_)] = tg[pl_["l"]]          # `(value, all_ok)`: remember what each field holds
                        elif pl_ is None and isinstance(o_, dict) and "const" in o_ and isinstance(o_["const"].get("val"), (bool, int)):
                            tg[(d["l"], i_)] = ("d", int(o_["const"]["val"]))
                if rv["k"] == "agg" and rv.get("ak") == "adt" and rv.get("variant") is not None:
                    new = ("v", rv["variant"], rv.get("vi"))
                elif rv["k"] == "use":
                    pl = op_place(rv["op"])
                    if pl is not None and is_plain_local(pl) and pl["l"] in tg:
                        new = tg[pl["l"]]
                        for k_ in [k_ for k_ in tg if isinstance(k_, tuple) and k_[0] == pl["l"]]:
                            tg[(d["l"], k_[1])] = tg[k_]            # a tuple moved as a whole keeps its field knowledge
                    elif pl is not None and is_plain_local(pl):
                        for k_ in [k_ for k_ in tg if isinstance(k_, tuple) and k_[0] == pl["l"]]:
                            tg[(d["l"], k_[1])] = tg[k_]
                    elif pl is not None and len(pl.get("p") or []) == 1 and isinstance(pl["p"][0], dict) and "f" in pl["p"][0] and (pl["l"], pl["p"][0].get("i")) in tg:
                        new = tg[(pl["l"], pl["p"][0].get("i"))]     # `let (v, ok) = pair;`
                    elif pl is None and isinstance(rv["op"], dict) and "const" in rv["op"]:
                        cv = rv["op"]["const"].get("val")
                        if isinstance(cv, (bool, int)):
                            new = ("d", int(cv))          # a scalar constant: a later switch on it takes one edge only
                elif rv["k"] == "un" and rv.get("op") == "Not":
                    pl = op_place(rv["a"])
                    if pl is not None and is_plain_local(pl) and pl["l"] in tg and tg[pl["l"]][0] == "d" and tg[pl["l"]][1] in (0, 1) and fn.local_ty(pl["l"]) == "bool":
                        new = ("d", 1 - tg[pl["l"]][1])
                elif rv["k"] == "discr":
                    pl = rv["place"]
                    root = pl["l"] if is_plain_local(pl) else _viewed_local(fn, pl)
                    if root is not None and root in tg and tg[root][0] == "v" and tg[root][2] is not None:
                        new = ("d", tg[root][2])
                if new is None:
                    tg.pop(d["l"], None)
                else:
                    tg[d["l"]] = new
            elif k == "setdiscr":
                tg.pop(st["dst"]["l"], None)
            elif k == "dead":
                tg.pop(st.get("l"), None)
        t = fn.term(b)
        succs = None
        if t["k"] == "call":
            d = t["dst"]
            new = None
            nm = t.get("callee") or ""
            if nm.endswith("Try::branch") and t["args"]:
                pl = op_place(t["args"][0])
                if pl is not None and is_plain_local(pl) and pl["l"] in tg and tg[pl["l"]][0] == "v" and tg[pl["l"]][1] in BR:
                    new = ("v",) + BR[tg[pl["l"]][1]]
            if not d.get("p"):
                for k_ in [k_ for k_ in tg if isinstance(k_, tuple) and k_[0] == d["l"]]:
                    del tg[k_]
                if new is None:
                    tg.pop(d["l"], None)
                else:
                    tg[d["l"]] = new
        learn = None          # (local, {successor block: tag}) learnt by taking an edge of this switch
        elif_done = False
        if t["k"] == "switch":
            pl = op_place(t["discr"])
            if pl is not None and is_plain_local(pl) and pl["l"] in tg and tg[pl["l"]][0] == "d":
                val = tg[pl["l"]][1]
                hit = [tb for v, tb in t["targets"] if v == val]
                succs = hit[:1] if hit else [t["otherwise"]]
            elif pl is not None and is_plain_local(pl):
                learn = _switch_teaches(fn, t, pl["l"])
        nt = frozenset(tg.items())
        for s_ in (succs if succs is not None else fn.succs(b)):
            if (b, s_) in removed_edges:
                continue
            edges_out.add((b, s_))
            if learn is not None and s_ in learn[1] and learn[1][s_] is not None:
                tg2 = dict(tg)
                tg2[learn[0]] = learn[1][s_]
                work.append((s_, frozenset(tg2.items())))
            else:
                work.append((s_, nt))
    if want_edges:
        return out, edges_out
    return out


def _viewed_local(fn, place):
    """the local whose discriminant is read through a shared reference: `(*r)` with `r = &x`, or `(*(t.i))` with
    `t = (.., &x, ..)` - the scrutinee of `match (&state, c)`"""
    p = place.get("p") or []
    l = place["l"]
    if len(p) == 2 and isinstance(p[0], dict) and "f" in p[0] and p[1] == "deref":
        sd = fn.single_def(l)
        if sd is None or sd[2] != "assign":
            return None
        rv = fn.blocks[sd[0]]["stmts"][sd[1]]["rv"]
        if rv.get("k") != "agg" or rv.get("ak") != "tuple":
            return None
        i = p[0].get("i", 0)
        if i >= len(rv.get("ops", [])):
            return None
        o = op_place(rv["ops"][i])
        if o is None or not is_plain_local(o):
            return None
        l = o["l"]
        p = ["deref"]
    if p == ["deref"]:
        sd = fn.single_def(l)
        if sd is None or sd[2] != "assign":
            return None
        rv = fn.blocks[sd[0]]["stmts"][sd[1]]["rv"]
        if rv.get("k") == "ref" and rv.get("bk") in ("shared", "fake") and is_plain_local(rv["place"]):
            return rv["place"]["l"]
    return None


_OPT_VI = {"std::option::Option": {0: "None", 1: "Some"}, "std::result::Result": {0: "Ok", 1: "Err"},
           "std::ops::ControlFlow": {0: "Continue", 1: "Break"}}


def _switch_teaches(fn, t, dl):
    """what taking each edge of a switch says about the variant of an Option / Result *variable*: the switch is on
    `discriminant(x)` or on the bool `x.is_some()` / `is_none()` / `is_ok()` / `is_err()` of a plain local x"""
    sd = fn.single_def(dl)
    if sd is None:
        return None
    if sd[2] == "assign":
        rv = fn.blocks[sd[0]]["stmts"][sd[1]]["rv"]
        if rv["k"] == "discr" and is_plain_local(rv["place"]) and rv.get("adt") in _OPT_VI:
            names = _OPT_VI[rv["adt"]]
            out = {}
            seen = set()
            for v, tb in t["targets"]:
                out[tb] = ("v", names.get(v), v) if v in names else None
                seen.add(v)
            rest = [v for v in names if v not in seen]
            out.setdefault(t["otherwise"], ("v", names[rest[0]], rest[0]) if len(rest) == 1 else None)
            return rv["place"]["l"], out
        return None
    if sd[2] == "call":
        ct = fn.blocks[sd[0]]["term"]
        n = ct.get("callee") or ""
        tail = n.rsplit("::", 1)[-1]
        if tail in ("is_some", "is_none", "is_ok", "is_err") and ("Option" in n or "Result" in n) and ct["args"]:
            x = root_local(fn, ct["args"][0])
            if x is None:
                return None
            yes = {"is_some": ("v", "Some", 1), "is_none": ("v", "None", 0), "is_ok": ("v", "Ok", 0), "is_err": ("v", "Err", 1)}[tail]
            no = {"is_some": ("v", "None", 0), "is_none": ("v", "Some", 1), "is_ok": ("v", "Err", 1), "is_err": ("v", "Ok", 0)}[tail]
            out = {}
            for v, tb in t["targets"]:
                out[tb] = yes if v else no
            out.setdefault(t["otherwise"], yes if [v for v, _ in t["targets"]] == [0] else (no if [v for v, _ in t["targets"]] == [1] else None))
            return x, out
    return None


def reachable_feasible(fn, start, removed_edges=(), removed_blocks=(), max_states=200000):
    """Blocks reachable from `start` along paths on which no switch scrutinee is required to take
    two different values (a match on (a, b) re-tests the same scrutinee in several blocks; the
    plain CFG then contains paths no execution can take).  Knowledge about a scrutinee is dropped
    when one of the locals it is read from is assigned."""
    removed_edges = set(removed_edges)
    removed_blocks = set(removed_blocks)
    assigns = {}
    for b in fn.live_blocks():
        s = set()
        for st in fn.stmts(b):
            if st["k"] in ("assign", "setdiscr"):
                s.add(st["dst"]["l"])
        t = fn.term(b)
        if t["k"] == "call":
            s.add(t["dst"]["l"])
        assigns[b] = s
    keys = {}
    for b in fn.live_blocks():
        t = fn.term(b)
        if t["k"] == "switch":
            keys[b] = _scrutinee_key(fn, t["discr"])
    seen = set()
    out = set()
    work = [(start, frozenset())]
    n = 0
    while work:
        b, know = work.pop()
        if b in removed_blocks:
            continue
        # invalidate knowledge on assigned locals
        if know and assigns[b]:
            know = frozenset(k for k in know if not (k[3] & assigns[b]))
        if (b, know) in seen:
            continue
        seen.add((b, know))
        n += 1
        if n > max_states:
            # give up on precision: fall back to plain reachability (sound over-approximation)
            return fn.reachable(start, removed_edges, removed_blocks)
        out.add(b)
        t = fn.term(b)
        if t["k"] == "switch" and keys.get(b) is not None:
            key, bases = keys[b]
            # a scrutinee read from a local assigned in this very block is only known afterwards
            kd = {k[0]: k for k in know}
            cur = kd.get(key)
            vals = [v for v, _ in t["targets"]]
            for lab, tg in fn.edges_of(b):
                if (b, tg) in removed_edges or fn.blocks[tg].get("cleanup"):
                    continue
                v = lab[1]
                if v == "otherwise":
                    if cur is not None and cur[1] == "eq" and cur[2] in vals:
                        continue  # infeasible
                    ne = frozenset(vals) | (cur[2] if cur is not None and cur[1] == "ne" else frozenset())
                    newk = (key, "ne", ne, bases) if cur is None or cur[1] == "ne" else cur
                else:
                    if cur is not None and ((cur[1] == "eq" and cur[2] != v) or (cur[1] == "ne" and v in cur[2])):
                        continue  # infeasible
                    newk = (key, "eq", v, bases)
                nk = frozenset([k for k in know if k[0] != key] + [newk])
                work.append((tg, nk))
        else:
            for s in fn.succs(b):
                if (b, s) in removed_edges:
                    continue
                work.append((s, know))
    return out


# ------------------------------------------------------------------------------------ TABULATE: region paths + finite-domain evaluation

def region_paths(fn, conds, res, start, stop_blocks, cap=5000):
    """acyclic paths from `start` until a block in stop_blocks or a return; each path =
    (facts, events, end_block) where events are the resolved call expressions met on the way."""
    out = []
    rets = set(returns(fn))

    class P(tuple):
        """(facts, events, end_block) with .blocks = the blocks walked and .fact_pos[i] = index (into
        .blocks) of the block whose outgoing edge carries facts[i]"""
        blocks = ()
        fact_pos = ()

    def emit(facts, ev, end, blocks, pos):
        p = P((facts, ev, end))
        p.blocks = tuple(blocks)
        p.fact_pos = tuple(pos)
        out.append(p)

    def dfs(b, facts, events, seen, blocks, pos):
        if len(out) >= cap:
            raise AnchorLimit("too many paths in region")
        t = fn.term(b)
        ev = events
        if t["k"] in ("call",):
            ev = events + [(b, res.call_expr(t, b))]
        if b in rets:
            emit(facts, ev, b, blocks, pos)
            return
        nxt = fn.succs(b)
        if not nxt:
            emit(facts, ev, b, blocks, pos)
            return
        for s in nxt:
            ef = conds.edge_facts(b, s)
            f2 = facts + ef
            p2 = pos + [len(blocks) - 1] * len(ef)
            if s in stop_blocks:
                emit(f2, ev, s, blocks, p2)
            elif s in seen:
                continue
            else:
                dfs(s, f2, ev, seen | {s}, blocks + [s], p2)

    dfs(start, [], [], {start}, [start], [])
    return out


def path_local_value(fn, res, blocks, upto, l, env):
    """value of the scalar local `l` at the end of blocks[upto] on one concrete path: the last whole
    assignment to it along blocks[0..upto], evaluated over env (a `let flag = matches!(..)` / `a || b`
    computed before the `if flag` that tests it).  raises Unevaluable."""
    for bi in range(upto, -1, -1):
        b = blocks[bi]
        stmts = fn.blocks[b].get("stmts", [])
        for i in range(len(stmts) - 1, -1, -1):
            st = stmts[i]
            if st.get("k") == "assign" and st["dst"].get("l") == l and not st["dst"].get("p"):
                rv = st["rv"]
                if rv["k"] == "use":
                    pl = op_place(rv["op"])
                    if pl is not None and is_plain_local(pl) and not fn.is_param(pl["l"]):
                        # a copy of another scalar local: follow it on the same path
                        return path_local_value(fn, res, blocks[:bi + 1] if i == 0 else blocks, bi, pl["l"], env) if pl["l"] != l else _unev("self copy")
                return ev(res.rvalue(rv, (b, i)), env)
        t = fn.blocks[b].get("term")
        if bi < upto and t and t["k"] == "call" and t["dst"].get("l") == l and not t["dst"].get("p"):
            return ev(res.call_expr(t, b), env)
    raise Unevaluable("local %d has no definition on this path" % l)


def _unev(why):
    raise Unevaluable(why)


class AnchorLimit(Exception):
    pass


class Unevaluable(Exception):
    pass


def ev(e, env):
    """evaluate an expression over a finite-domain environment {path_str: value}; raises
    Unevaluable for anything that is not a comparison/arithmetic over environment paths and constants."""
    e = peel_refs(e)
    k = e[0]
    ps = path_str(e)
    if ps is not None and ps in env:
        return env[ps]
    if k == "const":
        if e[2] is None:
            raise Unevaluable(show(e))
        return e[2]
    if k == "cast":
        v = ev(e[1], env)
        return int(v) if isinstance(v, bool) else v
    if k == "field" and e[2] == "0" and peel_refs(e[1])[0] == "bin" and peel_refs(e[1])[1].endswith("WithOverflow"):
        return ev(peel_refs(e[1]), env)
    if k == "un" and e[1] == "Not":
        v = ev(e[2], env)
        return (not v) if isinstance(v, bool) else (~v & 0xFF)
    if k == "bin":
        op = e[1].replace("WithOverflow", "").replace("Unchecked", "")
        a, b = ev(e[2], env), ev(e[3], env)
        if op == "Eq":
            return a == b
        if op == "Ne":
            return a != b
        if op == "Lt":
            return a < b
        if op == "Le":
            return a <= b
        if op == "Gt":
            return a > b
        if op == "Ge":
            return a >= b
        if op == "Add":
            return a + b
        if op == "Sub":
            return a - b
        if op == "Mul":
            return a * b
        if op == "Div":
            return a // b
        if op == "Rem":
            return a % b
        if op == "BitAnd":
            return a & b
        if op == "BitOr":
            return a | b
    if k == "call" and e[2]:
        n = e[1]
        if n.endswith("char>::is_whitespace"):
            return chr(ev(e[2][0], env)).isspace()
        if n.endswith("char>::is_ascii"):
            return ev(e[2][0], env) < 128
        if n.endswith("char>::is_ascii_digit"):
            return 48 <= ev(e[2][0], env) <= 57
        if (e[4] or "").endswith("PartialEq::eq") and len(e[2]) == 2:
            return ev(e[2][0], env) == ev(e[2][1], env)
        if (e[4] or "").endswith("PartialEq::ne") and len(e[2]) == 2:
            return ev(e[2][0], env) != ev(e[2][1], env)
    raise Unevaluable(show(e)[:80])


def fact_holds(fc, env, variants=None):
    """truth of one edge fact under env; variant facts use env['<variant>'] (the state's name)."""
    k = fc[0]
    if k == "cmp":
        a, b = ev(fc[2], env), ev(fc[3], env)
        return {"Eq": a == b, "Ne": a != b, "Lt": a < b, "Le": a <= b, "Gt": a > b, "Ge": a >= b}[fc[1]]
    if k == "const" and len(fc) >= 3 and isinstance(fc[1], (bool, int)) and isinstance(fc[2], bool):
        return bool(fc[1]) == fc[2]            # a switch on a value known on this path (after threading): the edge is taken or not
    if k == "inteq":
        return ev(fc[1], env) == fc[2]
    if k == "intne":
        return ev(fc[1], env) != fc[2]
    if k in ("is", "isnot") and variants is not None and fc[1] in variants:
        return (env["<variant>"] == fc[1]) == (k == "is")
    if k == "ltruth":
        key = "local%d" % fc[1]
        if key in env:
            return env[key] == fc[2]
        return None
    if k == "truth":
        try:
            return ev(fc[1], env) == fc[2]
        except Unevaluable:
            return None
    if k == "call":
        try:
            return ev(("call", fc[1], fc[2], None, fc[1]), env) == fc[3]
        except Unevaluable:
            return None
    if k == "anyof":
        rs = [all(x for x in (fact_holds(f, env, variants) for f in alt) if x is not None) for alt in fc[1]]
        return any(rs)
    return None


def arith(e):
    """normalise checked / unchecked arithmetic: `(AddWithOverflow(a, b)).0` and `Add(a, b)` both
    become ('bin', 'Add', a, b); anything else -> None."""
    e = peel(e)
    if e[0] == "field" and e[2] == "0" and peel(e[1])[0] == "bin" and peel(e[1])[1].endswith("WithOverflow"):
        e = peel(e[1])
    if e[0] == "bin":
        return ("bin", e[1].replace("WithOverflow", "").replace("Unchecked", ""), e[2], e[3])
    return None
