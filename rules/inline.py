"""MIR-level inlining of helper functions the rules do not know by name.

The rules are anchored in the functions that exist in the tree they were written against
(`known_fns.txt`).  "Extract a block into a private helper" is the most common behaviour-preserving
edit; it moves the statements a rule looks at out of the anchored function.  Before the rules run,
every call to a *new* local, non-async, non-recursive function is replaced by that function's blocks
(locals and blocks renumbered, parameters assigned from the arguments, `return` turned into an
assignment of the call's destination followed by a jump to the call's target).  The anchored function
then has the statements it had before the extraction, and every rule sees through the helper.

This is a transformation of the *model*, not of the program: it is exact for what the rules use
(CFG, dominance, def-use), and conservative otherwise (each call site gets its own copy)."""
import copy
import os

HERE = os.path.dirname(os.path.abspath(__file__))
KNOWN_FILE = os.path.join(HERE, "known_fns.txt")
MAX_ROUNDS = 4
MAX_BLOCKS = 2000         # do not inline monsters


def load_known():
    if not os.path.isfile(KNOWN_FILE):
        return None
    with open(KNOWN_FILE) as fh:
        return {l.strip() for l in fh if l.strip() and not l.startswith("#")}


def load_known_params():
    import json
    path = os.path.join(HERE, "known_params.json")
    if not os.path.isfile(path):
        return None
    with open(path) as fh:
        return json.load(fh)


def load_known_json(name):
    import json
    path = os.path.join(HERE, name)
    if not os.path.isfile(path):
        return None
    with open(path) as fh:
        return json.load(fh)


def load_known_sigs():
    import json
    path = os.path.join(HERE, "known_sigs.json")
    if not os.path.isfile(path):
        return None
    with open(path) as fh:
        return json.load(fh)


def load_known_fields():
    import json
    path = os.path.join(HERE, "known_fields.json")
    if not os.path.isfile(path):
        return None
    with open(path) as fh:
        return json.load(fh)


def _renumber(j, lmap, bmap):
    """deep copy of a statement / terminator with locals and block ids renumbered."""
    if isinstance(j, list):
        return [_renumber(x, lmap, bmap) for x in j]
    if not isinstance(j, dict):
        return j
    out = {}
    for k, v in j.items():
        if k == "l" and isinstance(v, int):
            out[k] = lmap(v)
        elif k == "index" and isinstance(v, int):
            out[k] = lmap(v)
        elif k in ("target", "otherwise") and isinstance(v, int):
            out[k] = bmap(v)
        elif k == "targets" and isinstance(v, list):
            out[k] = [[a, bmap(b)] for a, b in v]
        else:
            out[k] = _renumber(v, lmap, bmap)
    return out


def _inlinable(key, rec, known):
    if key in known:
        return False
    if rec.get("kind") not in ("Fn", "AssocFn") or rec.get("async") or rec.get("coroutine"):
        return False
    if rec.get("from_expansion") or rec.get("derived"):
        return False
    blocks = rec.get("blocks") or []
    if not blocks or len(blocks) > MAX_BLOCKS:
        return False
    for b in blocks:
        t = b.get("term")
        if not t:
            continue
        if t["k"] in ("yield", "tailcall", "asm", "coroutine_drop"):
            return False
        if t["k"] == "call" and (t.get("resolved") == key or t.get("callee") == key):
            return False          # directly recursive
    return True


def _callee_key(t, fns):
    for k in (t.get("resolved"), t.get("callee")):
        if k and k in fns:
            return k
    return None


def inline_into(rec, fns, helpers):
    """returns (new_rec, [(helper, line)]) or (rec, []) when there is nothing to do."""
    sites = []
    for b in rec.get("blocks") or []:
        t = b.get("term")
        if t and t["k"] == "call":
            k = _callee_key(t, fns)
            if k in helpers and len(t["args"]) == fns[k]["arg_count"]:
                sites.append((b["id"], k))
    if not sites:
        return rec, []
    new = copy.deepcopy(rec)
    blocks = new["blocks"]
    locals_ = new["locals"]
    done = []
    for bid, hk in sites:
        h = fns[hk]
        call = blocks[bid]["term"]
        lbase = len(locals_)
        bbase = len(blocks)
        lmap = lambda l, lbase=lbase: l + lbase
        bmap = lambda b, bbase=bbase: b + bbase
        for lr in h["locals"]:
            nl = dict(lr)
            nl["l"] = lmap(lr["l"])
            nl["inlined_from"] = hk
            locals_.append(nl)
        for v in h.get("vars", []):
            new.setdefault("vars", []).append({"name": v["name"], "place": _renumber(v["place"], lmap, bmap), "inlined_from": hk})
        ln = call.get("ln")
        # parameters := arguments
        pre = []
        for i, a in enumerate(call["args"]):
            pre.append({"k": "assign", "dst": {"l": lmap(i + 1)}, "rv": {"k": "use", "op": a}, "ln": ln, "inl": "arg"})
        dst, target = call["dst"], call.get("target")
        for hb in h["blocks"]:
            nb = _renumber(hb, lmap, bmap)
            nb["id"] = bmap(hb["id"])
            nb["inlined_from"] = hk
            t = nb.get("term")
            if t and t["k"] == "return":
                nb.setdefault("stmts", []).append({"k": "assign", "dst": dst, "rv": {"k": "use", "op": {"move": {"l": lmap(0)}}}, "ln": t.get("ln"), "inl": "ret"})
                nb["term"] = {"k": "goto", "target": target, "ln": t.get("ln")} if target is not None else {"k": "unreachable", "ln": t.get("ln")}
            blocks.append(nb)
        cb = blocks[bid]
        cb.setdefault("stmts", []).extend(pre)
        cb["term"] = {"k": "goto", "target": bmap(0), "ln": ln, "inl": "call:" + hk}
        done.append((hk, ln))
    return new, done


def inline_all(fns, known):
    """fns: key -> rec (mutated in place: values replaced).  returns {caller: [(helper, line)]}."""
    report = {}
    if known is None:
        return report
    for _ in range(MAX_ROUNDS):
        helpers = {k for k, r in fns.items() if _inlinable(k, r, known)}
        if not helpers:
            break
        changed = False
        # innermost first: a helper that itself calls helpers is expanded before it is copied
        for k in sorted(fns, key=lambda k: (k not in helpers, k)):
            try:
                nr, done = inline_into(fns[k], fns, helpers - {k})
            except Exception:
                continue                 # leave the caller as it is
            if done:
                fns[k] = nr
                report.setdefault(k, []).extend(done)
                changed = True
        if not changed:
            break
    return report
