"""Thorough-tier engines: release-profile re-analysis, compile-fail witnesses (E4), clippy
cross-reference of the panic-site enumeration (E5).  All static: compiler / lint output only."""
import json
import os
import re
import shutil
import subprocess

from . import facts, mir, panics as P

VERIF = facts.VERIF
REPO = facts.REPO

WITNESSES = {
    "C04": ["C04OpcodeReservedPrivate", "C04RcodeReservedPrivate", "C04RecordTypeUnknownPrivate", "C04RecordClassUnknownPrivate"],
    "C08": ["C08QuestionStackPrivate"],
    "C12": ["C12ZoneSoaPrivate", "C12ZoneRecordsPrivate"],
    "C02": ["C12ZoneSoaPrivate", "C12ZoneRecordsPrivate"],
    "C15": ["C15SharedCacheCachePrivate"],
    "C16": ["C16LabelOctetsPrivate", "C16LabelNoLiteral"],
}
PANIC_PROPS = ("C03", "C17", "C08", "C09")


def run_witnesses(ctx):
    names = WITNESSES.get(ctx.prop)
    if not names:
        return
    rule = ctx.prop + ".W"
    ctx.rule(rule, "compile-fail witnesses: the privacy the rules rely on is enforced by the type checker for code outside the crate (each witness has a compiling twin)")
    wdir = os.path.join(VERIF, "witness")
    shutil.copyfile(os.path.join(REPO, "Cargo.lock"), os.path.join(wdir, "Cargo.lock"))
    env = dict(os.environ, CARGO_TARGET_DIR=os.path.join(facts.CACHE, "witness-target"), CARGO_NET_OFFLINE="true")
    r = subprocess.run(["cargo", "+nightly", "test", "--doc", "--offline"], cwd=wdir, env=env, stdout=subprocess.PIPE, stderr=subprocess.STDOUT, text=True)
    out = r.stdout
    res = {}
    for m in re.finditer(r"^test src/lib\.rs - (\w+) \(line \d+\)( - compile fail| - compile)? \.\.\. (\w+)", out, re.M):
        res.setdefault(m.group(1), []).append(((m.group(2) or "").strip() == "- compile fail", m.group(3)))
    for n in names:
        got = res.get(n, [])
        cf = [x for x in got if x[0]]
        twin = [x for x in got if not x[0]]
        ok = len(cf) == 1 and cf[0][1] == "ok" and len(twin) == 1 and twin[0][1] == "ok"
        ctx.check(ok, rule, "witness:" + n, "violating program fails to type-check with the expected error code; its twin compiles",
                  "witness %s: compile_fail=%s twin=%s (the field/constructor became reachable from outside, or the witness no longer names a real item)" % (n, cf, twin))


def _clippy_sites():
    key = facts.tree_hash("clippy")
    cdir = os.path.join(facts.CACHE, "clippy")
    os.makedirs(cdir, exist_ok=True)
    path = os.path.join(cdir, key + ".json")
    if os.path.isfile(path):
        with open(path) as fh:
            return json.load(fh)
    env = dict(os.environ, CARGO_TARGET_DIR=os.path.join(facts.CACHE, "clippy-target"), CARGO_NET_OFFLINE="true")
    cmd = ["cargo", "+nightly", "clippy", "--offline", "--workspace", "--message-format=json", "--", "-A", "clippy::all", "-A", "clippy::pedantic",
           "-W", "clippy::indexing_slicing", "-W", "clippy::unwrap_used", "-W", "clippy::expect_used", "-W", "clippy::panic",
           "-W", "clippy::unreachable", "-W", "clippy::string_slice"]
    r = subprocess.run(cmd, cwd=REPO, env=env, stdout=subprocess.PIPE, stderr=subprocess.PIPE, text=True)
    if r.returncode != 0:
        raise facts.BuildFailed("cargo clippy failed")
    sites = []
    for line in r.stdout.splitlines():
        try:
            m = json.loads(line)
        except ValueError:
            continue
        if m.get("reason") != "compiler-message":
            continue
        msg = m["message"]
        code = (msg.get("code") or {}).get("code") or ""
        if not code.startswith("clippy::"):
            continue
        sp = [s for s in msg["spans"] if s["is_primary"]]
        if sp:
            sites.append([code, sp[0]["file_name"], sp[0]["line_start"], sp[0]["line_end"]])
    with open(path, "w") as fh:
        json.dump(sites, fh)
    return sites


def run_clippy_crossref(ctx):
    if ctx.prop not in PANIC_PROPS:
        return
    rule = ctx.prop + ".X"
    ctx.rule(rule, "completeness of the panic-site enumeration: every clippy indexing_slicing / unwrap_used / expect_used / panic / string_slice site is a site the MIR enumeration saw")
    prog = ctx.prog
    mine = set()
    for f in prog.fns.values():
        for f_, b, kind, t in P.sites(prog, [f]):
            mine.add((f.file, t["ln"]))
    sites = _clippy_sites()
    miss = [s for s in sites if not any((s[1], l) in mine for l in range(s[2], s[3] + 1))]
    ctx.sites_examined += len(sites)
    ctx.check(not miss and len(sites) >= 100, rule, "clippy-crossref", "%d clippy restriction-lint sites, all matched by the MIR enumeration (%d sites)" % (len(sites), len(mine)),
              "clippy reports panic-capable sites the enumeration did not see: %s" % miss[:5])


def release_program():
    d, info = facts.extract("release")
    return mir.Program(d, info)
