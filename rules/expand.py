"""Normal form for iterator pipelines and Option/Result combinators: explicit loops and matches.

`v.iter().map(f).collect()`, `it.any(p)`, `it.position(p)`, `x.extend(it.filter(p))`, `opt.map(f)` ... and the
`for` loop / `match` that does the same thing are two spellings of one computation.  The rules are written
against the loop / match spelling; this pass rewrites the *model* of every function so that the combinator
spelling becomes that one too: the terminal call (collect / extend / for_each / position / any / all / find /
find_map, or the Option/Result method) is replaced by the blocks a `for` loop / `match` would have, with the
closure bodies spliced in (their captured variables resolve to the enclosing function's locals).

Only pipelines that carry at least one function argument are rewritten; plain plumbing
(`set.into_iter().collect::<Vec<_>>()`) stays a call.  A pipeline containing anything this pass does not know
(an unknown adaptor, a closure it cannot find) is left alone - the rules then see the calls as before."""
import copy
import re

from .inline import _renumber

OPTION = "std::option::Option"
RESULT = "std::result::Result"

ADAPTORS = {"map": "map", "filter": "filter", "filter_map": "filter_map", "enumerate": "enumerate", "cloned": "id", "copied": "id",
            "flatten": "flatten", "inspect": None}
TERMINALS = {"collect", "for_each", "position", "any", "all", "find", "find_map", "fold"}
SOURCE_TAILS = ("::iter", "::iter_mut", "::into_iter", "::keys", "::values", "::values_mut", "::chars", "::lines", "::drain", "::split",
                "::bytes", "::char_indices", "::rev", "::skip", "::take", "::zip", "::chain", "::peekable", "::into_values", "::into_keys",
                "::split_whitespace", "::windows", "::chunks")


class Giveup(Exception):
    pass


class Builder:
    def __init__(self, rec, fns):
        self.rec = rec
        self.fns = fns
        self.blocks = rec["blocks"]
        self.locals = rec["locals"]

    def local(self, ty, user=False):
        l = len(self.locals)
        self.locals.append({"l": l, "ty": ty, "user": user, "mut": True, "synthetic": True})
        return l

    def block(self, stmts=None, term=None):
        b = len(self.blocks)
        self.blocks.append({"id": b, "stmts": stmts or [], "term": term, "synthetic": True})
        return b

    def ty(self, l):
        return self.locals[l]["ty"]


def mv(l):
    return {"move": {"l": l}}


def cp(l):
    return {"copy": {"l": l}}


def konst(ty, val):
    return {"const": {"ty": ty, "val": val}}


def assign(dst, rv, ln):
    return {"k": "assign", "dst": dst if isinstance(dst, dict) else {"l": dst}, "rv": rv, "ln": ln, "syn": True}


def use(op):
    return {"k": "use", "op": op}


def goto(b, ln):
    return {"k": "goto", "target": b, "ln": ln}


def variant_agg(adt, variant, vi, ops):
    return {"k": "agg", "ak": "adt", "adt": adt, "variant": variant, "vi": vi, "fields": [str(i) for i in range(len(ops))], "ops": ops}


def payload(l, adt, variant, vi):
    return {"l": l, "p": [{"downcast": variant, "vi": vi}, {"f": "0", "i": 0, "adt": adt}]}


def call_term(name, args, dst, target, ln, resolved=None, local=False):
    return {"k": "call", "callee": name, "inst": name, "generics": [], "resolved": resolved or name, "resolved_inst": resolved or name,
            "resolved_local": local, "callee_local": local, "args": args, "dst": dst if isinstance(dst, dict) else {"l": dst},
            "target": target, "ln": ln, "syn": True}


def bool_switch(op, then_b, else_b, ln):
    return {"k": "switch", "discr": op, "ty": "bool", "targets": [[0, else_b]], "otherwise": then_b, "ln": ln}


def discr_switch(bld, place_local, adt, arms, ln):
    """arms: {variant index: block}; returns (stmts, term)"""
    d = bld.local("isize")
    unreachable = bld.block([], {"k": "unreachable", "ln": ln})
    st = assign(d, {"k": "discr", "place": {"l": place_local}, "adt": adt}, ln)
    tm = {"k": "switch", "discr": mv(d), "ty": "isize", "targets": [[vi, b] for vi, b in sorted(arms.items())], "otherwise": unreachable, "ln": ln}
    return [st], tm


# ------------------------------------------------------------------------------------------------ helpers

def defs_of(rec):
    out = {}
    for b in rec["blocks"]:
        for i, st in enumerate(b.get("stmts") or []):
            if st.get("k") == "assign":
                out.setdefault(st["dst"]["l"], []).append((b["id"], i, "partial" if st["dst"].get("p") else "assign"))
        t = b.get("term")
        if t and t.get("k") == "call" and t.get("dst"):
            out.setdefault(t["dst"]["l"], []).append((b["id"], "term", "partial" if t["dst"].get("p") else "call"))
    return out


def uses_of(rec, l):
    """number of operand / place occurrences of local l (excluding storage markers and its own definitions)"""
    n = 0

    def walk(j, is_dst=False):
        nonlocal n
        if isinstance(j, list):
            for x in j:
                walk(x)
        elif isinstance(j, dict):
            if "l" in j and isinstance(j["l"], int) and j.get("k") != "dead" and "ty" not in j:
                if j["l"] == l and not is_dst:
                    n += 1
            for k, v in j.items():
                if k == "dst":
                    walk(v, is_dst=not (isinstance(v, dict) and v.get("p")))
                else:
                    walk(v)
    for b in rec["blocks"]:
        walk(b.get("stmts") or [])
        if b.get("term"):
            walk(b["term"])
    return n


def plain(op):
    for k in ("move", "copy"):
        if k in op:
            p = op[k]
            if not p.get("p"):
                return p["l"]
    return None


def fn_item_path(op):
    c = op.get("const") if isinstance(op, dict) else None
    if not c:
        return None
    ty = c.get("ty") or ""
    m = re.search(r"\{(.+)\}$", ty)
    if m and ("fn(" in ty or ty.startswith("for<")):
        return m.group(1)
    return None


def closure_of(rec, defs, op):
    """(closure key, env local) when op moves / copies a local whose one definition is a closure aggregate"""
    l = plain(op)
    if l is None:
        return None
    ds = [d for d in defs.get(l, []) if d[2] != "partial"]
    if len(ds) != 1 or ds[0][2] != "assign":
        return None
    rv = rec["blocks"][ds[0][0]]["stmts"][ds[0][1]]["rv"]
    if rv.get("k") == "agg" and rv.get("ak") == "closure" and rv.get("def"):
        return rv["def"], l
    if rv.get("k") == "use":       # a closure bound to a name first: `let key = |rr| ..; it.map(key)`
        return closure_of(rec, defs, rv["op"])
    return None


def emit_call(bld, defs, fop, args, dst, ln, cont):
    """blocks that compute `dst = f(args)` for a closure (body spliced in) or a function item (a call); returns the
    entry block.  raises Giveup when f is neither."""
    rec, fns = bld.rec, bld.fns
    path = fn_item_path(fop)
    if path is not None:
        return bld.block([], call_term(path, args, dst, cont, ln, local=path in fns))
    co = closure_of(rec, defs, fop)
    if co is None:
        raise Giveup("function argument is neither a closure nor a function item")
    key, env = co
    h = fns.get(key)
    if h is None or not h.get("blocks") or h.get("coroutine") or len(h["blocks"]) > 300:
        raise Giveup("closure body not available")
    if h["arg_count"] - 1 != len(args):
        raise Giveup("closure arity")
    for hb in h["blocks"]:
        t = hb.get("term")
        if t and t["k"] in ("yield", "tailcall", "asm", "coroutine_drop"):
            raise Giveup("closure body has unsupported terminators")
    lbase = len(bld.locals)
    bbase = len(bld.blocks)
    lmap = lambda l: l + lbase
    bmap = lambda b: b + bbase
    for lr in h["locals"]:
        nl = dict(lr)
        nl["l"] = lmap(lr["l"])
        nl["inlined_from"] = key
        bld.locals.append(nl)
    for v in h.get("vars", []):
        rec.setdefault("vars", []).append({"name": v["name"], "place": _renumber(v["place"], lmap, bmap), "inlined_from": key})
    for hb in h["blocks"]:
        nb = _renumber(hb, lmap, bmap)
        nb["id"] = bmap(hb["id"])
        nb["inlined_from"] = key
        t = nb.get("term")
        if t and t["k"] == "return":
            nb.setdefault("stmts", []).append(assign(dst, use(mv(lmap(0))), t.get("ln")))
            nb["term"] = goto(cont, t.get("ln"))
        bld.blocks.append(nb)
    rec.setdefault("spliced", []).append(key)
    env_ty = h["locals"][1]["ty"]
    pre = []
    if env_ty.startswith("&mut "):
        pre.append(assign(lmap(1), {"k": "ref", "bk": "mut", "place": {"l": env}}, ln))
    elif env_ty.startswith("&"):
        pre.append(assign(lmap(1), {"k": "ref", "bk": "shared", "place": {"l": env}}, ln))
    else:
        pre.append(assign(lmap(1), use(cp(env)), ln))
    for i, a in enumerate(args):
        pre.append(assign(lmap(i + 2), use(a), ln))
    return bld.block(pre, goto(bmap(0), ln))


def tail(name):
    return (name or "").rsplit("::", 1)[-1]


def is_iter_method(t, meth):
    n = t.get("callee") or ""
    return n == "std::iter::Iterator::" + meth


# ------------------------------------------------------------------------------------------------ Option / Result

VALUE_COMBINATORS = {
    ("Option", "map"), ("Option", "and_then"), ("Option", "unwrap_or_else"), ("Option", "ok_or_else"), ("Option", "map_or_else"),
    ("Option", "filter"), ("Option", "is_some_and"), ("Option", "or_else"), ("Option", "unwrap_or_default"), ("Result", "unwrap_or_default"),
    ("Option", "map_or"), ("Result", "map_or"),
    ("Result", "map"), ("Result", "map_err"), ("Result", "and_then"), ("Result", "unwrap_or_else"), ("Result", "or_else"),
}


def value_combinator(t):
    n = t.get("callee") or ""
    m = re.match(r"^std::(option::Option::<T>|result::Result::<T, E>)::(\w+)$", n)
    if not m:
        return None
    fam = "Option" if "Option" in m.group(1) else "Result"
    if (fam, m.group(2)) in VALUE_COMBINATORS:
        return fam, m.group(2)
    return None


def expand_value(bld, defs, bid, fam, meth):
    blocks = bld.blocks
    t = blocks[bid]["term"]
    ln = t.get("ln")
    args, dst, target = t["args"], t["dst"], t.get("target")
    if target is None or dst.get("p"):
        raise Giveup("no continuation")
    fop = args[-1]
    if meth == "unwrap_or_default":
        fop = None
    elif fn_item_path(fop) is None and closure_of(bld.rec, defs, fop) is None:
        raise Giveup("not a closure / fn item")
    elif fn_item_path(fop) is not None:
        raise Giveup("function items stay calls")     # rules match `x.map(Type::method)` as a call
    recv = bld.local(bld.ty(plain(args[0])) if plain(args[0]) is not None else "_")
    pre = [assign(recv, use(args[0]), ln)]
    adt = OPTION if fam == "Option" else RESULT
    pos, neg = (("Some", 1), ("None", 0)) if fam == "Option" else (("Ok", 0), ("Err", 1))
    some = lambda ops: variant_agg(adt, pos[0], pos[1], ops)
    none = variant_agg(OPTION, "None", 0, [])
    x = bld.local("_")
    y = bld.local("_")
    done = lambda stmts: bld.block(stmts, goto(target, ln))

    def arm_value(variant, vi):
        return use(mv_place(payload(recv, adt, variant, vi)))

    def mv_place(p):
        return {"move": p}

    if (fam, meth) in (("Option", "map"), ("Result", "map")):
        fin = done([assign(dst, some([mv(y)]), ln)])
        body = emit_call(bld, defs, fop, [mv(x)], {"l": y}, ln, fin)
        pos_b = bld.block([assign(x, arm_value(*pos), ln)], goto(body, ln))
        if fam == "Option":
            neg_b = done([assign(dst, none, ln)])
        else:
            e = bld.local("_")
            neg_b = done([assign(e, arm_value(*neg), ln), assign(dst, variant_agg(RESULT, "Err", 1, [mv(e)]), ln)])
    elif (fam, meth) in (("Option", "and_then"), ("Result", "and_then")):
        fin = done([])
        body = emit_call(bld, defs, fop, [mv(x)], dst, ln, fin)
        pos_b = bld.block([assign(x, arm_value(*pos), ln)], goto(body, ln))
        if fam == "Option":
            neg_b = done([assign(dst, none, ln)])
        else:
            e = bld.local("_")
            neg_b = done([assign(e, arm_value(*neg), ln), assign(dst, variant_agg(RESULT, "Err", 1, [mv(e)]), ln)])
    elif meth == "unwrap_or_default":
        # Some(x) / Ok(x) -> x, otherwise T::default()  (an empty Vec for Vec<_>, which is what `Vec::new()` is)
        pos_b = done([assign(dst, arm_value(*pos), ln)])
        dty = bld.ty(dst["l"]) or ""
        ctor = "std::vec::Vec::<T>::new" if dty.startswith("std::vec::Vec<") else "std::default::Default::default"
        neg_b = bld.block([], call_term(ctor, [], dst, done([]), ln))
    elif (fam, meth) == ("Option", "unwrap_or_else"):
        pos_b = done([assign(dst, arm_value(*pos), ln)])
        neg_b = emit_call(bld, defs, fop, [], dst, ln, done([]))
    elif (fam, meth) == ("Result", "unwrap_or_else"):
        pos_b = done([assign(dst, arm_value(*pos), ln)])
        body = emit_call(bld, defs, fop, [mv(x)], dst, ln, done([]))
        neg_b = bld.block([assign(x, arm_value(*neg), ln)], goto(body, ln))
    elif (fam, meth) == ("Option", "ok_or_else"):
        pos_b = done([assign(x, arm_value(*pos), ln), assign(dst, variant_agg(RESULT, "Ok", 0, [mv(x)]), ln)])
        fin = done([assign(dst, variant_agg(RESULT, "Err", 1, [mv(y)]), ln)])
        neg_b = emit_call(bld, defs, fop, [], {"l": y}, ln, fin)
    elif (fam, meth) == ("Option", "or_else"):
        pos_b = done([assign(dst, use(mv(recv)), ln)])
        neg_b = emit_call(bld, defs, fop, [], dst, ln, done([]))
    elif (fam, meth) == ("Result", "or_else"):
        pos_b = done([assign(x, arm_value(*pos), ln), assign(dst, variant_agg(RESULT, "Ok", 0, [mv(x)]), ln)])
        body = emit_call(bld, defs, fop, [mv(x)], dst, ln, done([]))
        neg_b = bld.block([assign(x, arm_value(*neg), ln)], goto(body, ln))
    elif (fam, meth) == ("Result", "map_err"):
        pos_b = done([assign(x, arm_value(*pos), ln), assign(dst, variant_agg(RESULT, "Ok", 0, [mv(x)]), ln)])
        fin = done([assign(dst, variant_agg(RESULT, "Err", 1, [mv(y)]), ln)])
        body = emit_call(bld, defs, fop, [mv(x)], {"l": y}, ln, fin)
        neg_b = bld.block([assign(x, arm_value(*neg), ln)], goto(body, ln))
    elif meth == "map_or":
        # map_or(default, f): the default is an already evaluated value
        body = emit_call(bld, defs, fop, [mv(x)], dst, ln, done([]))
        pos_b = bld.block([assign(x, arm_value(*pos), ln)], goto(body, ln))
        neg_b = done([assign(dst, use(args[1]), ln)])
    elif (fam, meth) == ("Option", "map_or_else"):
        # map_or_else(default_fn, f)
        dfop = args[1]
        body = emit_call(bld, defs, fop, [mv(x)], dst, ln, done([]))
        pos_b = bld.block([assign(x, arm_value(*pos), ln)], goto(body, ln))
        neg_b = emit_call(bld, defs, dfop, [], dst, ln, done([]))
    elif (fam, meth) == ("Option", "filter"):
        r = bld.local("&_")
        c = bld.local("bool")
        keep = done([assign(dst, some([mv(x)]), ln)])
        drop = done([assign(dst, none, ln)])
        test = bld.block([], bool_switch(mv(c), keep, drop, ln))
        body = emit_call(bld, defs, fop, [mv(r)], {"l": c}, ln, test)
        pos_b = bld.block([assign(x, arm_value(*pos), ln), assign(r, {"k": "ref", "bk": "shared", "place": {"l": x}}, ln)], goto(body, ln))
        neg_b = done([assign(dst, none, ln)])
    elif (fam, meth) == ("Option", "is_some_and"):
        body = emit_call(bld, defs, fop, [mv(x)], dst, ln, done([]))
        pos_b = bld.block([assign(x, arm_value(*pos), ln)], goto(body, ln))
        neg_b = done([assign(dst, use(konst("bool", False)), ln)])
    else:
        raise Giveup("unhandled combinator")
    st, sw = discr_switch(bld, recv, adt, {pos[1]: pos_b, neg[1]: neg_b}, ln)
    cb = blocks[bid]
    cb.setdefault("stmts", []).extend(pre + st)
    cb["term"] = sw
    cb["expanded"] = "%s::%s" % (fam, meth)


# ------------------------------------------------------------------------------------------------ Option: plain-value methods

def option_plain(t, rec, defs):
    """Option methods taking values, not closures: ok_or(v), cloned(), copied(), and `a == Some(v)` / `a == None`"""
    n = t.get("callee") or ""
    m = re.match(r"^std::option::Option::<(&?)T>::(ok_or|cloned|copied|unwrap_or)$", n)
    if m:
        if (m.group(2) in ("cloned", "copied")) != (m.group(1) == "&"):
            return None
        return m.group(2)
    r = t.get("resolved") or ""
    if n in ("std::cmp::PartialEq::eq", "std::cmp::PartialEq::ne") and r.startswith("<std::option::Option<T> as std::cmp::PartialEq>::") \
            and len(t.get("args", [])) == 2 and _literal_option_side(rec, defs, t) is not None:
        return "eq" if n.endswith("::eq") else "ne"
    return None


def _ref_target(rec, defs, op):
    """the local `x` when op moves a temporary whose one definition is `&x`"""
    l = plain(op)
    if l is None:
        return None
    ds = [d for d in defs.get(l, [])]
    if len(ds) != 1 or ds[0][2] != "assign":
        return None
    rv = rec["blocks"][ds[0][0]]["stmts"][ds[0][1]]["rv"]
    if rv.get("k") == "ref" and not rv["place"].get("p"):
        return rv["place"]["l"]
    return None


def _literal_option_side(rec, defs, t):
    """(index of the literal side, variant, payload operand | None): which argument of `a == b` is `&Some(v)` / `&None`
    built right here"""
    for i in (1, 0):
        x = _ref_target(rec, defs, t["args"][i])
        if x is None:
            continue
        ds = [d for d in defs.get(x, [])]
        if len(ds) != 1 or ds[0][2] != "assign":
            continue
        rv = rec["blocks"][ds[0][0]]["stmts"][ds[0][1]]["rv"]
        if rv.get("k") == "agg" and rv.get("adt") == OPTION:
            return i, rv["variant"], (rv["ops"][0] if rv["ops"] else None)
    return None


def expand_option_plain(bld, defs, bid, meth):
    blocks = bld.blocks
    t = blocks[bid]["term"]
    ln = t.get("ln")
    args, dst, target = t["args"], t["dst"], t.get("target")
    if target is None or dst.get("p"):
        raise Giveup("no continuation")
    done = lambda stmts: bld.block(stmts, goto(target, ln))
    cb = blocks[bid]
    if meth in ("eq", "ne"):
        side, variant, pay = _literal_option_side(bld.rec, defs, t)
        other = _ref_target(bld.rec, defs, args[1 - side])
        if other is None:
            raise Giveup("compared value is not a plain local")
        yes, no = (True, False) if meth == "eq" else (False, True)
        if variant == "None":
            some_b = done([assign(dst, use(konst("bool", no)), ln)])
            none_b = done([assign(dst, use(konst("bool", yes)), ln)])
        else:
            x = bld.local("_")
            rx = bld.local("&_")
            rv_ = bld.local("&_")
            v = bld.local("_")
            r = bld.local("bool")
            fin = done([assign(dst, use(mv(r)) if meth == "eq" else {"k": "un", "op": "Not", "a": mv(r)}, ln)])
            cmp_b = bld.block([assign(x, use({"copy": payload(other, OPTION, "Some", 1)}), ln), assign(v, use(pay), ln),
                               assign(rx, {"k": "ref", "bk": "shared", "place": {"l": x}}, ln), assign(rv_, {"k": "ref", "bk": "shared", "place": {"l": v}}, ln)],
                              call_term("std::cmp::PartialEq::eq", [mv(rx), mv(rv_)], {"l": r}, fin, ln))
            some_b = cmp_b
            none_b = done([assign(dst, use(konst("bool", no)), ln)])
        st, sw = discr_switch(bld, other, OPTION, {1: some_b, 0: none_b}, ln)
        cb.setdefault("stmts", []).extend(st)
        cb["term"] = sw
        cb["expanded"] = "Option::" + meth
        return
    recv = bld.local(bld.ty(plain(args[0])) if plain(args[0]) is not None else "_")
    pre = [assign(recv, use(args[0]), ln)]
    x = bld.local("_")
    some_val = use({"move": payload(recv, OPTION, "Some", 1)})
    if meth == "ok_or":
        some_b = done([assign(x, some_val, ln), assign(dst, variant_agg(RESULT, "Ok", 0, [mv(x)]), ln)])
        none_b = done([assign(dst, variant_agg(RESULT, "Err", 1, [args[1]]), ln)])
    elif meth == "unwrap_or":
        some_b = done([assign(dst, some_val, ln)])
        none_b = done([assign(dst, use(args[1]), ln)])
    elif meth == "copied":
        some_b = done([assign(x, use({"copy": {"l": recv, "p": [{"downcast": "Some", "vi": 1}, {"f": "0", "i": 0, "adt": OPTION}, "deref"]}}), ln),
                       assign(dst, variant_agg(OPTION, "Some", 1, [mv(x)]), ln)])
        none_b = done([assign(dst, variant_agg(OPTION, "None", 0, []), ln)])
    elif meth == "cloned":
        y = bld.local("_")
        fin = done([assign(dst, variant_agg(OPTION, "Some", 1, [mv(y)]), ln)])
        some_b = bld.block([assign(x, some_val, ln)], call_term("std::clone::Clone::clone", [mv(x)], {"l": y}, fin, ln))
        none_b = done([assign(dst, variant_agg(OPTION, "None", 0, []), ln)])
    else:
        raise Giveup("unhandled")
    st, sw = discr_switch(bld, recv, OPTION, {1: some_b, 0: none_b}, ln)
    cb.setdefault("stmts", []).extend(pre + st)
    cb["term"] = sw
    cb["expanded"] = "Option::" + meth


# ------------------------------------------------------------------------------------------------ bool::then / then_some

def bool_then(t):
    n = t.get("resolved") or t.get("callee") or ""
    m = re.match(r"^core::bool::<impl bool>::(then_some|then)$", n)
    return m.group(1) if m else None


def expand_bool_then(bld, defs, bid, meth):
    """`c.then_some(v)` / `c.then(f)` by definition: if c { Some(v) } else { None }  (v resp. f() evaluated as the source does)"""
    blocks = bld.blocks
    t = blocks[bid]["term"]
    ln = t.get("ln")
    args, dst, target = t["args"], t["dst"], t.get("target")
    if target is None or dst.get("p") or len(args) != 2:
        raise Giveup("no continuation")
    c = bld.local("bool")
    none_b = bld.block([assign(dst, variant_agg(OPTION, "None", 0, []), ln)], goto(target, ln))
    if meth == "then_some":
        some_b = bld.block([assign(dst, variant_agg(OPTION, "Some", 1, [args[1]]), ln)], goto(target, ln))
    else:
        if fn_item_path(args[1]) is not None or closure_of(bld.rec, defs, args[1]) is None:
            raise Giveup("not a closure")
        y = bld.local("_")
        fin = bld.block([assign(dst, variant_agg(OPTION, "Some", 1, [mv(y)]), ln)], goto(target, ln))
        some_b = emit_call(bld, defs, args[1], [], {"l": y}, ln, fin)
    cb = blocks[bid]
    cb.setdefault("stmts", []).append(assign(c, use(args[0]), ln))
    cb["term"] = bool_switch(mv(c), some_b, none_b, ln)
    cb["expanded"] = "bool::" + meth


# ------------------------------------------------------------------------------------------------ slice splitting

SLICE_SPLITS = {"core::slice::<impl [T]>::split_last": "last", "core::slice::<impl [T]>::split_first": "first",
                "core::slice::<impl [T]>::first": "first_elem", "core::slice::<impl [T]>::last": "last_elem"}


def slice_split(t):
    return SLICE_SPLITS.get(t.get("resolved") or t.get("callee") or "")


def expand_slice_split(bld, bid, which):
    """`s.split_last()` / `s.split_first()` by definition:
         if s.is_empty() { None } else { Some((&s[len - 1], &s[0 .. len - 1])) }        (last)
         if s.is_empty() { None } else { Some((&s[0], &s[1 .. len])) }                  (first)
       and `s.first()` / `s.last()`:
         if s.is_empty() { None } else { Some(&s[0]) }     resp.   Some(&s[len - 1])
    so that "peel one label and recurse / loop on the rest" has one shape whichever way it is written."""
    blocks = bld.blocks
    t = blocks[bid]["term"]
    ln = t.get("ln")
    args, dst, target = t["args"], t["dst"], t.get("target")
    if target is None or dst.get("p") or len(args) != 1 or plain(args[0]) is None:
        raise Giveup("no continuation")
    sty = bld.ty(plain(args[0]))
    m = re.match(r"^&(?:'\w+ )?\[(.+)\]$", sty or "")
    if not m:
        raise Giveup("receiver is not a shared slice")
    elem = m.group(1)
    gen = t.get("generics") or [elem]
    s = bld.local(sty)
    e = bld.local("bool")
    n = bld.local("usize")
    pos = bld.local("usize")
    one = bld.local("&" + elem)
    rng = bld.local("std::ops::Range<usize>")
    rest = bld.local(sty)
    tup = bld.local("(&%s, %s)" % (elem, sty))

    def slice_call(meth, cargs, cdst, ctarget):
        name = "core::slice::<impl [T]>::" + meth
        ct = call_term(name, cargs, cdst, ctarget, ln)
        ct["inst"] = ct["resolved_inst"] = "core::slice::<impl [%s]>::%s" % (elem, meth)
        ct["generics"] = list(gen)
        return ct

    elem_ref = {"k": "ref", "bk": "shared", "place": {"l": s, "p": ["deref", {"index": pos}]}}
    rng_agg = lambda a, b: {"k": "agg", "ak": "adt", "adt": "std::ops::Range", "variant": "Range", "vi": 0, "fields": ["start", "end"], "ops": [a, b]}
    if which in ("first_elem", "last_elem"):
        one_b = bld.block([assign(one, elem_ref, ln), assign(dst, variant_agg(OPTION, "Some", 1, [mv(one)]), ln)], goto(target, ln))
        if which == "first_elem":
            len_b = bld.block([assign(pos, use(konst("usize", 0)), ln)], goto(one_b, ln))
        else:
            sub_b = bld.block([assign(pos, {"k": "bin", "op": "Sub", "a": cp(n), "b": konst("usize", 1)}, ln)], goto(one_b, ln))
            len_b = bld.block([], slice_call("len", [cp(s)], {"l": n}, sub_b))
    else:
        fin = bld.block([assign(tup, {"k": "agg", "ak": "tuple", "ops": [mv(one), mv(rest)]}, ln),
                         assign(dst, variant_agg(OPTION, "Some", 1, [mv(tup)]), ln)], goto(target, ln))
        idx = {"k": "call", "callee": "std::ops::Index::index", "inst": "<[%s] as std::ops::Index<std::ops::Range<usize>>>::index" % elem,
               "generics": ["[%s]" % elem, "std::ops::Range<usize>"], "resolved": "core::slice::index::<impl std::ops::Index<I> for [T]>::index",
               "resolved_inst": "core::slice::index::<impl std::ops::Index<std::ops::Range<usize>> for [%s]>::index" % elem,
               "resolved_local": False, "callee_local": False, "args": [cp(s), mv(rng)], "dst": {"l": rest}, "target": fin, "ln": ln, "syn": True}
        if which == "last":
            body = [assign(pos, {"k": "bin", "op": "Sub", "a": cp(n), "b": konst("usize", 1)}, ln), assign(one, elem_ref, ln),
                    assign(rng, rng_agg(konst("usize", 0), cp(pos)), ln)]
        else:
            body = [assign(pos, use(konst("usize", 0)), ln), assign(one, elem_ref, ln), assign(rng, rng_agg(konst("usize", 1), cp(n)), ln)]
        some_b = bld.block(body, idx)
        len_b = bld.block([], slice_call("len", [cp(s)], {"l": n}, some_b))
    none_b = bld.block([assign(dst, variant_agg(OPTION, "None", 0, []), ln)], goto(target, ln))
    test_b = bld.block([], bool_switch(mv(e), none_b, len_b, ln))
    cb = blocks[bid]
    cb.setdefault("stmts", []).append(assign(s, use(args[0]), ln))
    cb["term"] = slice_call("is_empty", [cp(s)], {"l": e}, test_b)
    cb["expanded"] = "slice::" + which


# ------------------------------------------------------------------------------------------------ iterator pipelines

def container_kind(ty):
    ty = ty.lstrip("&").replace("mut ", "").strip()
    if ty.startswith("std::vec::Vec<"):
        return "vec"
    if ty.startswith("std::collections::HashSet<"):
        return "set"
    if ty.startswith("std::collections::HashMap<"):
        return "map"
    if ty.startswith("std::collections::VecDeque<"):
        return "deque"
    if ty == "std::string::String":
        return "string"
    return None


NEW_FN = {"string": "std::string::String::new", "vec": "std::vec::Vec::<T>::new", "set": "std::collections::HashSet::<T>::new", "map": "std::collections::HashMap::<K, V>::new",
          "deque": "std::collections::VecDeque::<T>::new"}
ADD_FN = {"string": "std::string::String::push", "vec": "std::vec::Vec::<T, A>::push", "set": "std::collections::HashSet::<T, S, A>::insert",
          "map": "std::collections::HashMap::<K, V, S, A>::insert", "deque": "std::collections::VecDeque::<T, A>::push_back"}


def pipeline(rec, defs, t):
    """walk back from the receiver of a terminal call: ([(kind, block, fn operand)] outermost last, source local) or None"""
    stages = []
    cur = plain(t["args"][0])
    seen = set()
    while cur is not None and cur not in seen:
        seen.add(cur)
        ds = [d for d in defs.get(cur, []) if d[2] != "partial"]
        if len(ds) != 1:
            return None
        d = ds[0]
        if d[2] == "assign":
            rv = rec["blocks"][d[0]]["stmts"][d[1]]["rv"]
            if rv.get("k") == "use" and plain(rv["op"]) is not None:
                cur = plain(rv["op"])
                continue
            if rv.get("k") == "ref" and not rv["place"].get("p"):
                cur = rv["place"]["l"]           # `&mut it` handed to any / all / position / find
                continue
            # any other value (a `lo..hi` range, an iterator built elsewhere) is the source: we call next() on it
            stages.reverse()
            return stages, cur
        ct = rec["blocks"][d[0]]["term"]
        n = ct.get("callee") or ""
        meth = tail(n)
        if n.startswith("std::iter::Iterator::") and meth in ADAPTORS and ADAPTORS[meth] is not None:
            if uses_of(rec, cur) != 1:
                return None
            stages.append((ADAPTORS[meth], d[0], ct["args"][1] if len(ct["args"]) > 1 else None))
            cur = plain(ct["args"][0])
            continue
        if n == "std::iter::IntoIterator::into_iter" and plain(ct["args"][0]) is not None:
            # into_iter() of something that is already the head of a pipeline (`x.iter().map(f)` handed to extend)
            inner = plain(ct["args"][0])
            ids = [x for x in defs.get(inner, []) if x[2] != "partial"]
            if len(ids) == 1 and ids[0][2] == "call":
                it = rec["blocks"][ids[0][0]]["term"]
                im = tail(it.get("callee") or "")
                if (it.get("callee") or "").startswith("std::iter::Iterator::") and im in ADAPTORS and ADAPTORS[im] is not None and uses_of(rec, inner) == 1:
                    stages.append(("skipcall", d[0], None))
                    cur = inner
                    continue
        # anything else that yields an iterator is the source: we call next() on `cur`
        stages.reverse()
        return stages, cur
    return None


def expand_pipeline(bld, defs, bid, kind):
    rec, blocks = bld.rec, bld.blocks
    t = blocks[bid]["term"]
    ln = t.get("ln")
    dst, target = t["dst"], t.get("target")
    if target is None or dst.get("p"):
        raise Giveup("no continuation")
    if kind == "extend":
        recv_op = t["args"][0]
        it_op = t["args"][1]
        fake = {"args": [it_op]}
        pl = pipeline(rec, defs, fake)
    else:
        pl = pipeline(rec, defs, t)
    if pl is None:
        raise Giveup("pipeline not recognised")
    stages, src = pl
    fn_ops = [s[2] for s in stages if s[2] is not None]
    term_fn = t["args"][1] if kind in ("for_each", "position", "any", "all", "find", "find_map") else (t["args"][2] if kind == "fold" else None)
    if sum(1 for s_ in stages if s_[0] == "flatten") > 1:
        raise Giveup("nested flatten")
    if not fn_ops and term_fn is None:
        raise Giveup("plumbing only")
    for op in fn_ops + ([term_fn] if term_fn is not None else []):
        if fn_item_path(op) is None and closure_of(rec, defs, op) is None:
            raise Giveup("function argument not found")
    src_ty = bld.ty(src)
    # --- loop skeleton
    pre = []
    exit_stmts = []
    idx = None
    if any(s[0] == "enumerate" for s in stages) or kind == "position":
        pass
    header = bld.block([], None)
    opt = bld.local("std::option::Option<_>")
    r = bld.local("&mut " + src_ty)
    # per-element chain is built back to front, so first create the action tail
    x_locals = []

    def new_x():
        l = bld.local("_")
        x_locals.append(l)
        return l

    # with a flatten stage the stages after it run once per inner element: they go back to the inner loop
    has_flatten = any(s_[0] == "flatten" for s_ in stages)
    inner_header = bld.block([], None) if has_flatten else None
    back = inner_header if has_flatten else header
    finish_stmts = []
    # terminal
    if kind == "collect":
        ck = container_kind(bld.ty(dst["l"]))
        if ck is None:
            raise Giveup("collect target %s" % bld.ty(dst["l"]))
        c_ref = bld.local("&mut " + bld.ty(dst["l"]))
        unit = bld.local("()")
        x_last = new_x()

        def action(xl):
            if ck == "map":
                args = [mv(c_ref), {"move": {"l": xl, "p": [{"f": "0", "i": 0}]}}, {"move": {"l": xl, "p": [{"f": "1", "i": 1}]}}]
            else:
                args = [mv(c_ref), mv(xl)]
            return bld.block([assign(c_ref, {"k": "ref", "bk": "mut", "place": {"l": dst["l"]}}, ln)], call_term(ADD_FN[ck], args, unit, back, ln))
        newb = None
        init_call = (NEW_FN[ck], dst)
    elif kind == "extend":
        rl = plain(recv_op)
        ck = container_kind(bld.ty(rl)) if rl is not None else None
        if ck is None:
            raise Giveup("extend target")
        unit = bld.local("()")
        x_last = new_x()

        def action(xl):
            if ck == "map":
                args = [cp(rl), {"move": {"l": xl, "p": [{"f": "0", "i": 0}]}}, {"move": {"l": xl, "p": [{"f": "1", "i": 1}]}}]
            else:
                args = [cp(rl), mv(xl)]
            return bld.block([], call_term(ADD_FN[ck], args, unit, back, ln))
        init_call = None
        finish_stmts = [assign(dst, {"k": "agg", "ak": "tuple", "ops": []}, ln)]
    elif kind == "for_each":
        unit = bld.local("()")
        x_last = new_x()

        def action(xl):
            return emit_call(bld, defs, term_fn, [mv(xl)], {"l": unit}, ln, back)
        init_call = None
        finish_stmts = [assign(dst, {"k": "agg", "ak": "tuple", "ops": []}, ln)]
    elif kind == "fold":
        # acc = init; for x in it { acc = f(acc, x) }
        x_last = new_x()
        init_call = None
        pre.append(assign(dst, use(t["args"][1]), ln))

        def action(xl):
            return emit_call(bld, defs, term_fn, [mv(dst["l"]), mv(xl)], dst, ln, back)
    elif kind in ("any", "all", "position", "find", "find_map"):
        x_last = new_x()
        init_call = None
        out = bld.block([], goto(target, ln))          # early exit continuation (dst already assigned)
        if kind == "position":
            idx = bld.local("usize", user=False)
            pre.append(assign(idx, use(konst("usize", 0)), ln))

        def action(xl):
            c = bld.local("bool")
            if kind == "any":
                hit = bld.block([assign(dst, use(konst("bool", True)), ln)], goto(out, ln))
                test = bld.block([], bool_switch(mv(c), hit, back, ln))
                return emit_call(bld, defs, term_fn, [mv(xl)], {"l": c}, ln, test)
            if kind == "all":
                miss = bld.block([assign(dst, use(konst("bool", False)), ln)], goto(out, ln))
                test = bld.block([], bool_switch(mv(c), back, miss, ln))
                return emit_call(bld, defs, term_fn, [mv(xl)], {"l": c}, ln, test)
            if kind == "position":
                hit = bld.block([assign(dst, variant_agg(OPTION, "Some", 1, [cp(idx)]), ln)], goto(out, ln))
                step = bld.block([assign(idx, {"k": "bin", "op": "Add", "a": cp(idx), "b": konst("usize", 1)}, ln)], goto(back, ln))
                test = bld.block([], bool_switch(mv(c), hit, step, ln))
                return emit_call(bld, defs, term_fn, [mv(xl)], {"l": c}, ln, test)
            if kind == "find":
                rr = bld.local("&_")
                hit = bld.block([assign(dst, variant_agg(OPTION, "Some", 1, [mv(xl)]), ln)], goto(out, ln))
                test = bld.block([], bool_switch(mv(c), hit, back, ln))
                body = emit_call(bld, defs, term_fn, [mv(rr)], {"l": c}, ln, test)
                return bld.block([assign(rr, {"k": "ref", "bk": "shared", "place": {"l": xl}}, ln)], goto(body, ln))
            if kind == "find_map":
                o = bld.local("std::option::Option<_>")
                hit = bld.block([assign(dst, use(mv(o)), ln)], goto(out, ln))
                st, sw = discr_switch(bld, o, OPTION, {1: hit, 0: back}, ln)
                test = bld.block(st, sw)
                return emit_call(bld, defs, term_fn, [mv(xl)], {"l": o}, ln, test)
        if kind in ("any",):
            finish_stmts = [assign(dst, use(konst("bool", False)), ln)]
        elif kind == "all":
            finish_stmts = [assign(dst, use(konst("bool", True)), ln)]
        else:
            finish_stmts = [assign(dst, variant_agg(OPTION, "None", 0, []), ln)]
    else:
        raise Giveup("terminal")
    # --- stages, last first
    entry = action(x_last)
    cur_x = x_last
    for skind, sblock, fop in reversed(stages):
        if skind in ("id", "skipcall"):
            continue
        xin = new_x()
        if skind == "map":
            entry = emit_call(bld, defs, fop, [mv(xin)], {"l": cur_x}, ln, entry)
        elif skind == "filter":
            rr = bld.local("&_")
            c = bld.local("bool")
            keep = bld.block([assign(cur_x, use(mv(xin)), ln)], goto(entry, ln))
            test = bld.block([], bool_switch(mv(c), keep, back, ln))
            body = emit_call(bld, defs, fop, [mv(rr)], {"l": c}, ln, test)
            entry = bld.block([assign(rr, {"k": "ref", "bk": "shared", "place": {"l": xin}}, ln)], goto(body, ln))
        elif skind == "filter_map":
            o = bld.local("std::option::Option<_>")
            keep = bld.block([assign(cur_x, use({"move": payload(o, OPTION, "Some", 1)}), ln)], goto(entry, ln))
            st, sw = discr_switch(bld, o, OPTION, {1: keep, 0: back}, ln)
            test = bld.block(st, sw)
            entry = emit_call(bld, defs, fop, [mv(xin)], {"l": o}, ln, test)
        elif skind == "flatten":
            # for y in xin { <stages after> }   -  the same two nested loops a `for` over the elements would give
            it = bld.local("_")
            iopt = bld.local("std::option::Option<_>")
            ir = bld.local("&mut _")
            elem_b = bld.block([assign(cur_x, use({"move": payload(iopt, OPTION, "Some", 1)}), ln)], goto(entry, ln))
            st, sw = discr_switch(bld, iopt, OPTION, {0: header, 1: elem_b}, ln)
            isel = bld.block(st, sw)
            ih = blocks[inner_header]
            ih["stmts"] = [assign(ir, {"k": "ref", "bk": "mut", "place": {"l": it}}, ln)]
            ih["term"] = call_term("std::iter::Iterator::next", [mv(ir)], iopt, isel, ln)
            ih["loop_header"] = True
            entry = bld.block([], call_term("std::iter::IntoIterator::into_iter", [mv(xin)], {"l": it}, inner_header, ln))
            back = header
        elif skind == "enumerate":
            i = bld.local("usize")
            pre.append(assign(i, use(konst("usize", 0)), ln))
            entry = bld.block([assign(cur_x, {"k": "agg", "ak": "tuple", "ops": [cp(i), mv(xin)]}, ln),
                               assign(i, {"k": "bin", "op": "Add", "a": cp(i), "b": konst("usize", 1)}, ln)], goto(entry, ln))
        else:
            raise Giveup("stage " + skind)
        cur_x = xin
    # --- header / element / exit
    fin = bld.block(finish_stmts, goto(target, ln))
    elem = bld.block([assign(cur_x, use({"move": payload(opt, OPTION, "Some", 1)}), ln)], goto(entry, ln))
    st, sw = discr_switch(bld, opt, OPTION, {0: fin, 1: elem}, ln)
    sel = bld.block(st, sw)
    hb = blocks[header]
    hb["stmts"] = [assign(r, {"k": "ref", "bk": "mut", "place": {"l": src}}, ln)]
    hb["term"] = call_term("std::iter::Iterator::next", [mv(r)], opt, sel, ln, resolved="<%s as std::iter::Iterator>::next" % src_ty)
    hb["loop_header"] = True
    # --- rewire: the adaptor calls become gotos, the terminal call becomes the loop entry
    for skind, sblock, fop in stages:
        sb = blocks[sblock]
        st_ = sb["term"]
        sb["term"] = goto(st_["target"], st_.get("ln"))
        sb["expanded"] = "adaptor"
    cb = blocks[bid]
    cb.setdefault("stmts", []).extend(pre)
    if init_call is not None:
        cb["term"] = call_term(init_call[0], [], init_call[1], header, ln)
    else:
        cb["term"] = goto(header, ln)
    cb["expanded"] = kind


# ------------------------------------------------------------------------------------------------ awaits of new async helpers

def async_helper(t, fns, known):
    """(helper key, coroutine key, [argument index per captured variable]) when t calls a local `async fn` that the
    rules do not know by name (an extracted helper): its body lives in the coroutine `helper::{closure#0}`"""
    if known is None:
        return None
    k = t.get("resolved") if t.get("resolved") in fns else (t.get("callee") if t.get("callee") in fns else None)
    if k is None or k in known:
        return None
    h = fns[k]
    if not h.get("async") or not h.get("blocks"):
        return None
    for b in h["blocks"]:
        for st in b.get("stmts") or []:
            rv = st.get("rv") or {}
            if st.get("k") == "assign" and st["dst"].get("l") == 0 and rv.get("k") == "agg" and rv.get("ak") == "coroutine" and rv.get("def") in fns:
                idx = []
                for o in rv.get("ops", []):
                    l = plain(o)
                    if l is None or not (1 <= l <= h["arg_count"]):
                        return None
                    idx.append(l - 1)
                return k, rv["def"], idx
    return None


def expand_await(bld, defs, bid, info):
    rec, fns, blocks = bld.rec, bld.fns, bld.blocks
    hk, ck, idx = info
    t = blocks[bid]["term"]
    ln = t.get("ln")
    body = fns[ck]
    if len(body["blocks"]) > 2000:
        raise Giveup("helper too large")
    # the await that consumes the returned future: into_future .. Pin::new_unchecked .. poll -> switch(Ready | Pending)
    cur = t.get("target")
    poll_b = None
    for _ in range(14):
        if cur is None:
            break
        tt = blocks[cur].get("term") or {}
        if tt.get("k") == "call" and (tt.get("callee") or "") == "std::future::Future::poll":
            poll_b = cur
            break
        if tt.get("k") in ("goto", "call", "drop") and tt.get("target") is not None:
            cur = tt["target"]
        else:
            break
    if poll_b is None:
        raise Giveup("no await of the returned future found")
    pt = blocks[poll_b]["term"]
    pl = pt["dst"]["l"]
    sw = blocks[pt["target"]].get("term") or {}
    if sw.get("k") != "switch":
        raise Giveup("poll result not switched on")
    ready = [tb for v, tb in sw["targets"] if v == 0]
    if not ready:
        raise Giveup("no Ready arm")
    ready = ready[0]
    lbase, bbase = len(bld.locals), len(bld.blocks)
    lmap = lambda l: l + lbase
    bmap = lambda b: b + bbase
    for lr in body["locals"]:
        nl = dict(lr)
        nl["l"] = lmap(lr["l"])
        nl["inlined_from"] = ck
        bld.locals.append(nl)
    for v in body.get("vars", []):
        rec.setdefault("vars", []).append({"name": v["name"], "place": _renumber(v["place"], lmap, bmap), "inlined_from": ck})
    for hb in body["blocks"]:
        nb = _renumber(hb, lmap, bmap)
        nb["id"] = bmap(hb["id"])
        nb["inlined_from"] = ck
        tt = nb.get("term")
        if tt and tt["k"] == "return":
            nb.setdefault("stmts", []).append(assign(pl, variant_agg("std::task::Poll", "Ready", 0, [cp(lmap(0))]), tt.get("ln")))
            nb["term"] = goto(ready, tt.get("ln"))
        bld.blocks.append(nb)
    # the Ready arm reads `(poll_result as Ready).0`: let it read the helper's return value directly (same value, and
    # what is known about its parts - e.g. a flag in a returned tuple - stays visible to the dataflow)
    cur_r = ready
    for _ in range(4):
        rb = blocks[cur_r]
        hit = False
        for st in rb.get("stmts") or []:
            rv = st.get("rv") or {}
            if st.get("k") == "assign" and rv.get("k") == "use":
                o = rv["op"]
                for kk in ("move", "copy"):
                    if kk in o and o[kk].get("l") == pl and len(o[kk].get("p") or []) == 2 and isinstance(o[kk]["p"][0], dict) and o[kk]["p"][0].get("downcast") == "Ready":
                        st["rv"] = use(mv(lmap(0)))
                        hit = True
        tt = rb.get("term") or {}
        if hit or tt.get("k") != "goto":
            break
        cur_r = tt["target"]
    rec.setdefault("spliced", []).append(ck)
    env = bld.local(body["locals"][1]["ty"])
    pre = [assign(env, {"k": "agg", "ak": "coroutine", "def": ck, "ops": [t["args"][i] for i in idx]}, ln),
           assign(lmap(1), use(mv(env)), ln)]
    if len(body["locals"]) > 2 and len(rec["locals"]) > 2 and rec["locals"][2]["ty"] == body["locals"][2]["ty"]:
        pre.append(assign(lmap(2), use(cp(2)), ln))
    cb = blocks[bid]
    cb.setdefault("stmts", []).extend(pre)
    cb["term"] = goto(bmap(0), ln)
    cb["expanded"] = "await:" + hk


def terminal_kind(t):
    n = t.get("callee") or ""
    if n.startswith("std::iter::Iterator::") and tail(n) in TERMINALS:
        return tail(n)
    if n == "std::iter::Extend::extend" and len(t.get("args", [])) == 2:
        return "extend"
    return None


def expand_fn(rec, fns, known=None):
    """rewrite one function; returns the list of expansions made (possibly empty)"""
    if not rec.get("blocks") or rec.get("derived") or rec.get("from_expansion"):
        return rec, []
    done = []
    work = None
    for _ in range(40):
        target = None
        src = work or rec
        for b in src["blocks"]:
            t = b.get("term")
            if not t or t.get("k") != "call" or t.get("syn") or b.get("noexpand") or t.get("exp"):
                continue
            vc = value_combinator(t)
            tk = terminal_kind(t)
            aw = async_helper(t, fns, known) if rec.get("coroutine") else None
            sp = slice_split(t)
            bt = bool_then(t)
            if bt:
                sp = "bool:" + bt
            if not (vc or tk or aw or sp):
                op_ = option_plain(t, src, defs_of(src)) if ("option::Option" in (t.get("callee") or "") or "option::Option" in (t.get("resolved") or "")) else None
                if op_:
                    sp = "opt:" + op_
            if vc or tk or aw or sp:
                target = (b["id"], vc, tk, aw, sp)
                break
        if target is None:
            break
        if work is None:
            work = copy.deepcopy(rec)
        bid, vc, tk, aw, sp = target
        snapshot = (len(work["blocks"]), len(work["locals"]), copy.deepcopy(work["blocks"][bid]), len(work.get("vars", [])))
        touched = None
        try:
            bld = Builder(work, fns)
            defs = defs_of(work)
            if aw:
                expand_await(bld, defs, bid, aw)
                done.append(("await " + aw[0], snapshot[2]["term"].get("ln")))
            elif sp and sp.startswith("opt:"):
                expand_option_plain(bld, defs, bid, sp[4:])
                done.append(("Option::" + sp[4:], snapshot[2]["term"].get("ln")))
            elif sp and sp.startswith("bool:"):
                expand_bool_then(bld, defs, bid, sp[5:])
                done.append(("bool::" + sp[5:], snapshot[2]["term"].get("ln")))
            elif sp:
                expand_slice_split(bld, bid, sp)
                done.append(("slice::" + sp, snapshot[2]["term"].get("ln")))
            elif vc:
                expand_value(bld, defs, bid, *vc)
                done.append(("%s::%s" % vc, work["blocks"][bid].get("term", {}).get("ln")))
            else:
                # remember adaptor blocks to restore on failure
                touched = {b["id"]: copy.deepcopy(b) for b in work["blocks"][:snapshot[0]]}
                expand_pipeline(bld, defs, bid, tk)
                done.append((tk, snapshot[2]["term"].get("ln")))
        except Giveup:
            # roll back whatever was appended and mark the call as not expandable
            del work["blocks"][snapshot[0]:]
            del work["locals"][snapshot[1]:]
            if "vars" in work:
                del work["vars"][snapshot[3]:]
            if touched is not None:
                for i_, ob in touched.items():
                    work["blocks"][i_] = ob
            work["blocks"][bid] = snapshot[2]
            work["blocks"][bid]["noexpand"] = True
    if work is None or not done:
        return rec, []
    return work, done


def expand_all(fns, known=None):
    report = {}
    for k in sorted(fns):
        try:
            nr, done = expand_fn(fns[k], fns, known)
        except Exception as ex:      # a shape this pass did not foresee: leave the function as the compiler gave it
            report.setdefault("!errors", []).append((k, repr(ex)[:120]))
            continue
        if done:
            fns[k] = nr
            report[k] = done
    return report
