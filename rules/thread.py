"""Normal form: a condition that was first stored in a bool and then branched on is threaded back into branches.

`if a || !s.is_empty() { X } else { Y }` is lowered to direct branching: every edge carries the fact it tests.  The
equivalent `let c = a || !s.is_empty(); if c { X } else { Y }` - which is what `(a || ..).then_some(v)`,
`let ok = ..; ok.then(..)` and similar behaviour-preserving rewrites produce - first merges the alternatives into one
bool local and then switches on it, so no single edge carries "s is not empty" any more.  This pass duplicates the
(call-free, loop-free, single-entry) chain of blocks between the merge and the switch once per predecessor of the
merge, which gives back the first shape: in every copy the switched-on local has one reaching definition.

It is a transformation of the model (path duplication); it adds no path and removes none."""
import copy

MAX_CHAIN = 8
MAX_PREDS = 6


def _succ_targets(t):
    if not t:
        return []
    k = t["k"]
    if k == "switch":
        return [b for _, b in t["targets"]] + [t["otherwise"]]
    if "target" in t and t["target"] is not None:
        return [t["target"]]
    return []


def _retarget(t, old, new):
    if t["k"] == "switch":
        t["targets"] = [[v, new if b == old else b] for v, b in t["targets"]]
        if t["otherwise"] == old:
            t["otherwise"] = new
    elif t.get("target") == old:
        t["target"] = new


def _plain_local(op):
    for k in ("move", "copy"):
        if isinstance(op, dict) and k in op and not op[k].get("p"):
            return op[k]["l"]
    return None


def _assigned_locals(b):
    out = set()
    for st in b.get("stmts") or []:
        if st.get("k") == "assign" and not st["dst"].get("p"):
            out.add(st["dst"]["l"])
    return out


def thread_fn(rec):
    blocks = rec.get("blocks")
    if not blocks or rec.get("derived") or rec.get("from_expansion"):
        return rec, 0
    work = None
    done = 0
    tried = set()
    for _ in range(20):
        src = work or rec
        bl = src["blocks"]
        preds = {}
        for b in bl:
            for s in _succ_targets(b.get("term")):
                preds.setdefault(s, []).append(b["id"])
        cand = None
        for b in bl:
            t = b.get("term")
            if not t or t["k"] != "switch" or t.get("ty") != "bool" or b["id"] in tried or b.get("threaded"):
                continue
            x = _plain_local(t["discr"])
            if x is None:
                continue
            # walk back over single-predecessor, call-free blocks to the merge
            chain = [b["id"]]
            cur = b["id"]
            ok = True
            roots = {x}
            while True:
                # follow `x = move y` inside the current block
                for st in reversed(bl[cur].get("stmts") or []):
                    if st.get("k") == "assign" and not st["dst"].get("p") and st["dst"]["l"] in roots and st["rv"]["k"] == "use":
                        y = _plain_local(st["rv"]["op"])
                        if y is not None:
                            roots.add(y)
                ps = preds.get(cur, [])
                if len(ps) != 1:
                    break
                p = ps[0]
                pt = bl[p].get("term")
                if p in chain or not pt or pt["k"] not in ("goto", "drop") or len(chain) >= MAX_CHAIN:
                    ok = False
                    break
                chain.append(p)
                cur = p
            if not ok:
                continue
            merge = cur
            ps = preds.get(merge, [])
            if len(ps) < 2 or len(ps) > MAX_PREDS or len(set(ps)) != len(ps) or merge == 0:
                continue
            if any(p in chain for p in ps):
                continue               # a loop through the chain
            # every predecessor must end with a jump to the merge and assign one of the roots itself, and nothing in the
            # chain may assign a root from anything but another root
            if not all(bl[p].get("term") and bl[p]["term"]["k"] == "goto" and (_assigned_locals(bl[p]) & roots) for p in ps):
                continue
            bad = False
            for c in chain:
                for st in bl[c].get("stmts") or []:
                    if st.get("k") == "assign" and not st["dst"].get("p") and st["dst"]["l"] in roots:
                        if not (st["rv"]["k"] == "use" and _plain_local(st["rv"]["op"]) in roots):
                            bad = True
            if bad:
                continue
            cand = (b["id"], list(reversed(chain)), ps)
            break
        if cand is None:
            break
        sid, chain, ps = cand
        tried.add(sid)
        if work is None:
            work = copy.deepcopy(rec)
        bl = work["blocks"]
        for p in ps[1:]:
            base = len(bl)
            idmap = {c: base + i for i, c in enumerate(chain)}
            for c in chain:
                nb = copy.deepcopy(bl[c])
                nb["id"] = idmap[c]
                nb["threaded"] = True
                nb["clone_of"] = bl[c].get("clone_of", c)
                t = nb.get("term")
                if t and c != chain[-1]:
                    for old, new in idmap.items():
                        _retarget(t, old, new)
                bl.append(nb)
            _retarget(bl[p]["term"], chain[0], idmap[chain[0]])
        bl[sid]["threaded"] = True
        done += 1
    if work is None or not done:
        return rec, 0
    return work, done


def thread_all(fns):
    report = {}
    for k in sorted(fns):
        try:
            nr, n = thread_fn(fns[k])
        except Exception as ex:
            report.setdefault("!errors", []).append((k, repr(ex)[:120]))
            continue
        if n:
            fns[k] = nr
            report[k] = n
    return report
