"""Panic-site enumeration and discharge (PANIC-FREE rules of C03/C17/C08/C09)."""
import re
from . import analysis as A

# externals that can panic (callee / resolved name suffixes)
PANIC_CALLS = (
    "Option::<T>::unwrap", "Option::<T>::expect", "Result::<T, E>::unwrap", "Result::<T, E>::expect",
    "Result::<T, E>::unwrap_err", "Result::<T, E>::expect_err",
    "ops::Index::index", "ops::IndexMut::index_mut",
    "slice::<impl [T]>::copy_from_slice", "slice::<impl [T]>::split_at", "slice::<impl [T]>::swap", "slice::<impl [T]>::split_at_mut",
    "Vec::<T, A>::swap_remove", "Vec::<T, A>::remove", "Vec::<T, A>::insert", "Vec::<T, A>::drain", "Vec::<T, A>::split_off",
    "String::remove", "String::insert", "String::truncate", "String::split_off",
    "RefCell::<T>::borrow", "RefCell::<T>::borrow_mut",
    "core::panicking::panic", "core::panicking::panic_fmt", "std::rt::begin_panic", "core::panicking::panic_display",
    "core::panicking::panic_explicit", "core::panicking::unreachable_display", "std::rt::panic_fmt", "core::panicking::assert_failed",
    "bytes::BufMut::put_slice", "str::<impl str>::split_at",
)
TIME_OPS = ("<std::time::Instant as std::ops::Add<std::time::Duration>>::add", "<std::time::Instant as std::ops::Sub<std::time::Duration>>::sub",
            "<std::time::Instant as std::ops::Sub>::sub", "<std::time::Duration as std::ops::Add>::add", "<std::time::Duration as std::ops::Sub>::sub",
            "<std::time::Duration as std::ops::Mul<u32>>::mul")


def is_panic_call(t):
    names = [t.get("callee") or "", t.get("resolved") or ""]
    for n in names:
        if any(n.endswith(s) for s in PANIC_CALLS):
            return True
        if n in TIME_OPS:
            return True
    return False


def sites(prog, fns):
    """yield (fn, block, kind, detail) for every panic-capable site in the given functions."""
    for f in fns:
        reach = f.reachable(0)
        for b in f.live_blocks():
            if b not in reach:
                continue
            t = f.term(b)
            if t["k"] == "assert":
                yield f, b, "assert:" + t["msg"].split("(")[0], t
            elif t["k"] in ("call", "tailcall") and is_panic_call(t):
                n = (t.get("callee") or "")
                yield f, b, "call:" + n.split("::")[-1], t
            elif t["k"] == "call" and t.get("target") is None and not (t.get("callee") or "").endswith("process::exit"):
                yield f, b, "call:diverges", t


def reach_set(prog, roots, stop=()):
    keys = prog.reachable_fns(roots)
    out = []
    for k in sorted(keys):
        if k in stop:
            continue
        out.extend(prog.family(k))
    return out


# ------------------------------------------------------------------------------------ linear forms
# L = ({atom: coef}, const) meaning sum(coef*atom) + const; constraints are L <= 0.  All atoms are
# unsigned machine integers (usize / u8 / u16 / u32), hence >= 0.

LEN_CALLS = ("Vec::<T, A>::len", "<impl [T]>::len", "<impl str>::len", "String::len", "BytesMut::len", "Bytes::len", "VecDeque::<T, A>::len",
             "HashSet::<T, S, A>::len", "HashMap::<K, V, S, A>::len", "HashSet::<T, S>::len", "HashMap::<K, V, S>::len")


def _atom(e):
    ps = A.path_str(e)
    if ps is not None:
        return ps
    return repr(A.strip_refs(e))


# ------------------------------------------------------------------------------------ slice-length summaries
# `fn take(&mut self, n) -> Option<&[u8]>` returns, when it returns Some, the slice
# `&self.octets[self.position..self.position + n]`, whose length is n.  A caller that indexes the result of
# `take(2)?` relies on that; the summary is derived from the callee's MIR, not assumed.

_PROG = None
_SUMMARIES = {}
_SLICE_START = {}       # key -> {(base path, start path)} of the slices a summarised function returns


def set_program(prog):
    global _PROG, _SUMMARIES
    if _PROG is not prog:
        _PROG = prog
        _SUMMARIES = {}
        _SLICE_START.clear()


def slice_len_summary(key):
    """for a local function returning (an Option / Result of) a slice: ('param', i) / ('const', n) when every
    returned slice is `&base[s..e]` with e - s equal to that parameter / constant; None otherwise."""
    if key in _SUMMARIES:
        return _SUMMARIES[key]
    _SUMMARIES[key] = None
    f = _PROG.fns.get(key) if _PROG else None
    if f is None or f.rec.get("async"):
        return None
    res = A.Resolver(f)
    outs = set()
    for b, e in A.return_exprs(f, res):
        pe = A.peel_refs(e)
        if pe[0] == "agg" and pe[2] in ("None", "Err"):
            continue
        if pe[0] == "agg" and pe[2] in ("Some", "Ok"):
            pe = A.peel_refs(dict(pe[3])["0"])
        if pe[0] == "call" and (pe[4] or pe[1]).endswith("ops::Index::index") and len(pe[2]) == 2:
            rng = A.peel_refs(pe[2][1])
            if rng[0] == "agg" and rng[1].endswith("ops::Range"):
                d = dict(rng[3])
                _SLICE_START.setdefault(key, set()).add((A.path_str(pe[2][0]), A.path_str(d["start"])))
                diff = sub(lin(d["end"]), lin(d["start"]))
                if not diff[0]:
                    outs.add(("const", diff[1]))
                    continue
                if diff[1] == 0 and len(diff[0]) == 1:
                    (atom, coef), = diff[0].items()
                    if coef == 1 and atom.startswith("param") and atom[5:].isdigit():
                        outs.add(("param", int(atom[5:])))
                        continue
        outs.add(None)
    r = outs.pop() if len(outs) == 1 else None
    _SUMMARIES[key] = r
    return r


def _summary_len(x, depth=0):
    """linear form of len(x) when x is (the unwrapped payload of) a call to a summarised local function."""
    x = A.peel_refs(x)
    for _ in range(8):
        if x[0] == "field" and x[2] == "0" and x[1][0] == "downcast" and x[1][2] in ("Continue", "Some", "Ok"):
            x = A.peel_refs(x[1][1])
        elif x[0] == "call" and x[2] and ((x[4] or "").endswith("Try::branch") or x[1].endswith("Option::<T>::ok_or") or x[1].endswith("::unwrap") or x[1].endswith("::expect")):
            x = A.peel_refs(x[2][0])
        else:
            break
    if x[0] == "call" and _PROG is not None and x[1] in _PROG.fns:
        sm = slice_len_summary(x[1])
        if sm is not None:
            if sm[0] == "const":
                return ({}, sm[1])
            if sm[1] - 1 < len(x[2]):
                return lin(x[2][sm[1] - 1], depth + 1)
    return None


def lin(e, depth=0):
    """linear form of an integer expression: ({atom: coef}, const)."""
    e = A.peel_refs(e)
    k = e[0]
    if depth > 12:
        return ({_atom(e): 1}, 0)
    if (k == "call" and any(e[1].endswith(s_) for s_ in LEN_CALLS) and e[2]) or (k == "un" and e[1] == "PtrMetadata"):
        sl = _summary_len(e[2][0] if k == "call" else e[2], depth)
        if sl is not None:
            return sl
    if k == "const" and isinstance(e[2], int) and not isinstance(e[2], bool):
        return ({}, e[2])
    if k == "field" and e[2] == "0" and A.peel_refs(e[1])[0] == "bin" and A.peel_refs(e[1])[1].endswith("WithOverflow"):
        return lin(A.peel_refs(e[1]), depth + 1)
    if k == "bin":
        op = e[1].replace("WithOverflow", "").replace("Unchecked", "")
        if op in ("Add", "Sub"):
            a, ca = lin(e[2], depth + 1)
            b, cb = lin(e[3], depth + 1)
            s = 1 if op == "Add" else -1
            out = dict(a)
            for t, c in b.items():
                out[t] = out.get(t, 0) + s * c
                if out[t] == 0:
                    del out[t]
            return (out, ca + s * cb)
    if k == "cast" and isinstance(e[2], str) and e[2] in ("usize", "u64", "u32", "u16", "u128", "i64", "isize"):
        # integer widening of an unsigned value keeps the value (narrowing is not followed)
        return lin(e[1], depth + 1)
    if k == "call" and any(e[1].endswith(s) for s in LEN_CALLS) and e[2]:
        return ({"len(%s)" % _atom(e[2][0]): 1}, 0)
    if k == "un" and e[1] == "PtrMetadata":
        return ({"len(%s)" % _atom(e[2]): 1}, 0)
    if k == "call" and (e[4] or e[1]).endswith("Into::into") or (k == "call" and e[1].endswith("From<u8>>::from") or k == "call" and e[1].endswith("From<u16>>::from")):
        if e[2]:
            return lin(e[2][0], depth + 1)
    return ({_atom(e): 1}, 0)


def sub(l1, l2):
    out = dict(l1[0])
    for t, c in l2[0].items():
        out[t] = out.get(t, 0) - c
        if out[t] == 0:
            del out[t]
    return (out, l1[1] - l2[1])


def le(a, b, strict=False):
    """constraint a <= b (or a < b) as a linear form L <= 0"""
    l = sub(lin(a) if not isinstance(a, tuple) or a and isinstance(a[0], str) else a, lin(b) if not isinstance(b, tuple) or b and isinstance(b[0], str) else b)
    return (l[0], l[1] + (1 if strict else 0))


def trivially_true(g):
    """sum(coef*atom) + c <= 0 for all non-negative atoms"""
    return all(c < 0 for c in g[0].values()) and g[1] <= 0


def implies(f, g):
    """does (f <= 0) imply (g <= 0), atoms being non-negative?  g - f must be <= 0 identically."""
    d = sub(g, f)
    return trivially_true(d) or (not d[0] and d[1] <= 0)


def fact_constraints(fc, prog):
    """linear constraints (L <= 0) implied by one edge fact."""
    out = []
    if fc[0] == "cmp":
        op, a, b = fc[1], fc[2], fc[3]
        try:
            la, lb = lin(a), lin(b)
        except Exception:
            return out
        if op == "Lt":
            out.append(_c(la, lb, 1))
        elif op == "Le":
            out.append(_c(la, lb, 0))
        elif op == "Gt":
            out.append(_c(lb, la, 1))
        elif op == "Ge":
            out.append(_c(lb, la, 0))
        elif op == "Eq":
            out.append(_c(la, lb, 0))
            out.append(_c(lb, la, 0))
    elif fc[0] == "inteq":
        l = lin(fc[1])
        v = ({}, fc[2])
        out.append(_c(l, v, 0))
        out.append(_c(v, l, 0))
    elif fc[0] == "is" and fc[1] == "Some":
        c = A.peel_refs(fc[2])
        if c[0] == "call" and c[1].endswith("::next") and c[2]:
            base = c[2][0]
            while True:
                base = A.peel(base)   # into_iter / iter are transparent
                if base[0] == "call" and (base[1].endswith("Iterator::enumerate") or base[1].endswith("Iterator::rev") or base[1].endswith("Iterator::peekable")) and base[2]:
                    base = base[2][0]
                else:
                    break
            if base[0] not in ("agg", "const"):
                out.append(_c(({}, 1), ({"len(%s)" % _atom(base): 1}, 0), 0))   # an element was yielded: 1 <= len
    elif fc[0] == "call":
        name, args, truth = fc[1], fc[2], fc[3]
        if name.endswith("::is_empty") and args:
            ln = ({"len(%s)" % _atom(args[0]): 1}, 0)
            if truth is False:
                out.append(_c(({}, 1), ln, 0))   # 1 <= len
            else:
                out.append(_c(ln, ({}, 0), 0))   # len <= 0
        elif name.endswith("DomainName::is_subdomain_of") and truth is True and len(args) == 2:
            # a.labels ends with b.labels  =>  len(b.labels) <= len(a.labels)
            la = ({"len(%s.labels)" % _atom(args[0]): 1}, 0)
            lb = ({"len(%s.labels)" % _atom(args[1]): 1}, 0)
            out.append(_c(lb, la, 0))
    return out


def _c(la, lb, strict):
    d = sub(la, lb)
    return (d[0], d[1] + strict)


def intrinsic_constraints(e):
    """constraints carried by a term itself: the element of `lo..hi` is >= lo and < hi."""
    out = []
    for x in A.walk(e):
        x0 = A.peel_refs(x)
        if x0[0] == "field" and x0[2] == "0" and x0[1][0] == "downcast" and x0[1][2] == "Some":
            c = A.peel_refs(x0[1][1])
            if c[0] == "call" and c[1].endswith("Range<A>>::next") and c[2]:
                it = A.peel(c[2][0])
                if it[0] == "agg" and it[1] == "std::ops::Range":
                    d = dict(it[3])
                    out.append(_c(lin(x0), lin(d["end"]), 1))
                    out.append(_c(lin(d["start"]), lin(x0), 0))
        # the index handed out by `coll.iter().enumerate()` is below coll.len()
        if x0[0] == "field" and x0[2] == "0":
            coll = A.ascending_index_of(x0)
            if coll is not None and not (coll[0] == "agg"):
                out.append(_c(lin(x0), ({"len(%s)" % _atom(coll): 1}, 0), 1))
        # `s.split(pat)` yields at least one item for every s (an empty s gives [""]), so a collection of all its items is non-empty
        if x0[0] == "call" and any(x0[1].endswith(s_) for s_ in LEN_CALLS) and x0[2]:
            src = A.peel(x0[2][0])
            if src[0] == "call" and src[1].endswith("Iterator::collect") and src[2]:
                it = A.peel(src[2][0])
                if it[0] == "call" and it[1].endswith("<impl str>::split"):
                    l = lin(x0)
                    out.append(({k: -v for k, v in l[0].items()}, 1 - l[1]))
    return out


class Prover:
    def __init__(self, fn, res=None, conds=None):
        self.fn = fn
        self.res = res or A.Resolver(fn)
        self.conds = conds or A.Conds(fn, self.res)
        self._stores = None

    def prove(self, block, goal, terms=()):
        """is `goal` (L <= 0) established on every path to `block`?  returns (ok, how)"""
        if trivially_true(goal):
            return True, "holds for all unsigned values"
        for t in terms:
            for ic in intrinsic_constraints(t):
                if implies(ic, goal):
                    why = self._resized_in_loop(block, goal)
                    if why:
                        return False, why
                    return True, "range-loop index (lo <= i < hi)"
        prog = self.fn.prog
        def pred(fc):
            return any(implies(c, goal) for c in fact_constraints(fc, prog))
        ok, edges = self.conds.guarded(block, pred)
        if ok:
            if self._mutated_between(edges, block, goal):
                return False, "guard found but a compared place is written between the guard and the use"
            return True, "guarded by %d dominating comparison edge(s)" % len(edges)
        return False, "no dominating comparison establishes it"

    def _resized_in_loop(self, block, goal):
        """`for i in 0..v.len() { .. v[i] .. }` is only in bounds while v keeps its length: a call that resizes the
        container inside the loop, after which the loop goes round again, invalidates the bound captured at loop entry"""
        fn = self.fn
        atoms = [a for a in goal[0] if a.startswith("len(")]
        if not atoms:
            return None
        loops = [(h, body) for h, body in fn.loops() if block in body]
        for h, body in loops:
            for b in body:
                t = fn.term(b)
                if t["k"] != "call" or not t["args"]:
                    continue
                n = t.get("callee") or ""
                if not any(n.endswith(m) for m in VEC_MUTATORS) or not ("Vec" in n or "VecDeque" in n or "String" in n):
                    continue
                recv = self.res.call_expr(t, b)[2][0]
                if any(a == "len(%s)" % _atom(recv) for a in atoms) and t.get("target") is not None and h in fn.reachable(t["target"]):
                    return "the container is resized inside the loop (%s) and the loop continues: the index bound taken at loop entry no longer holds" % A.short(n)
        return None

    def _field_stores(self):
        if self._stores is None:
            self._stores = []
            fn = self.fn
            for b, i, st in fn.assigns():
                d = st["dst"]
                if d.get("p") and d["p"][0] == "deref":
                    ps = A.path_str(self.res.place(d, (b, i)))
                    self._stores.append((b, ps))
        return self._stores

    def _mutated_between(self, edges, block, goal):
        fn = self.fn
        atoms = " ".join(goal[0].keys())
        risky = [(b, ps) for b, ps in self._field_stores() if ps and ps in atoms]
        if not risky:
            return False
        can_reach = set()
        # blocks from which `block` is reachable
        for b in fn.reachable(0):
            if block in fn.reachable(b):
                can_reach.add(b)
        for a, s in edges:
            between = fn.reachable(s) & can_reach
            for b, ps in risky:
                if b in between and b != block:
                    return True
        return False


# ------------------------------------------------------------------------------------ magnitude rule for `+`

LENGTH_FIELDS = {
    "position": "cursor into an in-memory slice: only ever advanced behind a bounds check or set to a 14-bit pointer",
    "len": "encoded length counter / Vec length: bounded by what is in memory",
    "size": "number of records held in memory", "current_size": "number of records held in memory",
    "desired_size": "configuration value compared with an in-memory count",
}


LEN_MAX = 2 ** 63 - 1          # anything held in memory: lengths, offsets, element counts
TYPE_MAX = {"u8": 2 ** 8 - 1, "u16": 2 ** 16 - 1, "u32": 2 ** 32 - 1, "u64": 2 ** 64 - 1, "usize": 2 ** 64 - 1, "char": 0x10FFFF, "bool": 1}


def ubound(fn, res, e, depth=0):
    """a numeric upper bound of an unsigned integer expression, or None."""
    e = A.peel_refs(e)
    k = e[0]
    if depth > 10:
        return None
    if k == "const" and isinstance(e[2], int) and not isinstance(e[2], bool):
        return e[2]
    if k == "const" and e[1] in TYPE_MAX:
        return TYPE_MAX[e[1]]
    if k == "cast":
        inner = A.peel_refs(e[1])
        src_ty = _ty_hint(inner) or (e[3] if len(e) > 3 else None)
        ib = ubound(fn, res, inner, depth + 1)
        tb = TYPE_MAX.get(src_ty)
        cands = [x for x in (ib, tb) if x is not None]
        return min(cands) if cands else None
    if k == "call":
        n = e[1]
        if any(n.endswith(s) for s in LEN_CALLS) or n.endswith("::capacity") or n.endswith("WritableBuffer::index") or n.endswith("Range<A>>::next"):
            return LEN_MAX
        if n.endswith("Label::len") or n.endswith("next_u8"):
            return 255
        if n.endswith("next_u16"):
            return 65535
        if n.endswith("next_u32"):
            return 2 ** 32 - 1
        if n.endswith("char>::to_digit") and len(e[2]) == 2:
            r = A.peel(e[2][1])
            return r[2] - 1 if r[0] == "const" and isinstance(r[2], int) else 35
        if ((e[4] or n).endswith("Into::into") or (e[4] or "").endswith("Try::branch") or n.endswith("Option::<T>::ok_or") or n.endswith("::unwrap_or")
                or n.endswith("From<u8>>::from") or n.endswith("From<u16>>::from") or n.endswith("From<u32>>::from")
                or re.search(r"From<(u8|u16|u32)> for (u16|u32|u64|u128|usize)>::from$", n)) and e[2]:
            m = re.search(r"From<(u8|u16|u32)> for ", n)
            ib = ubound(fn, res, e[2][0], depth + 1)
            tb = TYPE_MAX.get(m.group(1)) if m else None
            cands = [x for x in (ib, tb) if x is not None]
            return min(cands) if cands else None
    if k == "un" and e[1] == "PtrMetadata":
        return LEN_MAX
    if k == "field":
        if len(e) > 3 and e[3] in TYPE_MAX and e[3] != "usize":
            return TYPE_MAX[e[3]]
        if e[2] in LENGTH_FIELDS:
            return LEN_MAX
        if e[2] == "0" and A.peel_refs(e[1])[0] == "bin":
            return ubound(fn, res, A.peel_refs(e[1]), depth + 1)
        if e[1][0] == "downcast":
            return ubound(fn, res, e[1][1], depth + 1)
    if k == "downcast":
        return ubound(fn, res, e[1], depth + 1)
    if k == "bin":
        op = e[1].replace("WithOverflow", "").replace("Unchecked", "")
        a, b = ubound(fn, res, e[2], depth + 1), ubound(fn, res, e[3], depth + 1)
        if op == "Add" and a is not None and b is not None:
            return a + b
        if op == "Mul" and a is not None and b is not None:
            return a * b
        if op == "Sub" and a is not None:
            return a
        if op in ("BitAnd",) and (a is not None or b is not None):
            return min(x for x in (a, b) if x is not None)
        if op in ("Rem",) and b is not None:
            return b
        if op in ("Div", "Shr") and a is not None:
            return a
    if k == "phi":
        if any(any(y[0] == "loop" for y in A.walk(x)) for x in e[1]):
            # loop-carried accumulator over an in-memory iteration: stays in the in-memory class (stated assumption)
            others = [ubound(fn, res, x, depth + 1) for x in e[1] if not any(y[0] == "loop" for y in A.walk(x))]
            return LEN_MAX if None not in others else None
        bs = [ubound(fn, res, x, depth + 1) for x in e[1]]
        if bs and None not in bs:
            return max(bs)
    if k == "loop":
        return LEN_MAX          # accumulator over an in-memory iteration
    if k == "upvar" and depth < 6:
        # a captured variable: bound it where it is defined, in the enclosing function (single definition only)
        parent = fn.prog.fns.get(fn.root_key) if fn.root_key != fn.key else None
        for pf in ([parent] if parent is not None else []) + ([fn.prog.body_of(fn.root_key)] if parent is not None else []):
            ls = [l for l, nm in pf.names.items() if nm == e[1]]
            if len(ls) == 1 and pf.single_def(ls[0]) is not None:
                pres = A.Resolver(pf)
                return ubound(pf, pres, pres.local(ls[0], (0, 0)), depth + 2)
    if k == "param":
        ty = fn.local_ty(e[1])
        if ty in ("u8", "u16", "u32", "char", "bool"):
            return TYPE_MAX[ty]
        if ty == "usize" and depth < 4:
            callers = fn.prog.callers_of(fn.key)
            bs = []
            for cf, cb, ct in callers:
                if len(ct["args"]) >= e[1]:
                    cres = A.Resolver(cf)
                    bs.append(ubound(cf, cres, cres.operand(ct["args"][e[1] - 1], (cb, "term")), depth + 3))
            if bs and None not in bs:
                return max(bs)
    return None


def magnitude(fn, res, e, depth=0):
    u = ubound(fn, res, e, depth)
    if u is None:
        return None
    return "small" if u < 2 ** 32 else ("len" if u <= LEN_MAX + 2 ** 33 else None)


def _ty_hint(e):
    if e[0] == "const":
        return e[1]
    return None


# ------------------------------------------------------------------------------------ site discharge

VEC_MUTATORS = ("::push", "::insert", "::remove", "::swap_remove", "::clear", "::truncate", "::retain", "::pop", "::append", "::extend",
                "::drain", "::split_off", "::dedup", "::resize", "::extend_from_slice", "::sort", "::reverse")


def position_counter_bound(f, res, idx_expr, vec_expr, use_block):
    """`i < v.len()` for an index that is the position counter of a loop over `v.iter()`: the counter starts at 0, is
    incremented exactly once per iteration after the point where it is read, it is read (directly, or stored as
    `Some(counter)` and unwrapped later) in an iteration in which `next()` returned an element, and `v` is not
    resized in between.  This is the loop spelling of `v.iter().position(p)`, and what that call is normalised to."""
    def same_vec(x):
        px, pv_ = A.path_str(x), A.path_str(vec_expr)
        return (px is not None and px == pv_) or A.same_value(x, vec_expr)
    cands = []
    pe = A.peel(idx_expr)
    if pe[0] == "field" and pe[2] == "0" and pe[1][0] == "downcast" and pe[1][2] == "Some":
        opt = A.peel(pe[1][1])
        alts = []
        if opt[0] == "phi" and len(opt) > 2:
            for d in f.defs().get(opt[2], []):
                if d[2] == "partial":
                    return None
                alts.append((d[0], A.peel(res._def_expr(d, 0))))
        elif opt[0] == "agg":
            ds = [d for d in f.defs().values()]
            return None
        for blk, a in alts:
            if a[0] == "agg" and a[2] == "None":
                continue
            if a[0] == "agg" and a[2] == "Some":
                cands.append((blk, A.peel(dict(a[3])["0"])))
            else:
                return None
    else:
        cands.append((use_block, pe))
    if not cands:
        return None
    for site, y in cands:
        if not (y[0] == "phi" and len(y) > 2):
            return None
        lc = y[2]
        ds = [d for d in f.defs().get(lc, []) if d[2] != "partial"]
        if len(ds) != 2:
            return None
        init = [d for d in ds if A.peel(res._def_expr(d, 0))[0] == "const" and A.peel(res._def_expr(d, 0))[2] == 0]
        incs = []
        for d in ds:
            if d in init or d[2] != "assign":
                continue
            rv = f.blocks[d[0]]["stmts"][d[1]]["rv"]
            if rv["k"] == "bin" and rv["op"] in ("Add", "AddWithOverflow", "AddUnchecked"):
                a_, b_ = A.op_place(rv["a"]), rv["b"]
                if a_ is not None and a_["l"] == lc and not a_.get("p") and "const" in b_ and b_["const"].get("val") == 1:
                    incs.append(d)
            elif rv["k"] == "use":
                # `i = move (tmp.0)` of a checked add `tmp = AddWithOverflow(i, 1)`
                pl = A.op_place(rv["op"])
                if pl is not None and pl.get("p") and f.single_def(pl["l"]) is not None:
                    sd = f.single_def(pl["l"])
                    if sd[2] == "assign":
                        rv2 = f.blocks[sd[0]]["stmts"][sd[1]]["rv"]
                        a_ = A.op_place(rv2.get("a", {})) if rv2["k"] == "bin" else None
                        if rv2["k"] == "bin" and rv2["op"].startswith("Add") and a_ is not None and a_["l"] == lc and "const" in rv2["b"] and rv2["b"]["const"].get("val") == 1:
                            incs.append(d)
        if len(init) != 1 or len(incs) != 1:
            return None
        inc = incs[0][0]
        loops = [(h, body) for h, body in f.loops() if inc in body and init[0][0] not in body]
        if not loops:
            return None
        h, body = min(loops, key=lambda x: len(x[1]))
        # the loop's progress call: next() over an iterator of the same vector
        nxt = []
        for b in body:
            t = f.term(b)
            if t["k"] == "call" and (t.get("callee") or "").endswith("::next"):
                ce = res.call_expr(t, b)
                src = A.peel(ce[2][0]) if ce[2] else None
                if src is not None and same_vec(src):
                    nxt.append(b)
        if len(nxt) != 1:
            return None
        conds = A.Conds(f, res)
        some_edges = [(a, s_) for a, s_ in conds.edges_where(lambda fc: fc[0] == "is" and fc[1] == "Some" and A.peel(fc[2])[0] == "call" and A.peel(fc[2])[3] == (f.key, nxt[0]))]
        if len(some_edges) != 1:
            return None
        st = some_edges[0][1]
        if site not in f.reachable(st, removed_blocks=[inc, h]) and site != st:
            return None
        if h in f.reachable(st, removed_blocks=[inc]):
            return None                      # an iteration can go round without counting
        # no resize of the vector inside the loop, nor between the read and the use
        risky = set(body) | (f.reachable(site) if site != use_block else set())
        for b in risky:
            t = f.term(b)
            if b == use_block or t["k"] != "call":
                continue
            n = t.get("callee") or ""
            if any(n.endswith(m) for m in VEC_MUTATORS) and t["args"]:
                ce = res.call_expr(t, b)
                if same_vec(ce[2][0]) and (b in body or use_block in f.reachable(b)):
                    return None
    return True, "index is the position counter of a loop over the same vector, read in an iteration that produced an element (counter < len)"


class Discharger:
    """decides every panic-capable site of a set of functions; justification callbacks for the
    externals (unwrap / expect / explicit panic) are supplied per property."""

    def __init__(self, ctx, rule, prog, justify):
        self.ctx = ctx
        self.rule = rule
        self.prog = prog
        self.justify = justify
        self.counts = {}
        set_program(prog)

    def run(self, fns):
        per_fn = {}
        for f in fns:
            if f.derived:
                continue
            res = A.Resolver(f)
            pv = Prover(f, res)
            n = {}
            for f_, b, kind, t in sites(self.prog, [f]):
                n[kind] = n.get(kind, 0) + 1
                key = "%s:%s#%d" % (A.short(f.key), kind, n[kind])
                ok, how = self.site(f, res, pv, b, kind, t, key)
                self.counts[kind] = self.counts.get(kind, 0) + 1
                if ok:
                    self.ctx.ok(self.rule, key, how, f.loc(b))
                else:
                    self.ctx.bad(self.rule, key, "possible panic (%s): %s" % (kind, how), f.loc(b))
        return self.counts

    def site(self, f, res, pv, b, kind, t, key):
        if kind == "assert:BoundsCheck":
            ln = res.operand(t["ops"][0], (b, "term"))
            ix = res.operand(t["ops"][1], (b, "term"))
            ok, how = pv.prove(b, _c(lin(ix), lin(ln), 1), [ix])
            if ok:
                return ok, how
            j = self.justify(f, res, pv, b, kind, t)
            return j if j else (False, how)
        if kind.startswith("assert:Overflow"):
            op = t["msg"]
            a = res.operand(t["ops"][0], (b, "term"))
            c = res.operand(t["ops"][1], (b, "term")) if len(t["ops"]) > 1 else None
            if "Sub" in op:
                ok, how = pv.prove(b, _c(lin(c), lin(a), 0), [a, c])
                if ok:
                    return ok, "no underflow: " + how
                j = self.justify(f, res, pv, b, kind, t)
                return j if j else (False, "subtraction %s - %s may underflow: %s" % (A.show(a)[:50], A.show(c)[:50], how))
            if "Add" in op or "Mul" in op:
                ua, uc = ubound(f, res, a), ubound(f, res, c)
                pl = A.op_place(t["cond"])
                rty = f.local_ty(pl["l"]) if pl is not None else ""
                tmax = TYPE_MAX.get(rty.strip("()").split(",")[0].strip())
                if ua is not None and uc is not None and tmax is not None:
                    tot = ua + uc if "Add" in op else ua * uc
                    if tot <= tmax:
                        return True, "no overflow: operands bounded by %s and %s, %s::MAX = %s" % (_b(ua), _b(uc), rty.strip("()").split(",")[0], _b(tmax))
                j = self.justify(f, res, pv, b, kind, t)
                return j if j else (False, "cannot bound %s (%s) and %s (%s) within %s" % (A.show(a)[:60], ua, A.show(c)[:60], uc, rty))
            if "Shl" in op or "Shr" in op:
                sh = A.peel(c) if c is not None else ("?",)
                if sh[0] == "const" and isinstance(sh[2], int) and 0 <= sh[2] < 8:
                    return True, "constant shift amount %d < bit width" % sh[2]
            j = self.justify(f, res, pv, b, kind, t)
            return j if j else (False, "unhandled arithmetic assertion " + op)
        if kind.startswith("assert:"):
            j = self.justify(f, res, pv, b, kind, t)
            return j if j else (False, "unhandled assertion " + t["msg"])
        if kind in ("call:index", "call:index_mut"):
            e = res.call_expr(t, b)
            cont, idx = e[2][0], A.peel(e[2][1])
            ln = ({"len(%s)" % _atom(cont): 1}, 0)
            is_str = (t.get("resolved") or "").find("for str>") >= 0 or (t.get("resolved") or "").find("for std::string::String>") >= 0
            goals = []
            if idx[0] == "agg" and idx[1] in ("std::ops::Range", "std::ops::RangeFrom", "std::ops::RangeTo", "std::ops::RangeInclusive", "std::ops::RangeToInclusive"):
                d = dict(idx[3])
                if idx[1] == "std::ops::Range":
                    goals = [(_c(lin(d["start"]), lin(d["end"]), 0), [d["start"], d["end"]]), (_c(lin(d["end"]), ln, 0), [d["end"]])]
                elif idx[1] == "std::ops::RangeFrom":
                    goals = [(_c(lin(d["start"]), ln, 0), [d["start"]])]
                elif idx[1] == "std::ops::RangeTo":
                    goals = [(_c(lin(d["end"]), ln, 0), [d["end"]])]
                else:
                    return False, "inclusive range index not modelled"
            elif idx[0] == "agg" and idx[1] == "std::ops::RangeFull":
                goals = []
            elif "HashMap" in (t.get("resolved") or ""):
                j = self.justify(f, res, pv, b, kind, t)
                return j if j else (False, "HashMap index panics on a missing key")
            else:
                goals = [(_c(lin(idx), ln, 1), [idx])]
            if is_str:
                j = self.justify(f, res, pv, b, kind, t)
                return j if j else (False, "string slice: bounds and char boundaries not justified")
            hows = []
            for g, terms in goals:
                ok, how = pv.prove(b, g, terms)
                if not ok:
                    j = self.justify(f, res, pv, b, kind, t)
                    return j if j else (False, "%s (goal %s <= 0)" % (how, _show_lin(g)))
                hows.append(how)
            return True, "; ".join(hows) or "full range"
        if kind in ("call:swap_remove", "call:remove") and "Vec" in (t.get("callee") or ""):
            e = res.call_expr(t, b)
            ln = ({"len(%s)" % _atom(e[2][0]): 1}, 0)
            ok, how = pv.prove(b, _c(lin(e[2][1]), ln, 1), [e[2][1]])
            if ok:
                return ok, how
            pc = position_counter_bound(f, res, e[2][1], e[2][0], b)
            if pc:
                return pc
        if kind == "call:insert" and "Vec" in (t.get("callee") or ""):
            e = res.call_expr(t, b)
            ln = ({"len(%s)" % _atom(e[2][0]): 1}, 0)
            ok, how = pv.prove(b, _c(lin(e[2][1]), ln, 0), [e[2][1]])
            if ok:
                return ok, "insert index <= len: " + how
        j = self.justify(f, res, pv, b, kind, t)
        return j if j else (False, "no justification for %s" % A.short(t.get("callee") or "?"))


def _b(n):
    return "in-memory length (<= isize::MAX)" if n == LEN_MAX else ("%d" % n if n < 10 ** 7 else "2^%d-ish" % n.bit_length())


def _show_lin(g):
    return " + ".join("%d*%s" % (c, a[:40]) for a, c in g[0].items()) + " + %d" % g[1]
