"""Check context: obligations, violations, known findings, evidence, replay files."""
import hashlib
import json
import os
import sys
import time

from . import mir

VERIF = os.path.dirname(os.path.dirname(os.path.abspath(__file__)))
KNOWN = os.path.join(VERIF, "known_findings.json")
# dev sweeps over scratch copies redirect evidence / replay files so that they do not clobber the real ones
OUT = os.environ.get("VERIF_SCRATCH_OUT") or VERIF

ASSUMPTIONS = [
    "rustc's type checker and MIR construction (mir_built) are faithful to the source",
    "cargo builds the nine workspace targets it reports; cfg(test) code, benches and the separate fuzz/ workspace are not production code",
    "std, bytes, tokio, priority-queue honour their documented contracts (the table of externals that can panic is complete for the functions called); allocation failure is out of scope",
    "each rule decides a structural necessary condition of the property, not the behaviour over run-time values (see DESIGN.md, 'declined' column)",
]


class RuleAlias:
    """Runs another property's rule function on behalf of this one: the checks of the rules named in `mapping` are
    recorded under this property's rule id, everything else the borrowed function does is ignored.  (Sibling properties
    share necessary conditions - e.g. "the decoder terminates" belongs to C03 and to C08.)"""

    def __init__(self, ctx, mapping):
        self._ctx = ctx
        self._map = mapping
        self.sites_examined = 0          # scratch: the borrowed function's own bookkeeping is not this property's
        self.violations = []             # violations of rules that are NOT borrowed (kept so the borrowed code can look at them)

    @property
    def prog(self):
        return self._ctx.prog

    tier = property(lambda self: self._ctx.tier)
    seed = property(lambda self: self._ctx.seed)
    cfg = property(lambda self: self._ctx.cfg)

    def rule(self, rid, text):
        pass

    def note(self, text):
        pass

    def decline(self, text):
        pass

    def ok(self, rule, *a, **k):
        if rule in self._map:
            self._ctx.ok(self._map[rule], *a, **k)

    def bad(self, rule, key=None, *a, **k):
        if rule in self._map:
            self._ctx.bad(self._map[rule], key, *a, **k)
        else:
            self.violations.append({"rule": rule, "site": str(key)})

    def check(self, cond, rule, key=None, *a, **k):
        if rule in self._map:
            self._ctx.check(cond, self._map[rule], key, *a, **k)
        elif not cond:
            self.violations.append({"rule": rule, "site": str(key)})

    def floor(self, rule, *a, **k):
        if rule in self._map:
            self._ctx.floor(self._map[rule], *a, **k)


class Ctx:
    def __init__(self, prop, tier, prog, seed=0):
        self.prop = prop
        self.tier = tier
        self.prog = prog
        self.seed = seed
        self.t0 = time.time()
        self.obligations = []      # dicts
        self.violations = []
        self.notes = []
        self.declined = []
        self.rules = {}
        self.sites_examined = 0
        self.known = _load_known(prop)
        self.cfg = "dev"
        self.configs = ["dev"]

    def switch_config(self, name, prog):
        """re-run the same rules on another build configuration; sites are suffixed so that the
        obligations of the two configurations stay distinct (known-finding keys are not)."""
        self.cfg = name
        self.prog = prog
        if name not in self.configs:
            self.configs.append(name)

    # ---------------------------------------------------------------- recording
    def rule(self, rid, text):
        self.rules[rid] = text

    def ok(self, rule, key, how, loc=None, nontrivial=True):
        self.obligations.append({"rule": rule, "site": key, "loc": loc, "discharged": True,
                                 "how": how, "nontrivial": nontrivial, "cfg": self.cfg})

    def bad(self, rule, key, what, loc=None, path=None):
        rec = {"rule": rule, "site": key, "loc": loc, "discharged": False, "what": what, "cfg": self.cfg}
        if path:
            rec["path"] = path
        self.obligations.append(rec)
        self.violations.append(rec)

    def check(self, cond, rule, key, how_ok, what_bad, loc=None, nontrivial=True):
        if cond:
            self.ok(rule, key, how_ok, loc, nontrivial)
        else:
            self.bad(rule, key, what_bad, loc)
        return bool(cond)

    def floor(self, rule, what, found, floor, exact=False):
        """instance-count guard: a rule matching fewer sites than were confirmed by hand is broken."""
        self.sites_examined += found
        good = (found == floor) if exact else (found >= floor)
        self.check(good, rule, "count:" + what,
                   "%d site(s) of %s (%s %d)" % (found, what, "exactly" if exact else "floor", floor),
                   "found %d site(s) of %s, expected %s %d (anchor moved or rule lost its instances)"
                   % (found, what, "exactly" if exact else "at least", floor),
                   nontrivial=False)
        return good

    def note(self, text):
        self.notes.append(text)

    def decline(self, text):
        self.declined.append(text)

    # ---------------------------------------------------------------- finishing
    def finish(self):
        wall = time.time() - self.t0
        fresh = []
        known_hit = []
        for v in self.violations:
            k = "%s:%s" % (v["rule"], v["site"])
            ent = self.known.get(k)
            if ent and ent.get("status") == "known":
                known_hit.append((k, ent))
            else:
                fresh.append(v)
        nontriv = {(o["rule"], o["site"], o.get("cfg")) for o in self.obligations if o.get("nontrivial", True)}
        samples = []
        seen_rules = set()
        for o in self.obligations:
            if o["rule"] not in seen_rules or not o["discharged"]:
                seen_rules.add(o["rule"])
                samples.append({k: o[k] for k in ("rule", "site", "loc", "discharged") if k in o}
                               | ({"how": o["how"]} if "how" in o else {"what": o["what"]}))
        samples = samples[:60]
        prog = self.prog
        ev = {
            "property_id": self.prop,
            "tier": self.tier,
            "seed": self.seed,
            "level": "other",
            "coverage": {
                "explanation": "static analysis of rustc's MIR (mir_built) of /repo's current working tree: "
                               "each obligation is one (rule, site) pair decided from the type-checked program; "
                               "no repository code is executed. Rules: " + "; ".join(
                                   "%s = %s" % kv for kv in sorted(self.rules.items())),
                "obligations": len(self.obligations),
                "discharged": sum(1 for o in self.obligations if o["discharged"]),
                "evaluations": max(1, self.sites_examined + len(self.obligations)),
                "distinct_nontrivial": len(nontriv),
                "rule": "one case = one (rule id, semantic site key) obligation; non-trivial = the obligation "
                        "needed a dominance / reachability / dataflow / table argument (count guards excluded)",
                "samples": samples,
                "analysed": {
                    "targets": sorted(prog.targets),
                    "functions": prog.counts["fns"], "blocks": prog.counts["blocks"],
                    "calls": prog.counts["calls"], "asserts": prog.counts["asserts"],
                    "profile": prog.info.get("profile"), "facts_key": prog.info.get("key"), "configurations": self.configs,
                    "normal_form": {
                        "helpers_expanded": sorted({"%s <- %s" % (k.rsplit("::", 2)[-2] + "::" + k.rsplit("::", 1)[-1] if k.count("::") > 1 else k, h.rsplit("::", 1)[-1])
                                                    for k, v in getattr(prog, "inlined", {}).items() for h, _ in v})[:40],
                        "combinators_rewritten": sum(len(v) for k_, v in getattr(prog, "expanded", {}).items() if k_ != "!errors"),
                        "functions_with_rewrites": len([k_ for k_ in getattr(prog, "expanded", {}) if k_ != "!errors"]),
                        "rewrite_errors": [list(x) for x in getattr(prog, "expanded", {}).get("!errors", [])][:10],
                        "stored_conditions_threaded": sum(v for k_, v in getattr(prog, "threaded", {}).items() if k_ != "!errors"),
                        "types_renamed_back": dict(sorted(getattr(prog, "renamed_types", {}).items())[:20]),
                        "functions_renamed_back": dict(sorted(getattr(prog, "renamed_fns", {}).items())[:20]),
                        "fields_renamed_back": {k_: v for k_, v in sorted(getattr(prog, "renamed_fields", {}).items())[:20]},
                    },
                },
                "declined_clauses": self.declined,
                "known_findings_hit": [k for k, _ in known_hit],
                "notes": self.notes,
                "checker_cmd": "./check %s --tier %s" % (self.prop, self.tier),
                "trusted_base": ["rustc nightly 1.97 front end + MIR build", "cargo", "the rule tables in /verif/rules"],
                "exhaustive": False,
            },
            "assumptions": ASSUMPTIONS,
            "wall_s": round(wall, 3),
            "violations": len(fresh),
        }
        os.makedirs(os.path.join(OUT, "evidence"), exist_ok=True)
        with open(os.path.join(OUT, "evidence", self.prop + ".json"), "w") as fh:
            json.dump(ev, fh, indent=1)
        for k, ent in known_hit:
            print("KNOWN-FINDING: property=%s %s [%s]" % (self.prop, ent.get("what", ""), k))
        if fresh:
            os.makedirs(os.path.join(OUT, "replay"), exist_ok=True)
            for v in fresh:
                k = "%s:%s" % (v["rule"], v["site"])
                hid = hashlib.sha1(k.encode()).hexdigest()[:10]
                path = os.path.join(OUT, "replay", "%s-%s.json" % (self.prop, hid))
                with open(path, "w") as fh:
                    json.dump({"property": self.prop, "key": k, "violation": v,
                               "rule_text": self.rules.get(v["rule"])}, fh, indent=1)
                print("%s [%s]%s %s: %s" % (v.get("loc") or "-", v["rule"], "" if v.get("cfg", "dev") == "dev" else "(" + v["cfg"] + ")", v["site"], v["what"]))
                print("VIOLATION property=%s replay=%s" % (self.prop, path))
            return 1
        print("%s: %d obligations discharged, %d known finding(s), %.1fs"
              % (self.prop, len(self.obligations) - len(known_hit), len(known_hit), wall))
        return 0


def _load_known(prop):
    out = {}
    if os.path.isfile(KNOWN):
        with open(KNOWN) as fh:
            for ent in json.load(fh).get("findings", []):
                if ent.get("property") == prop:
                    out[ent["key"]] = ent
    return out


def anchor_failure(prop, tier, err, seed=0):
    """fail closed: a missing anchor is reported as a violation with a replay file."""
    os.makedirs(os.path.join(OUT, "replay"), exist_ok=True)
    path = os.path.join(OUT, "replay", "%s-anchor.json" % prop)
    with open(path, "w") as fh:
        json.dump({"property": prop, "kind": "anchor-missing", "error": str(err)}, fh, indent=1)
    ev = {
        "property_id": prop, "tier": tier, "seed": seed, "level": "other",
        "coverage": {"explanation": "check aborted: anchor missing (%s)" % err,
                     "evaluations": 1, "distinct_nontrivial": 0, "samples": [str(err)]},
        "assumptions": ASSUMPTIONS, "wall_s": 0.0, "violations": 1,
    }
    os.makedirs(os.path.join(OUT, "evidence"), exist_ok=True)
    with open(os.path.join(OUT, "evidence", prop + ".json"), "w") as fh:
        json.dump(ev, fh, indent=1)
    print("anchor-missing: %s" % err)
    print("VIOLATION property=%s replay=%s" % (prop, path))
    return 1
