"""C10 — CNAME chains are returned whole, in order, and loops end safely."""
from .. import analysis as A
from ..analysis import Call, Path
from . import cluster

T = "dns_types::protocol::types::"
LOCAL = cluster.LOCAL
REC = cluster.REC
FWD = cluster.FWD
RESOLVERS = (LOCAL, REC + "resolve_recursive_notimeout", FWD + "resolve_forwarding_notimeout")


def nested_calls(e, own_q):
    """sub-calls to the cluster's resolvers, split into (own question, other question)."""
    own, other = [], []
    for x in A.walk(e):
        if x[0] == "call" and x[1] in RESOLVERS and len(x[2]) >= 2:
            (own if A.path_str(x[2][1]) == own_q else other).append(x)
    return own, other


def classify(e, own_q):
    pe = A.peel(e)
    if pe[0] == "call" and (pe[1].endswith("with_capacity") or pe[1].endswith("::new")):
        return "fresh"
    own, other = nested_calls(e, own_q)
    if other:
        return "nested"
    if own:
        return "own"
    pe = A.peel(e)
    if pe[0] == "call" and (pe[1].endswith("with_capacity") or pe[1].endswith("::new")):
        return "fresh"
    return "head"


def run(ctx):
    prog = ctx.prog
    ctx.rule("C10.1", "at every concatenation the chain found so far is the receiver and the nested resolution's records are appended (in that order)")
    ctx.rule("C10.2", "the follow-up question of an alias keeps qtype and qclass and takes the alias target as its name")
    ctx.rule("C10.3", "guards and push/pop discipline of the recursive cluster (shared with C08.3/C08.4)")
    ctx.rule("C10.4", "follow_cnames: loops return None; a result only if a record matched or a link was followed")
    ctx.rule("C10.5", "aliases are not followed for CNAME / ANY questions (zone: !CNAME.matches(qtype); cache: qtype != CNAME and direct miss)")
    ctx.rule("C10.6", "where the nested resolution itself stopped at an unresolved alias (LocalResolutionResult::CNAME), the alias target reported onwards is the nested result's cname_question (the end of the chain returned), never the first link again")
    ctx.rule("C10.7", "record fidelity of the alias records themselves: owner = the question name when a zone (or its wildcard) supplies the alias (C02.1); from an upstream answer exactly the walked links are admitted (C06.4, C06.6)")
    ctx.decline("all alias graphs over all sources; 'followed only by records of the asked type at the final target' is a value property")

    sites = 0
    fns = {LOCAL: "param2", REC + "resolve_combined_recursive": None, FWD + "resolve_forwarding_notimeout": "^question",
           REC + "resolve_with_nameserver_response": "^question", REC + "resolve_recursive_notimeout": "^question"}
    for root, own_q in fns.items():
        f = prog.body_of(root)
        r = A.Resolver(f)
        apps = A.vec_tail_appends(f)
        by_recv = {}
        for b, t in apps:
            e = r.call_expr(t, b)
            recv, arg = e[2][0], e[2][1]
            kr, ka = classify(recv, own_q), classify(arg, own_q)
            sites += 1
            key = "%s:append@%s<-%s#%d" % (A.short(root), kr, ka, sum(1 for x in apps[:apps.index((b, t))]))
            if kr in ("head", "own"):
                ctx.check(ka == "nested", "C10.1", key, "chain-so-far.append(nested resolution)",
                          "append puts %s after %s (expected the nested resolution's records after the chain so far)" % (A.show(arg)[:120], A.show(recv)[:120]), f.loc(b))
            elif kr == "fresh":
                by_recv.setdefault(A.show(recv), []).append((b, ka, key))
            else:
                ctx.bad("C10.1", key, "records are appended to the nested resolution's result (chain order reversed)", f.loc(b))
        for rv, lst in by_recv.items():
            # order by dominance
            lst.sort(key=lambda x: sum(1 for y in lst if f.dominates(y[0], x[0])))
            kinds = [k for _, k, _ in lst]
            ok = kinds and kinds[-1] == "nested" and all(k in ("head", "own") for k in kinds[:-1]) and \
                all(f.dominates(lst[i][0], lst[i + 1][0]) for i in range(len(lst) - 1))
            ctx.check(ok, "C10.1", lst[0][2], "accumulator filled as [chain so far, nested result]",
                      "accumulator filled in order %s" % kinds, f.loc(lst[0][0]))
    ctx.floor("C10.1", "concatenation sites", sites, 5)
    # nothing of the followed chain is lost: in every arm that receives records from the follow-up resolution of an alias
    # target, those records are concatenated onto the chain so far
    LEAF = ("Authoritative", "NonAuthoritative", "Partial", "CNAME")
    n_arms = 0
    for root, own_q in fns.items():
        f = prog.body_of(root)
        r = A.Resolver(f)
        c = A.Conds(f, r)
        nested_apps = [b for b, t in A.vec_tail_appends(f) if classify(r.call_expr(t, b)[2][1], own_q) == "nested"]
        arms_by_site = {}
        for a in sorted(f.reachable(0)):
            if f.term(a)["k"] != "switch":
                continue
            for s_ in f.succs(a):
                for fct in c.edge_facts(a, s_):
                    if fct[0] != "is" or fct[1] not in LEAF + ("Ok",):
                        continue
                    own, other = nested_calls(fct[2], own_q)
                    if root.endswith("resolve_combined_recursive"):
                        other = other + own          # its parameter `rrs` is the chain so far: its one nested resolution is the follow-up
                    for x in other:
                        arms_by_site.setdefault(x[3], []).append((fct[1], a, s_))
        for site, arms in arms_by_site.items():
            leaves = [x for x in arms if x[0] in LEAF] or [x for x in arms if x[0] == "Ok"]
            for v, a, s_ in leaves:
                n_arms += 1
                dom = {b for b in f.reachable(s_) if f.edge_dominates(a, s_, b)}
                ctx.check(any(b in dom for b in nested_apps), "C10.1", "%s:follow-up-records-kept:%s@%s" % (A.short(root), v, f.loc(a).split(":")[-1]),
                          "the %s arm of the follow-up resolution appends its records to the chain" % v,
                          "the records of the follow-up resolution are dropped in the %s arm (the chain returned ends early)" % v, f.loc(s_))
    ctx.floor("C10.1", "arms receiving follow-up records", n_arms, 6)
    # resolve_combined_recursive: `rrs` (the chain) is its parameter; callers pass the chain found so far
    for fn, b, t in A.who_calls(prog, REC + "resolve_combined_recursive"):
        rr = A.Resolver(fn)
        e = rr.call_expr(t, b)
        own_q = "^question"
        own, other = nested_calls(e[2][1], own_q)
        ctx.check(not other, "C10.1", "%s:combined-arg" % A.short(fn.root_key), "resolve_combined_recursive(.., chain so far, follow-up question)",
                  "the records passed as chain head come from a nested resolution", fn.loc(b))

    # ---------------------------------------------------------------- C10.2
    n = 0
    for root, own_q in ((LOCAL, "param2"), (REC + "resolve_with_nameserver_response", "^question")):
        f = prog.body_of(root)
        r = A.Resolver(f)
        for b, i, st in A.aggregates(f, T + "Question"):
            e = r.rvalue(st["rv"], (b, i))
            d = dict(e[3])
            n += 1
            ok_t = A.path_str(d["qtype"]) == own_q + ".qtype" and A.path_str(d["qclass"]) == own_q + ".qclass"
            nm = A.peel(d["name"])
            alts = nm[1] if nm[0] == "phi" else [nm]
            def is_target(x):
                s = A.show(x)
                x = A.peel(x)
                if x[0] == "agg" and x[2] == "None":
                    return True
                if x[0] == "agg" and x[2] == "Some":
                    return is_target(dict(x[3])["0"])
                if x[0] == "field" and x[1][0] == "downcast" and x[1][2] == "Some":
                    return is_target(x[1][1])
                if x[0] == "phi":
                    return all(is_target(y) for y in x[1])
                return A.last_field(x) == "cname" or (A.last_field(x) == "name" and A.last_field(A.peel(x)[1]) == "cname_question")
            ok_n = all(is_target(x) for x in alts)
            ctx.check(ok_t and ok_n, "C10.2", "%s:follow-up-question#%d" % (A.short(root), n), "Question{name: alias target, qtype/qclass of the own question}",
                      "follow-up question built as name=%s qtype=%s qclass=%s" % (A.show(d["name"])[:100], A.show(d["qtype"]), A.show(d["qclass"])), f.loc(b, i))
    ctx.floor("C10.2", "follow-up questions", n, 4)

    # ---------------------------------------------------------------- C10.6
    f = prog.body_of(LOCAL)
    r = A.Resolver(f)
    c = A.Conds(f, r)
    def nested_cname_fact(fct):
        return fct[0] == "is" and fct[1] == "CNAME" and any(x[0] == "call" and x[1] == LOCAL for x in A.walk(fct[2]))
    def target_kind(x):
        px = A.peel(x)
        if any(y[0] == "call" and y[1] == LOCAL for y in A.walk(px)):
            if A.last_field(px) == "cname_question" or (A.last_field(px) == "name" and A.last_field(A.peel(px)[1]) == "cname_question"):
                return "nested-tail"
            return None
        if A.last_field(px) == "cname":
            return "first-link"
        return None
    leaves = []
    live = f.reachable(0)
    for b, i, st in f.assigns():
        if True:
            if b not in live or st["rv"].get("k") != "agg" or st["rv"].get("ak") != "adt":
                continue
            e = r.rvalue(st["rv"], (b, i))
            if e[0] != "agg":
                continue
            d = dict(e[3])
            x = None
            if e[1].endswith("option::Option") and e[2] == "Some":
                x = d["0"]
            elif e[1] == T + "Question":
                x = d["name"]
            elif e[1].endswith("LocalResolutionResult") and e[2] == "CNAME":
                x = d["cname_question"]
            k = target_kind(x) if x is not None else None
            if k:
                leaves.append((b, i, k, x))
    for b, i, k, x in leaves:
        nested = any(nested_cname_fact(fct) for fct in c.facts_on_all_paths(b))
        key = "resolve_local:alias-target@%s#%d" % ("after-nested-CNAME" if nested else "no-nested-CNAME", sum(1 for l in leaves if l[0] < b))
        ctx.check(not (nested and k != "nested-tail"), "C10.6", key,
                  "alias target = %s" % k,
                  "the nested resolution ended at an unresolved alias, but the target carried on is the first link %s (records repeat / alias followed twice)" % A.show(x)[:100],
                  f.loc(b, i))
    ctx.floor("C10.6", "alias-target values in resolve_local", len(leaves), 5)
    ctx.floor("C10.6", "alias targets taken after a nested CNAME result", sum(1 for b, i, k, x in leaves if k == "nested-tail"), 2)

    # ---------------------------------------------------------------- C10.3
    cluster.check_guards(ctx, "C10.3", prog)
    cluster.check_pushpop(ctx, "C10.3", prog)
    # ... and what those guards consult: the stack of questions in flight, its limit and its duplicate test
    from . import C08
    C08.context_rules(ctx, "C10.3", prog)
    # the alias record a zone hands out is owned by the question name (C02.1), and from an upstream answer only the links
    # actually walked are kept, once each (C06.4 / C06.6) - decided here as well
    from ..core import RuleAlias
    from . import C02, C06
    C02.run(RuleAlias(ctx, {"C02.1": "C10.7"}))
    C06.run(RuleAlias(ctx, {"C06.4": "C10.7", "C06.6": "C10.7"}))

    # ---------------------------------------------------------------- C10.4
    fc = prog.fn(REC + "follow_cnames")
    fr = A.Resolver(fc)
    fcc = A.Conds(fc, fr)
    nones = [b for b, e in A.return_exprs(fc, fr) if A.peel(e)[0] == "agg" and A.peel(e)[2] == "None"]
    loop_blocks = set().union(*[body for _, body in fc.loops()]) if fc.loops() else set()
    # "already visited": `seen.contains(x)` is true, or `seen.insert(x)` returns false (it was there already)
    contains_true = fcc.edges_where(lambda fct: fct[0] == "call" and ((fct[1].endswith("HashSet::<T, S, A>::contains") and fct[3] is True)
                                                                     or (fct[1].endswith("HashSet::<T, S, A>::insert") and fct[3] is False)))
    ok = any(all(nb in fc.reachable(s) and nb not in loop_blocks or True for a, s in contains_true) for nb in nones) and bool(contains_true)
    for a, s in contains_true:
        reach = fc.reachable(s)
        ret_none = [nb for nb in nones if nb in reach]
        back = [x for x in reach if x in loop_blocks and x != s and fc.dominates(x, a)]
        ctx.check(bool(ret_none) and not back, "C10.4", "follow_cnames:loop-returns-none", "seen.contains(target) -> return None (no further walking)",
                  "after meeting an already-seen target the walk continues", fc.loc(a))
    # what is looked up in the visited set is the link about to be followed (the result of the map look-up), not some other name
    def tested(fct):
        return fct[2][1] if fct[0] == "call" and len(fct[2]) >= 2 else None
    for a, s in contains_true:
        xs = [tested(fct) for fct in fcc.edge_facts(a, s) if fct[0] == "call" and (fct[1].endswith("::contains") or fct[1].endswith("::insert"))]
        ok_x = bool(xs) and all(x is not None and any(y[0] == "call" and y[1].endswith("HashMap::<K, V, S, A>::get") for y in A.walk(x)) for x in xs)
        ctx.check(ok_x, "C10.4", "follow_cnames:visited-test-on-next-link", "the visited test is applied to the link about to be followed",
                  "the visited set is asked about %s, not about the next link of the chain" % [A.show(x)[:60] for x in xs if x is not None], fc.loc(a))
    ctx.floor("C10.4", "seen.contains(target) tests", len(contains_true), 1)
    somes = [b for b, e in A.return_exprs(fc, fr) if A.peel(e)[0] == "agg" and A.peel(e)[2] == "Some"]
    for b in somes:
        okm, _ = fcc.guarded(b, lambda fct: (fct[0] == "truth" and fct[2] is True and A.show(fct[1]).count("phi") >= 0 and _is_got_match(fc, fct[1]))
                             or (fct[0] == "call" and fct[1].endswith("HashSet::<T, S, A>::is_empty") and fct[3] is False))
        ctx.check(okm, "C10.4", "follow_cnames:some-needs-evidence", "Some(..) only if a record matched or at least one link was followed",
                  "follow_cnames can report a final name without any matching record or followed link", fc.loc(b))

    # ---------------------------------------------------------------- C10.5
    zh = prog.fn("dns_types::zones::types::zone_result_helper")
    zr = A.Resolver(zh)
    zc = A.Conds(zh, zr)
    cn = list(A.aggregates(zh, "dns_types::zones::types::ZoneResult", "CNAME"))
    ctx.floor("C10.5", "ZoneResult::CNAME construction", len(cn), 1, exact=True)
    for b, i, st in cn:
        ok, _ = zc.guarded(b, lambda fct: fct[0] == "call" and fct[1] == T + "RecordType::matches" and fct[3] is False
                           and A.peel(fct[2][0])[0] == "agg" and A.peel(fct[2][0])[2] == "CNAME" and A.peel(fct[2][1]) == ("param", 2))
        ctx.check(ok, "C10.5", "zone:cname-suppressed", "ZoneResult::CNAME only when !RecordType::CNAME.matches(qtype)",
                  "a zone CNAME is followed even for CNAME/ANY questions", zh.loc(b, i))
    lf = prog.fn(LOCAL)
    lr = A.Resolver(lf)
    lc = A.Conds(lf, lr)
    gets = A.call_blocks(lf, A.name_is("dns_resolver::cache::SharedCache::get"))
    ctx.floor("C10.5", "cache lookups in resolve_local", len(gets), 2, exact=True)
    def is_cname_q(x):
        x = A.peel(x)
        return x[0] == "const" and x[3] is not None and (x[3].get("uneval") or "").endswith("CNAME_QTYPE")
    cq = prog.const("dns_resolver::local::CNAME_QTYPE")
    data = cq.get("data", {})
    ok_const = data.get("variant") == "Record" and data["fields"][0].get("data", {}).get("variant") == "CNAME"
    ctx.check(ok_const, "C10.5", "CNAME_QTYPE", "CNAME_QTYPE = QueryType::Record(RecordType::CNAME)", "CNAME_QTYPE = %s" % data)
    direct = [(b, t) for b, t in gets if A.path_str(lr.call_expr(t, b)[2][2]) == "param2.qtype"]
    alias = [(b, t) for b, t in gets if is_cname_q(lr.call_expr(t, b)[2][2])]
    ctx.check(len(direct) == 1 and len(alias) == 1, "C10.5", "cache:lookups", "one lookup by the asked type, one CNAME lookup",
              "cache lookups: %s" % [A.show(lr.call_expr(t, b)[2][2]) for b, t in gets], lf.loc())
    for b, t in alias:
        ok1, _ = lc.guarded(b, A.cmp_fact({"Ne"}, Path("param2.qtype"), is_cname_q))
        ok2, _ = lc.guarded(b, lambda fct: fct[0] == "call" and A.is_empty_name(fct[1]) and fct[3] is True
                            and any(x[0] == "call" and x[3] == (lf.key, direct[0][0]) for x in A.walk(fct[2][0])) if direct else False)
        ctx.check(ok1 and ok2, "C10.5", "cache:cname-lookup-guard", "CNAME lookup only if qtype != CNAME and the direct lookup was empty",
                  "the cached-alias lookup is not restricted to non-CNAME questions with an empty direct hit", lf.loc(b))


def _is_got_match(fn, e):
    """is `e` the bool local that is set true exactly where a record matched (phi of false/true)?"""
    pe = A.peel(e)
    if pe[0] == "phi":
        vals = [A.peel(x) for x in pe[1]]
        return all(v[0] == "const" for v in vals) and any(v[2] in (True, 1) for v in vals)
    return False
