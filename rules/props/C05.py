"""C05 — the cache never serves a record past its TTL (structural clauses)."""
from .. import analysis as A
from .. import panics as P
from ..analysis import Call, Path, PathEnds, Param, Konst, Any, AnyConst, Field, Bin, Agg, Same

RR = "dns_types::protocol::types::ResourceRecord"
CACHE_GET = "dns_resolver::cache::Cache::get"
CACHE_GET_UNCHECKED = "dns_resolver::cache::Cache::get_without_checking_expiration"
SHARED = "dns_resolver::cache::SharedCache"
PC = "dns_resolver::cache::PartitionedCache::<K1, K2, V>"


def run(ctx):
    prog = ctx.prog
    ctx.rule("C05.1", "Cache::get returns its vector only after retain(|rr| rr.ttl > 0); SharedCache::get goes through Cache::get")
    ctx.rule("C05.2", "to_rrs: ttl = unwrap_or(try_into(as_secs(saturating_duration_since(expiry, now)))), now taken in the same lookup")
    ctx.rule("C05.3", "upsert stores (value, Instant::now() + ttl); Cache::insert passes Duration::from_secs(record.ttl)")
    ctx.rule("C05.4", "every call of Cache::insert is guarded by ttl > 0 of the record being inserted; callers = SharedCache::{insert, insert_all}")
    ctx.rule("C05.5", "upsert removes an equal stored value before pushing the new tuple")
    ctx.rule("C05.6", "the unchecked getters have no production caller besides their wrappers")
    ctx.rule("C05.7", "a lookup hands out everything the cache holds for the name and type: in the ANY arm every record list of the name's partition is converted (an iteration over all of them), in the typed arm the list of that type; the lists come from the partition of the name asked")
    ctx.decline("behaviour along histories with elapsed time (needs a clock)")

    # ------------------------------------------------------------------ C05.1
    f = prog.fn(CACHE_GET)
    r = A.Resolver(f)
    retains = A.call_blocks(f, A.name_endswith("Vec::<T, A>::retain"))
    ctx.floor("C05.1", "Vec::retain in Cache::get", len(retains), 1, exact=True)
    rets = [b for b in f.live_blocks() if f.term(b)["k"] == "return"]
    for b, t in retains:
        e = r.call_expr(t, b)
        vec = A.peel(e[2][0])
        clos = A.peel(e[2][1])
        # the retained vector is what is returned
        ret_expr = A.peel(r.local(0, (rets[0], "term")))
        src_ok = vec[0] == "call" and vec[1] == CACHE_GET_UNCHECKED and ret_expr == vec
        ctx.check(src_ok, "C05.1", "Cache::get:retained-is-returned",
                  "returned vector is the retained result of get_without_checking_expiration",
                  "returned value %s is not the vector passed to retain (%s)" % (A.show(ret_expr), A.show(vec)), f.loc(b))
        dom = all(f.all_paths_cross(0, rb, cut_blocks=[b]) for rb in rets)
        ctx.check(dom, "C05.1", "Cache::get:retain-dominates-return", "every path to return passes retain",
                  "a path reaches return without retain", f.loc(b))
        ok = False
        if clos[0] == "closure":
            cf = prog.fn(clos[1])
            cr = A.Resolver(cf)
            crets = [x for x in cf.live_blocks() if cf.term(x)["k"] == "return"]
            val = cr.local(0, (crets[0], "term"))
            ok = (Bin({"Gt", "Ne"}, PathEnds("ttl"), Konst(0))(val) or Bin({"Lt"}, Konst(0), PathEnds("ttl"))(val)) \
                and A.path_str(A.peel(val)[2] if A.peel(val)[1] != "Lt" else A.peel(val)[3]) == "param2.ttl"
            ctx.check(ok, "C05.1", "Cache::get:retain-predicate", "closure keeps exactly records with ttl > 0: %s" % A.show(val),
                      "retain predicate is %s, expected element.ttl > 0" % A.show(val), cf.loc())
        else:
            ctx.bad("C05.1", "Cache::get:retain-predicate", "retain argument is not a closure literal (unrecognised idiom)", f.loc(b))
    sg = prog.fn(SHARED + "::get")
    calls = [t.get("resolved") or t.get("callee") for _, t in sg.calls()]
    ctx.check(CACHE_GET in calls and CACHE_GET_UNCHECKED not in calls, "C05.1", "SharedCache::get:delegates",
              "SharedCache::get calls Cache::get", "SharedCache::get does not go through the TTL-filtering Cache::get", sg.loc())

    # ------------------------------------------------------------------ C05.2
    f = prog.find("cache::to_rrs")
    r = A.Resolver(f)
    aggs = list(A.aggregates(f, RR))
    ctx.floor("C05.2", "ResourceRecord built in to_rrs", len(aggs), 1, exact=True)
    for b, i, st in aggs:
        e = r.rvalue(st["rv"], (b, i))
        ttl = dict(e[3])["ttl"]
        pat = Call("unwrap_or",
                   A.Checked(Call("Duration::as_secs", A.Or(Call("Instant::saturating_duration_since", PathEnds("1"), Param(2)), Call("Instant::duration_since", PathEnds("1"), Param(2))))),
                   AnyConst())
        ctx.check(pat(ttl), "C05.2", "to_rrs:ttl-expr", "ttl = " + A.show(ttl),
                  "ttl is computed as %s; expected floor of saturating (expiry - now)" % A.show(ttl), f.loc(b, i))
        # the stored instant and the data come from the same tuple
        data = dict(e[3])["rtype_with_data"]
        sds = A.calls_in(ttl, lambda n: n.endswith("duration_since"))
        same = bool(sds) and A.path_str(sds[0][2][0]) is not None and A.path_str(data) is not None and \
            A.path_str(sds[0][2][0])[:-1] == A.path_str(data)[:-1]
        ctx.check(same, "C05.2", "to_rrs:same-tuple", "expiry and data are fields .1/.0 of the same stored tuple",
                  "expiry %s and data %s are not the two halves of one tuple" % (A.show(sds[0][2][0]) if sds else "?", A.show(data)), f.loc(b, i))
    g = prog.fn(CACHE_GET_UNCHECKED)
    gr = A.Resolver(g)
    sites = A.call_blocks(g, A.name_endswith("cache::to_rrs"))
    ctx.floor("C05.2", "to_rrs call sites", len(sites), 2)
    for b, t in sites:
        e = gr.call_expr(t, b)
        now = A.peel(e[2][1])
        ok = now[0] == "call" and now[1] == "std::time::Instant::now" and now[3][0] == g.key
        ctx.check(ok, "C05.2", "get_unchecked:now@bb-arm%d" % sites.index((b, t)), "now = Instant::now() taken in this lookup",
                  "the `now` given to to_rrs is %s, not a fresh Instant::now()" % A.show(now), g.loc(b))

    # ------------------------------------------------------------------ C05.3
    u = prog.fn(PC + "::upsert")
    ur = A.Resolver(u)
    tuple_defs = [(b, i, st) for b, i, st in u.assigns() if st["rv"]["k"] == "agg" and st["rv"]["ak"] == "tuple"
                  and len(st["rv"]["ops"]) == 2 and A.is_plain_local(st["dst"])]
    good = []
    for b, i, st in tuple_defs:
        e = ur.rvalue(st["rv"], (b, i))
        if A.peel(e[1][0]) == ("param", 4):
            good.append((b, i, e))
    ctx.floor("C05.3", "stored tuple (value, expiry) in upsert", len(good), 1, exact=True)
    for b, i, e in good:
        exp = e[1][1]
        pat = Call("add", Call("Instant::now"), Param(5))
        ctx.check(pat(exp) and "Instant" in A.peel(exp)[1], "C05.3", "upsert:expiry", "expiry = " + A.show(exp),
                  "expiry is %s, expected Instant::now() + ttl" % A.show(exp), u.loc(b, i))
    ci = prog.fn("dns_resolver::cache::Cache::insert")
    cir = A.Resolver(ci)
    ups = A.call_blocks(ci, A.name_is(PC + "::upsert"))
    ctx.floor("C05.3", "upsert call in Cache::insert", len(ups), 1, exact=True)
    for b, t in ups:
        e = cir.call_expr(t, b)
        a = e[2]
        ok = Path("param2.name")(a[1]) and Call("RecordTypeWithData::rtype", Path("param2.rtype_with_data"))(a[2]) \
            and Path("param2.rtype_with_data")(a[3]) and Call("Duration::from_secs", Path("param2.ttl"))(a[4])
        ctx.check(ok, "C05.3", "Cache::insert:args", "upsert(name, rtype(), data, from_secs(ttl)) of the same record",
                  "upsert arguments are (%s)" % ", ".join(A.show(x) for x in a[1:]), ci.loc(b))

    # ------------------------------------------------------------------ C05.7
    gu = prog.fn(CACHE_GET_UNCHECKED)
    gur = A.Resolver(gu)
    guc = A.Conds(gu, gur)
    seen7 = {}
    for b, t in gu.calls():
        if not (t.get("callee") or "").endswith("cache::to_rrs"):
            continue
        e = gur.call_expr(t, b)
        # the query types this conversion can run for (however the dispatch is spelt: match arms, if let, matches!)
        QV7 = [v_["name"] for v_ in prog.adt("dns_types::protocol::types::QueryType")["variants"]]
        arms = A.possible_variants(gu, guc, lambda x: A.peel(x) == ("param", 3), QV7, b)
        tuples = e[2][2]
        src = next((A.iter_elem_source(x) for x in A.walk(tuples) if A.iter_elem_source(x) is not None), None)
        all_lists = src is not None and any(x[0] == "call" and (x[1].endswith("::values") or "hash_map::Values" in x[1]) for x in A.walk(tuples)) and \
            any(x[0] == "call" and x[1].endswith("get_partition_without_checking_expiration") and A.peel(x[2][1]) == ("param", 2) for x in A.walk(tuples))
        one_list = any(x[0] == "call" and x[1].endswith("K1, K2, V>::get_without_checking_expiration") and A.peel(x[2][1]) == ("param", 2)
                       and A.path_str(x[2][2]) == "param3.<Record>.0" for x in A.walk(tuples))
        kind = "all" if all_lists else ("one" if one_list else "?" + A.show(tuples)[:60])
        for a_ in arms or ["?"]:
            seen7.setdefault(a_, []).append(kind)
    ctx.check(seen7 == {"Wildcard": ["all"], "Record": ["one"]}, "C05.7", "lookup:arms", "ANY -> every record list of the name; typed -> the list of that type",
              "lookup arms convert %s" % seen7, gu.loc())

    # ------------------------------------------------------------------ C05.4
    callers = A.who_calls(prog, "dns_resolver::cache::Cache::insert")
    names = sorted({f.root_key for f, _, _ in callers})
    ctx.check(names == [SHARED + "::insert", SHARED + "::insert_all"], "C05.4", "who-calls(Cache::insert)",
              "callers = SharedCache::{insert, insert_all}", "Cache::insert is called from %s" % names)
    ctx.floor("C05.4", "Cache::insert call sites", len(callers), 2, exact=True)
    for f, b, t in callers:
        rr = A.Resolver(f)
        c = A.Conds(f, rr)
        rec = rr.call_expr(t, b)[2][1]
        rec_path = A.path_str(rec)
        # the record tested is the record inserted: the same element of the same iteration (a test of *some* element of the
        # batch - `records.iter().any(|r| r.ttl > 0)` - says nothing about this one)
        def elem_site(x):
            for y in A.walk(x):
                if y[0] == "call" and y[1].endswith("::next"):
                    return y[3]
            return None
        rec_site = elem_site(rec)
        ok, edges = c.guarded(b, A.cmp_fact({"Gt", "Ne"}, lambda x: rec_path is not None and A.path_str(x) == rec_path + ".ttl" and elem_site(x) == rec_site, Konst(0)))
        ctx.check(ok, "C05.4", "%s:ttl-guard" % A.short(f.key), "insert of %s dominated by %s.ttl > 0" % (rec_path, rec_path),
                  "Cache::insert(%s) is reachable without passing `%s.ttl > 0`" % (A.show(rec), rec_path), f.loc(b))

    # ------------------------------------------------------------------ C05.5
    pushes = A.call_blocks(u, A.name_endswith("Vec::<T, A>::push"))
    removes = A.call_blocks(u, lambda n: n.endswith("Vec::<T, A>::swap_remove") or n.endswith("Vec::<T, A>::remove"))
    ctx.floor("C05.5", "push of the new tuple on the existing-key path", len(pushes), 1, exact=True)
    ctx.floor("C05.5", "removal of the equal stored value", len(removes), 1)
    uc = A.Conds(u, ur)
    for b, t in removes:
        e = ur.call_expr(t, b)
        vec, idx = e[2][0], e[2][1]
        # guard: tuples[i].0 == <new value>, with the same vector and the same index as the removal
        def eq_same_elem(fct):
            if fct[0] != "cmp" or fct[1] != "Eq":
                return False
            for x, y in ((fct[2], fct[3]), (fct[3], fct[2])):
                if A.peel(y) != ("param", 4):
                    continue
                px = A.peel(x)
                if px[0] == "field" and px[2] == "0":
                    ix = A.peel(px[1])
                    if ix[0] == "call" and ix[1].endswith("::index") and A.same(ix[2][0], vec) and A.same(ix[2][1], idx):
                        return True
            return False
        okg, _ = uc.guarded(b, eq_same_elem)
        if not okg:
            # loop / `position` spelling: the removal is reached only after an element of the same vector compared equal
            # (in its value part) to the new value, and the index removed is that loop's position counter
            def eq_elem(fct):
                if fct[0] != "cmp" or fct[1] != "Eq":
                    return False
                for x, y in ((fct[2], fct[3]), (fct[3], fct[2])):
                    py = A.peel(y)
                    if not (py == ("param", 4) or (py[0] == "field" and py[2] == "0" and A.peel(py[1]) == ("param", 4))):
                        continue
                    px = A.peel(x)
                    if px[0] == "field" and px[2] == "0":
                        src = A.iter_elem_source(px[1])
                        if src is not None and (A.same(src, vec) or A.same_value(src, vec)):
                            return True
                return False
            okg = uc.guarded(b, eq_elem)[0] and bool(P.position_counter_bound(u, ur, idx, vec, b))
        ctx.check(okg, "C05.5", "upsert:remove-equal", "swap_remove(i) guarded by tuples[i].0 == new value",
                  "removal is not guarded by equality of the stored value with the new value at the same index", u.loc(b))
        for pb, pt in pushes:
            pe = ur.call_expr(pt, pb)
            ok = A.same(pe[2][0], vec) and pb in u.reachable(b) and A.peel(A.peel(pe[2][1])[1][0] if A.peel(pe[2][1])[0] == "tuple" else ("x",)) == ("param", 4)
            ctx.check(ok, "C05.5", "upsert:push-after-remove",
                      "push of (new value, expiry) into the scanned vector follows the removal",
                      "push does not follow the removal in the same vector / does not push the new tuple", u.loc(pb))

    # every path through upsert stores the new (value, expiry) tuple: a re-insert always restarts the lifetime
    store_blocks = [b for b, t in pushes]
    for b, i, st in u.assigns():
        rv = st["rv"]
        if rv["k"] == "agg" and rv["ak"] == "array" and st["dst"].get("p") and st["dst"]["p"][0] == "deref":
            e = ur.rvalue(rv, (b, i))
            if len(e[1]) == 1 and A.peel(e[1][0])[0] == "tuple" and A.peel(A.peel(e[1][0])[1][0]) == ("param", 4):
                store_blocks.append(b)
    rets = A.returns(u)
    esc = [rb for rb in rets if rb in u.reachable(0, removed_blocks=store_blocks)]
    ctx.check(len(store_blocks) >= 3 and not esc, "C05.5", "upsert:always-stores-new-tuple",
              "every path from entry to return passes a store of (new value, now + ttl) (push / vec![tuple])",
              "upsert can return without storing the new tuple: a re-inserted record keeps its old expiry", u.loc(esc[0]) if esc else u.loc())

    # ------------------------------------------------------------------ C05.6
    for name, allowed in ((CACHE_GET_UNCHECKED, {CACHE_GET, SHARED + "::get_without_checking_expiration"}),
                          (SHARED + "::get_without_checking_expiration", set()),
                          (PC + "::get_without_checking_expiration", {CACHE_GET_UNCHECKED}),
                          (PC + "::get_partition_without_checking_expiration", {CACHE_GET_UNCHECKED})):
        cs = {f.root_key for f, _, _ in A.who_calls(prog, name)}
        ctx.check(cs <= allowed, "C05.6", "who-calls(%s)" % A.short(name), "callers ⊆ %s" % sorted(A.short(a) for a in allowed),
                  "expiry-unchecked getter called from %s" % sorted(cs - allowed))
