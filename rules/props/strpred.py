"""Normalised predicates on a `&str` value, whichever idiom tests them.

`s.chars().collect::<Vec<char>>()` + indexing, and the `str` methods (`is_empty`, `is_ascii`,
`ends_with`, `strip_prefix`, `starts_with`, `==`), state the same facts about the text; rules ask for
the fact, not for the idiom.

norm(fact, is_s) -> one of
    ('empty', truth)          the text is empty
    ('ascii', truth)          every character is ASCII
    ('last', ch, truth)       the last character is ch
    ('char', k, ch, truth)    character k is ch
    ('prefix', text, truth)   the text starts with `text`
    ('eq', text, truth)       the text equals `text`
    ('minlen', n, truth)      the text has at least n characters
or None."""
from .. import analysis as A


def _lit(e):
    pe = A.peel(e)
    if pe[0] == "const":
        if isinstance(pe[2], str):
            return pe[2]
        if pe[1] == "char" and isinstance(pe[2], int):
            return chr(pe[2])
    return None


def chars_vec_of(e, is_s):
    """is e `S.chars().collect::<Vec<char>>()` (or a view of it)?"""
    pe = A.peel(e)
    if pe[0] == "call" and pe[1].endswith("Iterator::collect") and pe[2]:
        it = A.peel(pe[2][0])
        return it[0] == "call" and it[1].endswith("<impl str>::chars") and is_s(it[2][0])
    return False


def norm(fc, is_s):
    isv = lambda e: chars_vec_of(e, is_s)
    if fc[0] == "call":
        n, args, truth = fc[1], fc[2], fc[3]
        if not args:
            return None
        a0 = args[0]
        if n.endswith("<impl str>::is_empty") and is_s(a0):
            return ("empty", truth)
        if (n.endswith("Vec::<T, A>::is_empty") or n.endswith("<impl [T]>::is_empty")) and isv(a0):
            return ("empty", truth)
        if n.endswith("<impl str>::is_ascii") and is_s(a0):
            return ("ascii", truth)
        if n.endswith("::all") and len(args) == 2 and isv(A.peel(a0)) and "is_ascii" in A.show(args[1]):
            return ("ascii", truth)
        if n.endswith("<impl str>::ends_with") and is_s(a0) and _lit(args[1]) is not None and len(_lit(args[1])) == 1:
            return ("last", _lit(args[1]), truth)
        if n.endswith("<impl str>::starts_with") and is_s(a0) and _lit(args[1]) is not None:
            return ("prefix", _lit(args[1]), truth)
        return None
    if fc[0] in ("is", "isnot") and fc[1] in ("Some", "None"):
        pe = A.peel(fc[2])
        some = (fc[0] == "is") == (fc[1] == "Some")
        if pe[0] == "call" and pe[1].endswith("<impl str>::strip_prefix") and is_s(pe[2][0]) and _lit(pe[2][1]) is not None:
            return ("prefix", _lit(pe[2][1]), some)
        if pe[0] == "call" and pe[1].endswith("<impl str>::strip_suffix") and is_s(pe[2][0]) and _lit(pe[2][1]) is not None and len(_lit(pe[2][1])) == 1:
            return ("last", _lit(pe[2][1]), some)
        return None
    if fc[0] == "cmp":
        for op, x, y in ((fc[1], fc[2], fc[3]), (A.SWAP.get(fc[1], fc[1]), fc[3], fc[2])):
            lit = _lit(y)
            px = A.peel(A.deep_payload(x))
            if op in ("Eq", "Ne") and lit is not None:
                truth = op == "Eq"
                if is_s(x) or is_s(px):
                    return ("eq", lit, truth)
                base = idx = None
                if px[0] == "index":
                    base, idx = px[1], px[2]
                elif px[0] == "call" and (px[4] or px[1]).endswith("Index::index") and len(px[2]) == 2:
                    base, idx = px[2][0], px[2][1]
                if base is not None and isv(base) and len(lit) == 1:
                    ie = A.peel(idx)
                    if ie[0] == "const" and isinstance(ie[2], int):
                        return ("char", ie[2], lit, truth)
                    ar = A.arith(ie) if hasattr(A, "arith") else None
                    if ar is not None and ar[1] == "Sub" and A.peel(ar[3])[0] == "const" and A.peel(ar[3])[2] == 1 and "len" in A.show(ar[2]):
                        return ("last", lit, truth)
            if op in ("Ge", "Gt", "Lt", "Le") and A.peel(y)[0] == "const" and isinstance(A.peel(y)[2], int) and px[0] == "call" and px[1].endswith("::len") and px[2] and (isv(px[2][0]) or is_s(px[2][0])):
                k = A.peel(y)[2]
                if op == "Ge":
                    return ("minlen", k, True)
                if op == "Gt":
                    return ("minlen", k + 1, True)
                if op == "Lt":
                    return ("minlen", k, False)
                if op == "Le":
                    return ("minlen", k + 1, False)
    return None


def edges(conds, is_s, want):
    """edges carrying a fact whose normal form satisfies want(nf)"""
    def pred(fc):
        nf = norm(fc, is_s)
        return nf is not None and want(nf)
    return conds.edges_where(pred)


def guarded(conds, block, is_s, want):
    def pred(fc):
        nf = norm(fc, is_s)
        return nf is not None and want(nf)
    return conds.guarded(block, pred)[0]


def option_sources(fn, res):
    """(block, kind, source) per returned value of a fn returning Result<T, E>:
    kind 'ok' with the expression the Ok payload comes from (through `Some(x) => Ok(x)`, `.ok_or(..)`,
    `.ok_or_else(..)`, `.map_err(..)`), or kind 'err'."""
    out = []
    for b, e in A.return_exprs(fn, res):
        pe = A.peel(e)
        while pe[0] == "call" and pe[1].endswith("Result::<T, E>::map_err") and pe[2]:
            pe = A.peel(pe[2][0])
        if pe[0] == "agg" and pe[2] == "Err":
            out.append((b, "err", pe))
        elif pe[0] == "agg" and pe[2] == "Ok":
            v = A.peel(A.deep_payload(dict(pe[3])["0"]))
            if v[0] == "field" and v[1][0] == "downcast" and v[1][2] in ("Some", "Ok"):
                v = A.peel(v[1][1])
            out.append((b, "ok", v))
        elif pe[0] == "call" and (pe[1].endswith("Option::<T>::ok_or") or pe[1].endswith("Option::<T>::ok_or_else")) and pe[2]:
            out.append((b, "ok", A.peel(pe[2][0])))
        else:
            out.append((b, "?", pe))
    return out


def ascii_required(fn, conds, is_s, block):
    """is `block` unreachable once a non-ASCII character of the text has been seen?  Either the whole-string test
    (`s.is_ascii()` / `chars.iter().all(char::is_ascii)` as a call) guards it, or - in loop form, which is also what
    `all(..)` normalises to - no path leads from a failed per-character `is_ascii` test to the block."""
    if guarded(conds, block, is_s, lambda nf: nf == ("ascii", True)):
        return True
    def bad(fc):
        if fc[0] != "call" or not fc[1].endswith("char>::is_ascii") or fc[3] is not False or not fc[2]:
            return False
        src = A.iter_elem_source(fc[2][0])
        if src is None:
            return False
        return any((x[0] == "call" and x[1].endswith("<impl str>::chars") and is_s(x[2][0])) for x in A.walk(src)) or is_s(src)
    edges_ = conds.edges_where(bad)
    if not edges_:
        return False
    return all(block not in A.reachable_tagged(fn, s_) for a, s_ in edges_)
