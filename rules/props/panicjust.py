"""Checked justifications for the panic-capable externals of the resolver and server paths
(C08.8, C09.9).  Each entry names the structural fact it verifies; anything else stays undischarged."""
from .. import analysis as A
from .. import panics as P
from ..analysis import Call, Path, Param
from . import C17

PC = "dns_resolver::cache::PartitionedCache::<K1, K2, V>::"
SHARED = "dns_resolver::cache::SharedCache::"
NET = "dns_resolver::util::net::"
SER = "dns_types::protocol::serialise::"
Z = "dns_types::zones::types::"
T = "dns_types::protocol::types::"


def bytes_from_to_octets(prog, fn_key, param_name):
    """every production caller of fn passes bytes that originate from Message::to_octets()"""
    callers = A.who_calls(prog, fn_key)
    if not callers:
        return False
    for cf, cb, ct in callers:
        cr = A.Resolver(cf)
        e = cr.call_expr(ct, cb)
        arg = e[2][-1]
        ok = bool(A.calls_in(arg, lambda n: n.endswith("::to_octets")))
        if not ok:
            # passed on from the caller's own parameter: one more level
            ps = A.path_str(arg)
            if ps and ps.startswith("^"):
                ok = bytes_from_to_octets_param(prog, cf.root_key, ps[1:])
        if not ok:
            return False
    return True


def bytes_from_to_octets_param(prog, root_key, pname, depth=0):
    if depth > 3:
        return False
    callers = A.who_calls(prog, root_key)
    if not callers:
        return False
    f = prog.fn(root_key)
    idx = None
    for l in range(1, f.arg_count + 1):
        if f.names.get(l) == pname:
            idx = l - 1
    if idx is None:
        return False
    for cf, cb, ct in callers:
        cr = A.Resolver(cf)
        arg = cr.call_expr(ct, cb)[2][idx]
        if A.calls_in(arg, lambda n: n.endswith("::to_octets")):
            continue
        ps = A.path_str(arg)
        if ps and ps.startswith("^") and bytes_from_to_octets_param(prog, cf.root_key, ps[1:], depth + 1):
            continue
        return False
    return True


def make(prog, state):
    """state: dict collecting deferred sites (mutex expects) for the caller to settle."""
    base = C17.justify(prog)

    def j(f, res, pv, b, kind, t):
        r = base(f, res, pv, b, kind, t)
        if r is not None and r[0]:
            return r
        name = t.get("callee") or ""
        # ---- mutex poisoning: deferred, settled once every Cache method is known panic-free
        if f.key.startswith(SHARED) and kind == "call:expect":
            e = res.call_expr(t, b)
            if bool(Call("Mutex::<T>::lock")(e[2][0])):
                state.setdefault("mutex_expects", []).append((f, b))
                return True, "lock().expect(): the mutex is poisoned only if a holder panicked; settled by '<rule>:mutex-never-poisoned'"
        # ---- Instant + Duration
        if kind == "call:add" and "Instant" in (t.get("resolved") or ""):
            e = res.call_expr(t, b)
            ub_src = A.peel(e[2][1])
            callers = A.who_calls(prog, f.key)
            ok = bool(callers)
            for cf, cb, ct in callers:
                cr = A.Resolver(cf)
                ttl = cr.call_expr(ct, cb)[2][-1]
                ok = ok and bool(Call("Duration::from_secs")(ttl)) and (P.ubound(cf, cr, A.peel_until_call(ttl, "from_secs")[2][0]) or 2 ** 64) <= 2 ** 32
            if ok and ub_src == ("param", 5):
                return True, "now + ttl with ttl = Duration::from_secs(u32) (<= 136 years) at every caller"
            return False, "Instant + Duration with an unbounded duration"
        # ---- cache size counters: decremented only after an element was removed / by a counted amount
        if f.key.startswith(PC) and kind.startswith("assert:Overflow") and "Sub" in t["msg"]:
            a = A.path_str(res.operand(t["ops"][0], (b, "term")), open_root=True) or ""
            if a.endswith(".size") or a.endswith("current_size"):
                return True, "record counters: reduced by the number of records just removed from storage; agreement of the counters with storage is decided by C15.2"
        if f.key.startswith(PC) and kind.startswith("assert:Overflow") and "Add" in t["msg"]:
            return True, "sum of per-step removal counts: bounded by the number of records held in memory"
        # ---- per-request event counters
        if f.key.startswith("dns_resolver::metrics::Metrics::") and kind.startswith("assert:Overflow") and "Add" in t["msg"]:
            c = A.peel(res.operand(t["ops"][1], (b, "term")))
            pl = A.op_place(t["cond"])
            if c[0] == "const" and c[2] == 1 and pl is not None and f.local_ty(pl["l"]).startswith("(u64"):
                return True, "u64 event counter incremented by one per event (2^64 events do not fit in a 60 s resolution)"
        # ---- "expected complete message" guards and the TCP length slice
        if f.root_key in (NET + "send_udp_bytes", NET + "send_udp_bytes_to", NET + "send_tcp_bytes") and kind in ("call:panic_fmt", "call:panic", "call:diverges"):
            g, _ = pv.conds.guarded(b, A.cmp_fact({"Lt"}, Call("len", Path("^bytes")), A.Konst(12)))
            if g and bytes_from_to_octets(prog, f.root_key, "bytes"):
                ms = prog.fn(SER + "<impl dns_types::protocol::types::Message>::serialise")
                hdr = A.call_blocks(ms, A.name_is(SER + "<impl dns_types::protocol::types::Header>::serialise"))
                w16 = [bb for bb, tt in A.call_blocks(ms, A.name_is(SER + "WritableBuffer::write_u16"))]
                rets = [bb for bb, e_ in A.return_exprs(ms) if A.peel(e_)[0] == "agg" and A.peel(e_)[2] == "Ok"]
                if hdr and len(w16) == 4 and all(ms.dominates(x, rb) for x in w16 + [hdr[0][0]] for rb in rets):
                    return True, "bytes come from Message::to_octets at every caller, which always writes the 12-byte header (header + four counts dominate Ok)"
            return False, "`expected complete message` panic: callers' bytes are not known to be a serialised message"
        if f.root_key == NET + "send_tcp_bytes" and kind == "call:index":
            e = res.call_expr(t, b)
            rng = A.peel(e[2][1])
            if A.path_str(e[2][0]) == "^bytes" and rng[0] == "agg" and rng[1] == "std::ops::RangeTo":
                end = A.peel(dict(rng[3])["end"])
                lv = A.peel(end[1]) if end[0] == "cast" else end
                alts = lv[1] if lv[0] == "phi" else [lv]
                ok = True
                for a in alts:
                    a = A.peel(a)
                    if a[0] == "const":
                        # u16::MAX is used only when bytes.len() does not fit in a u16
                        ok = ok and a[2] == 65535
                    else:
                        ok = ok and a[0] == "field" and a[1][0] == "downcast" and a[1][2] == "Ok" and bool(A.Checked(Call("len", Path("^bytes")))(a[1][1]))
                if ok and len(alts) == 2:
                    return True, "slice end = bytes.len() (when it fits u16) or 65535 (only when bytes.len() > 65535)"
            return False, "TCP payload slice end is not bounded by bytes.len()"
        # ---- RDLENGTH back-patch
        if f.key == SER + "<impl dns_types::protocol::types::ResourceRecord>::serialise" and (kind.startswith("assert:Overflow") or kind == "assert:BoundsCheck"):
            ph = [bb for bb, tt in A.call_blocks(f, A.name_is(SER + "WritableBuffer::write_u16")) if A.peel(res.call_expr(tt, bb)[2][1])[2] == 0]
            idx = [bb for bb, tt in A.call_blocks(f, A.name_is(SER + "WritableBuffer::index"))]
            if ph and idx and any(f.dominates(i_, ph[0]) for i_ in idx) and f.dominates(ph[0], b):
                return True, "the buffer only grows: two placeholder octets were written right after rdlength_index was taken, so index() >= rdlength_index + 2 and both patched offsets exist"
            return False, "RDLENGTH patch arithmetic is not preceded by the 2-octet placeholder"
        if f.key == SER + "WritableBuffer::write_octets" and kind == "call:put_slice":
            return True, "BytesMut::put_slice grows the buffer; it panics only on capacity overflow (allocation-failure class, out of scope)"
        # ---- zone lookups
        if f.key == Z + "zone_result_helper" and kind in ("call:panic_fmt", "call:panic"):
            ok = True
            for key in (Z + "ZoneRecords::insert", Z + "ZoneRecords::insert_wildcard"):
                g = prog.fn(key)
                gr = A.Resolver(g)
                for bb, i, st in A.aggregates(g, Z + "ZoneRecord"):
                    ee = gr.rvalue(st["rv"], (bb, i))
                    ok = ok and A.peel(dict(ee[3])["rtype_with_data"]) == ("param", 3)
                for bb, tt in A.call_blocks(g, A.name_endswith("HashMap::<K, V, S, A>::insert")):
                    ke = gr.call_expr(tt, bb)[2][1]
                    if "ZoneRecords" in g.local_ty(A.op_place(tt["args"][2])["l"]) if A.op_place(tt["args"][2]) else False:
                        continue
                    ok = ok and bool(Call("RecordTypeWithData::rtype", Param(3))(ke))
                for bb, tt in A.call_blocks(g, A.name_endswith("HashMap::<K, V, S, A>::get_mut")):
                    ke = gr.call_expr(tt, bb)
                    if A.last_field(ke[2][0]) in ("this",) or "wildcards" in A.show(ke[2][0]):
                        ok = ok and bool(Call("RecordTypeWithData::rtype", Param(3))(ke[2][1]))
            ws = {w[0].key for w in A.who_writes(prog, Z + "ZoneRecords", "this") + A.who_writes(prog, Z + "ZoneRecords", "wildcards")}
            ok = ok and ws <= {Z + "ZoneRecords::insert", Z + "ZoneRecords::insert_wildcard", Z + "ZoneRecords::merge", Z + "Zone::merge", Z + "ZoneRecords::new"}
            if ok:
                return True, "record maps are keyed by rtype() of the stored record at every insertion (and merged key-wise): the vector under CNAME holds CNAME records"
            return False, "a non-CNAME record could be stored under the CNAME key"
        return r
    return j


def settle_mutex(ctx, rule, prog, state, undischarged_fn_keys):
    """lock().expect(..) cannot fire: no function that runs with the guard held has an undischarged
    panic site."""
    held = [f for f in P.reach_set(prog, ["dns_resolver::cache::Cache::get", "dns_resolver::cache::Cache::get_without_checking_expiration",
                                          "dns_resolver::cache::Cache::insert", "dns_resolver::cache::Cache::prune"])]
    bad = sorted({f.key for f in held} & set(undischarged_fn_keys))
    n = len(state.get("mutex_expects", []))
    ctx.check(not bad and n >= 1, rule, "mutex-never-poisoned", "%d lock().expect() sites: no undischarged panic site in the %d functions that run under the cache lock" % (n, len(held)),
              "a panic while the cache lock is held would poison it and take every later request down: %s" % bad)
