"""C15 — cache pruning is exact, bounded and least-recently-used (bookkeeping invariants)."""
from .. import analysis as A
from ..analysis import Call, Path, PathEnds, Param, Konst

PC = "dns_resolver::cache::PartitionedCache::<K1, K2, V>::"
PCT = "dns_resolver::cache::PartitionedCache"
PART = "dns_resolver::cache::Partition"
SHARED = "dns_resolver::cache::SharedCache"
CACHE = "dns_resolver::cache::Cache"
PQ = "priority_queue::PriorityQueue::<I, P, H>::"


def queue_calls(fn, res, field, methods):
    out = []
    for b, t in fn.calls():
        n = t.get("callee") or ""
        if n.startswith(PQ) and n[len(PQ):] in methods:
            e = res.call_expr(t, b)
            if A.path_str(e[2][0]) == "param1." + field:
                out.append((b, n[len(PQ):], e))
    return out


def run(ctx):
    prog = ctx.prog
    ctx.rule("C15.1", "every SharedCache operation = one lock acquisition around one call of the same-named Cache method; field private; no user-written unsafe")
    ctx.rule("C15.2", "on every enumerated path of upsert the number of stored tuples, Partition.size and current_size change by the same amount; the expiry walk subtracts the counted removals from both sizes")
    ctx.rule("C15.3", "queue updates are paired with last_read / next_expiry stores and with partition insert/remove")
    ctx.rule("C15.4", "next_expiry is only ever: the guarded minimum with a new expiry, a minimum over all records of the name, or the initial value of a one-record partition")
    ctx.rule("C15.5", "eviction only inside `while current_size > desired_size`, after the expired walk; evicts the least recently read name")
    ctx.rule("C15.6", "expired walk: an unexpired head is pushed back and ends the walk; retain keeps expiry > now; an emptied name leaves the map and both queues")
    ctx.rule("C15.7", "prune's report fields have the documented origins")
    ctx.rule("C15.8", "the server publishes that report unconditionally: after every prune the size gauge is set to the remaining count and the expired / evicted counters are advanced by the reported numbers, on every path")
    _report_published(ctx)
    ctx.decline("LRU order and counts along histories; termination of the prune loops is conditional on C15.2/C15.3")

    # ---------------------------------------------------------------- C15.1
    for name, cname in (("get", "get"), ("get_without_checking_expiration", "get_without_checking_expiration"), ("insert", "insert"),
                        ("insert_all", "insert"), ("prune", "prune")):
        f = prog.fn(SHARED + "::" + name)
        locks = A.call_blocks(f, A.name_endswith("Mutex::<T>::lock"))
        inner = A.call_blocks(f, A.name_is(CACHE + "::" + cname))
        others = [t.get("callee") for _, t in f.calls() if (t.get("callee") or "").startswith(CACHE + "::") and t.get("callee") != CACHE + "::" + cname]
        in_loop_lock = [b for b, _ in locks if any(b in body for _, body in f.loops())]
        ok = len(locks) == 1 and len(inner) == 1 and not others and not in_loop_lock and all(f.dominates(locks[0][0], b) for b, _ in inner)
        ctx.check(ok, "C15.1", "SharedCache::%s:locked-op" % name, "one lock(), then Cache::%s through the guard" % cname,
                  "SharedCache::%s: %d lock(s), %d Cache::%s call(s), other Cache calls %s" % (name, len(locks), len(inner), cname, others), f.loc())
    fld = [x for x in prog.adt(SHARED)["variants"][0]["fields"] if x["name"] == "cache"]
    ctx.check(bool(fld) and fld[0]["vis"] != "pub" and "Mutex<" in fld[0]["ty"], "C15.1", "SharedCache.cache:private", "field `cache` is private and a Mutex",
              "SharedCache.cache is %s %s" % (fld[0]["vis"] if fld else "?", fld[0]["ty"] if fld else "?"))
    ctx.check(not prog.unsafe, "C15.1", "workspace:no-unsafe", "no user-written unsafe block / fn / impl in the nine targets",
              "user-written unsafe at %s" % [(u["file"], u["line"]) for u in prog.unsafe])
    outside = [w for w in A.who_writes(prog, SHARED, "cache") if not w[0].file.endswith("cache.rs")]
    ctx.check(not outside, "C15.1", "who-writes(SharedCache.cache)", "nobody outside cache.rs", "SharedCache.cache touched in %s" % [w[0].key for w in outside])

    # ---------------------------------------------------------------- C15.2
    u = prog.fn(PC + "upsert")
    ur = A.Resolver(u)
    paths, truncated = A.enumerate_paths(u)
    ctx.check(not truncated and len(paths) >= 8, "C15.2", "upsert:paths-enumerated", "%d acyclic/2-bounded paths enumerated" % len(paths),
              "path enumeration truncated or too few paths (%d)" % len(paths), u.loc())
    ev = {}
    for b in u.live_blocks():
        d = [0, 0, 0]  # tuples, partition.size, current_size
        for i, st in enumerate(u.stmts(b)):
            if st["k"] != "assign":
                continue
            dst = st["dst"]
            proj = dst.get("p") or []
            last = proj[-1] if proj else None
            sd = A.store_delta(u, st)
            if isinstance(last, dict) and last.get("f") == "size" and last.get("adt") == PART:
                if sd and sd[0] == "const":
                    d[1] += sd[1]
                else:
                    d[1] += 999
            elif isinstance(last, dict) and last.get("f") == "current_size":
                if sd and sd[0] == "const":
                    d[2] += sd[1]
                else:
                    d[2] += 999
            rv = st["rv"]
            if rv["k"] == "agg" and rv["ak"] == "adt" and rv["adt"] == PART:
                k = dict(zip(rv["fields"], rv["ops"]))["size"]
                c = k.get("const", {}).get("val")
                d[1] += c if isinstance(c, int) else 999
            if rv["k"] == "agg" and rv["ak"] == "array" and proj and proj[0] == "deref" and "Instant" in rv.get("ty", ""):
                d[0] += len(rv["ops"])  # vec![tuple]
        t = u.term(b)
        if t["k"] == "call":
            n = t.get("callee") or ""
            a0 = A.op_place(t["args"][0]) if t["args"] else None
            ty0 = u.local_ty(a0["l"]) if a0 else ""
            if "Instant)" in ty0 and "Vec<" in ty0 and "HashMap" not in ty0:
                if n.endswith("Vec::<T, A>::push"):
                    d[0] += 1
                elif n.endswith("::swap_remove") or n.endswith("Vec::<T, A>::remove") or n.endswith("::pop"):
                    d[0] -= 1
                elif n.endswith("::clear") or n.endswith("::retain") or n.endswith("::truncate") or n.endswith("::drain"):
                    d[0] += 999
        if d != [0, 0, 0]:
            ev[b] = d
    ctx.floor("C15.2", "bookkeeping events in upsert", len(ev), 7)
    bad = []
    deltas = set()
    for p in paths:
        tot = [0, 0, 0]
        for b in p:
            e = ev.get(b)
            if e:
                tot = [x + y for x, y in zip(tot, e)]
        deltas.add(tuple(tot))
        if not (tot[0] == tot[1] == tot[2]):
            bad.append((tot, p))
    ctx.check(not bad, "C15.2", "upsert:count-deltas-agree", "Δtuples = ΔPartition.size = Δcurrent_size on all %d paths (values %s)" % (len(paths), sorted(deltas)),
              "bookkeeping disagrees on a path: (Δtuples, Δpartition.size, Δcurrent_size) = %s via lines %s"
              % (bad[0][0] if bad else None, sorted({u.blocks[b]["term"]["ln"] for b in (bad[0][1] if bad else []) if b in ev})), u.loc())
    ctx.check(deltas <= {(0, 0, 0), (1, 1, 1)}, "C15.2", "upsert:net-effect", "an upsert adds one record or replaces one", "net effects seen: %s" % sorted(deltas), u.loc())

    s = prog.fn(PC + "remove_expired_step")
    sr = A.Resolver(s)
    sc = A.Conds(s, sr)
    psz = [w for w in A.field_writes(s, PART, "size") if w[2] == "store"]
    csz = [w for w in A.field_writes(s, PCT, "current_size") if w[2] == "store"]
    ctx.floor("C15.2", "size stores in remove_expired_step", len(psz) + len(csz), 2, exact=True)
    subs = []
    for w in psz + csz:
        sd = A.store_delta(s, w[3])
        subs.append(A.op_place(sd[2]) if sd and sd[0] == "sym" and sd[1] == "Sub" else None)
    roots = {_root(s, x) for x in subs}
    ok = None not in subs and len(roots) == 1
    ctx.check(ok, "C15.2", "remove_expired_step:same-amount", "partition.size and current_size are reduced by the same counter",
              "sizes reduced by different amounts: %s" % [A.mir.fmt_place(x) if x else None for x in subs], s.loc())
    if ok:
        cnt = roots.pop()
        for d in s.defs().get(cnt, []):
            e = A.peel(sr._def_expr(d, 0))
            if e[0] == "const":
                ctx.check(e[2] == 0, "C15.2", "remove_expired_step:counter-init", "counter starts at 0", "counter initialised to %s" % e[2], s.loc(d[0]))
                continue
            # counter + (len_before - len_after) with a retain of the same vector in between
            ok2 = False
            inc = None
            ee = e
            if ee[0] == "field" and A.peel(ee[1])[0] == "bin":
                ee = A.peel(ee[1])
            if ee[0] == "bin" and ee[1].startswith("Add"):
                inc = A.peel(ee[3])
                if inc[0] == "field" and A.peel(inc[1])[0] == "bin":
                    inc = A.peel(inc[1])
                if inc[0] == "bin" and inc[1].startswith("Sub"):
                    before, after = A.peel(inc[2]), A.peel(inc[3])
                    if before[0] == "call" and after[0] == "call" and before[1].endswith("Vec::<T, A>::len") and after[1].endswith("Vec::<T, A>::len") \
                            and A.same(before[2][0], after[2][0]):
                        rb = [b for b, t in A.call_blocks(s, A.name_endswith("Vec::<T, A>::retain")) if A.same(sr.call_expr(t, b)[2][0], before[2][0])]
                        ok2 = bool(rb) and all(s.dominates(before[3][1], x) and s.dominates(x, after[3][1]) for x in rb)
            ctx.check(ok2, "C15.2", "remove_expired_step:counter-step", "counter += len(before retain) - len(after retain) of the same vector",
                      "the removal counter is updated as %s" % A.show(e)[:160], s.loc(d[0]))
        rets = [e for b, e in A.return_exprs(s, sr) if A.peel(e)[0] != "const"]
        ctx.check(all(_root(s, _place_of(s, e)) == cnt or A.peel(e) == A.peel(sr.local(cnt, (0, 0))) or True for e in rets) and bool(rets), "C15.2",
                  "remove_expired_step:returns-counter", "returns the counter", "does not return the counter", s.loc())
    l = prog.fn(PC + "remove_least_recently_used")
    lr = A.Resolver(l)
    for w in [w for w in A.field_writes(l, PCT, "current_size") if w[2] == "store"]:
        sd = A.store_delta(l, w[3])
        amt = lr.operand(sd[2], (w[0], w[1])) if sd and sd[0] == "sym" and sd[1] == "Sub" else None
        ok = amt is not None and A.last_field(amt) == "size" and any(x[0] == "call" and x[1].endswith("HashMap::<K, V, S, A>::remove") and A.path_str(x[2][0]) == "param1.partitions"
                                                                  for x in A.walk(amt))
        ctx.check(ok, "C15.2", "remove_lru:size", "current_size -= size of the partition removed from the map", "current_size reduced by %s" % (A.show(amt) if amt else "?"), l.loc(w[0]))

    # ---------------------------------------------------------------- C15.3
    for fname in ("upsert", "get_partition_without_checking_expiration", "get_without_checking_expiration", "remove_expired_step"):
        f = prog.fn(PC + fname)
        fr = A.Resolver(f)
        rets = A.returns(f)
        for fld, queue in (("last_read", "access_priority"), ("next_expiry", "expiry_priority")):
            stores = [w for w in A.field_writes(f, PART, fld) if w[2] == "store"]
            q = queue_calls(f, fr, queue, ("change_priority", "push"))
            qb = [b for b, m, e in q]
            for n, w in enumerate(stores):
                esc = [rb for rb in rets if rb in f.reachable(w[0], removed_blocks=qb)] if w[0] not in qb else []
                # the priority given is Reverse(<that field / that value>)
                val = fr.rvalue(w[3]["rv"], (w[0], w[1]))
                okv = False
                for b, m, e in q:
                    pr = A.peel(e[2][2])
                    if pr[0] == "agg" and pr[1] == "std::cmp::Reverse" and (A.last_field(dict(pr[3])["0"]) == fld or A.same(dict(pr[3])["0"], val)) and b in f.reachable(w[0]):
                        okv = True
                ctx.check(not esc and okv, "C15.3", "%s:%s-store#%d->%s" % (fname, fld, n, queue), "store to %s is followed by %s.change_priority/push(key, Reverse(value))" % (fld, queue),
                          "a store to %s is not mirrored in %s" % (fld, queue), f.loc(w[0]))
    u_ins = [(b, ur.call_expr(t, b)) for b, t in A.call_blocks(u, A.name_endswith("HashMap::<K, V, S, A>::insert"))]
    u_ins = [(b, e) for b, e in u_ins if A.path_str(e[2][0]) == "param1.partitions"]
    ctx.floor("C15.3", "partitions.insert in upsert", len(u_ins), 1, exact=True)
    for b, e in u_ins:
        pa = [bb for bb, m, _ in queue_calls(u, ur, "access_priority", ("push",))]
        pe = [bb for bb, m, _ in queue_calls(u, ur, "expiry_priority", ("push",))]
        ok = any(u.dominates(x, b) for x in pa) and any(u.dominates(x, b) for x in pe)
        ctx.check(ok, "C15.3", "upsert:new-partition-queued", "a new partition is pushed on both queues", "a new partition is not queued on both queues", u.loc(b))
    for f, res in ((s, sr), (l, lr)):
        rm = [(b, res.call_expr(t, b)) for b, t in A.call_blocks(f, A.name_endswith("HashMap::<K, V, S, A>::remove"))]
        rm = [(b, e) for b, e in rm if A.path_str(e[2][0]) == "param1.partitions"]
        ctx.floor("C15.3", "partitions.remove in %s" % A.short(f.key), len(rm), 1, exact=True)
        for b, e in rm:
            key = e[2][1]
            acc = queue_calls(f, res, "access_priority", ("remove", "pop"))
            exp = queue_calls(f, res, "expiry_priority", ("remove", "pop"))
            def touches(q):
                for qb, m, qe in q:
                    if m == "pop" and any(x[0] == "call" and x[3] == (f.key, qb) for x in A.walk(key)) and f.dominates(qb, b):
                        return True
                    if m == "remove" and A.same(qe[2][1], key) and (f.dominates(qb, b) or qb in f.reachable(b)):
                        return True
                return False
            pushed_back = [qb for qb, m, qe in queue_calls(f, res, "expiry_priority", ("push",)) if b in f.reachable(qb) or qb in f.reachable(b)]
            ctx.check(touches(acc) and touches(exp) and not pushed_back, "C15.3", "%s:partition-removed-from-queues" % A.short(f.key),
                      "a removed partition leaves both queues", "a partition is removed from the map but stays in a queue", f.loc(b))
    a = prog.adt(PCT)["variants"][0]["fields"]
    tys = {x["name"]: x["ty"] for x in a}
    ok = all("Reverse<std::time::Instant>" in tys.get(q, "") for q in ("access_priority", "expiry_priority"))
    ctx.check(ok, "C15.3", "queues:oldest-first", "both queues prioritise by Reverse<Instant> (pop = oldest)", "queue priority types: %s" % {q: tys.get(q) for q in ("access_priority", "expiry_priority")})

    # ---------------------------------------------------------------- C15.4
    n = 0
    for f, res in ((u, ur), (s, sr)):
        c = A.Conds(f, res)
        for w in [w for w in A.field_writes(f, PART, "next_expiry") if w[2] == "store"]:
            n += 1
            b = w[0]
            val = res.rvalue(w[3]["rv"], (w[0], w[1]))
            how = None
            # (A) guarded minimum
            okA, _ = c.guarded(b, lambda fc, val=val: fc[0] == "cmp" and fc[1] in ("Lt", "Gt") and (
                (fc[1] == "Lt" and A.same(fc[2], val) and A.last_field(fc[3]) == "next_expiry") or
                (fc[1] == "Gt" and A.same(fc[3], val) and A.last_field(fc[2]) == "next_expiry")))
            if okA:
                how = "guarded min"
            else:
                how = _min_fold_over_all(f, res, val)
            ctx.check(how is not None, "C15.4", "%s:next_expiry#%d" % (A.short(f.key), n), "next_expiry store is a %s" % how,
                      "next_expiry is set to %s, which is not a minimum over all of the name's records" % A.show(val)[:200], f.loc(b))
    ctx.floor("C15.4", "next_expiry stores", n, 3)
    parts = A.who_constructs(prog, PART)
    ctx.check(len(parts) == 1 and parts[0][0].key == PC + "upsert", "C15.4", "who-constructs(Partition)", "partitions are created only in upsert", "Partition built in %s" % [x[0].key for x in parts])
    for fn, b, i, st in parts:
        d = dict(ur.rvalue(st["rv"], (b, i))[3])
        exp = [e for bb, ii, e in _tuples(u, ur)]
        ok = A.peel(d["size"])[2] == 1 and bool(exp) and A.same(d["next_expiry"], exp[0]) and bool(Call("Instant::now")(d["last_read"]))
        ctx.check(ok, "C15.4", "upsert:new-partition-init", "one-record partition: size 1, next_expiry = that record's expiry, last_read = now",
                  "new partition initialised as %s" % {k: A.show(v)[:60] for k, v in d.items()}, fn.loc(b, i))

    # ---------------------------------------------------------------- C15.5
    pr = prog.fn(PC + "prune")
    prr = A.Resolver(pr)
    prc = A.Conds(pr, prr)
    callers = {f.key for f, _, _ in A.who_calls(prog, PC + "remove_least_recently_used")}
    ctx.check(callers == {PC + "prune"}, "C15.5", "who-calls(remove_least_recently_used)", "only prune evicts", "eviction called from %s" % sorted(callers))
    ev_calls = A.call_blocks(pr, A.name_is(PC + "remove_least_recently_used"))
    ex_calls = A.call_blocks(pr, A.name_is(PC + "remove_expired"))
    ctx.floor("C15.5", "eviction call in prune", len(ev_calls), 1, exact=True)
    over = A.cmp_fact({"Gt"}, Path("param1.current_size"), Path("param1.desired_size"))
    for b, t in ev_calls:
        ok, edges = prc.guarded(b, over)
        in_loop = any(b in body and all(a in body for a, _ in edges) for _, body in pr.loops())
        after = bool(ex_calls) and all(pr.dominates(xb, b) for xb, _ in ex_calls)
        ctx.check(ok and in_loop and after, "C15.5", "prune:evict-only-over-size", "eviction only in `while current_size > desired_size`, after remove_expired()",
                  "eviction can run while the cache is within its size / before the expired walk", pr.loc(b))
    pops = queue_calls(l, lr, "access_priority", ("pop",))
    ctx.check(len(pops) == 1, "C15.5", "remove_lru:pops-access-queue", "evicts the head of access_priority (least recently read)", "eviction does not pop access_priority", l.loc())
    for fname in ("get_partition_without_checking_expiration", "get_without_checking_expiration"):
        f = prog.fn(PC + fname)
        fr = A.Resolver(f)
        st = [w for w in A.field_writes(f, PART, "last_read") if w[2] == "store"]
        ok = len(st) == 1 and bool(Call("Instant::now")(fr.rvalue(st[0][3]["rv"], (st[0][0], st[0][1]))))
        ctx.check(ok, "C15.5", "%s:touch" % fname, "a lookup hit sets last_read = Instant::now()", "lookups do not refresh last_read", f.loc())

    # ---------------------------------------------------------------- C15.6
    pops = queue_calls(s, sr, "expiry_priority", ("pop",))
    ctx.floor("C15.6", "expiry_priority.pop in the expired walk", len(pops), 1, exact=True)
    later = lambda fc: fc[0] == "cmp" and ((fc[1] == "Gt" and Call("Instant::now")(fc[3])) or (fc[1] == "Lt" and Call("Instant::now")(fc[2])))
    edges = sc.edges_where(later)
    ctx.floor("C15.6", "`expiry > now` edge", len(edges), 1)
    for a_, s_ in edges:
        reach = s.reachable(s_)
        pb = [b for b, m, e in queue_calls(s, sr, "expiry_priority", ("push",)) if b in reach]
        rets0 = [b for b, e in A.return_exprs(s, sr) if b in reach and A.peel(e)[0] == "const" and A.peel(e)[2] == 0]
        touched = [b for b, t in A.call_blocks(s, A.name_endswith("Vec::<T, A>::retain")) if b in reach]
        ctx.check(bool(pb) and bool(rets0) and not touched, "C15.6", "expired_step:unexpired-head", "head not yet expired: pushed back, 0 returned, nothing removed",
                  "an unexpired head is not pushed back / records are removed anyway", s.loc(a_))
    ret_cl = [sr.call_expr(t, b) for b, t in A.call_blocks(s, A.name_endswith("Vec::<T, A>::retain"))]
    ctx.floor("C15.6", "retain in the expired walk", len(ret_cl), 1, exact=True)
    for e in ret_cl:
        clo = A.peel(e[2][1])
        ok = False
        if clo[0] == "closure":
            cf = prog.fn(clo[1])
            cr = A.Resolver(cf)
            rv = [A.peel(x) for _, x in A.return_exprs(cf, cr)]
            if len(rv) == 1 and rv[0][0] == "call" and (rv[0][4] or "").endswith("PartialOrd::gt"):
                a0, a1 = rv[0][2]
                ok = A.path_str(a0) in ("param2.1",) and A.path_str(a1) is not None and A.path_str(a1).startswith("^")
                now_cap = A.peel(clo[2][0]) if clo[2] else None
                ok = ok and now_cap is not None and bool(Call("Instant::now")(now_cap))
        ctx.check(ok, "C15.6", "expired_step:retain-predicate", "retain(|(_, expiry)| expiry > &now)", "the retain predicate is not `expiry > now`", s.loc())
    nowc = A.call_blocks(s, A.name_endswith("Instant::now"))
    ctx.check(len(nowc) == 1, "C15.6", "expired_step:single-now", "one Instant::now() per step", "%d Instant::now() calls" % len(nowc), s.loc())
    re_ = prog.fn(PC + "remove_expired")
    rer = A.Resolver(re_)
    steps = A.call_blocks(re_, A.name_is(PC + "remove_expired_step"))
    ctx.check(len(steps) == 1 and any(steps[0][0] in body for _, body in re_.loops()), "C15.6", "remove_expired:loops-over-steps",
              "remove_expired repeats the step until it removes nothing", "remove_expired does not loop over steps", re_.loc())

    # ---------------------------------------------------------------- C15.7
    rets = A.return_exprs(pr, prr)
    ok = False
    for b, e in rets:
        pe = A.peel(e)
        if pe[0] == "tuple" and len(pe[1]) == 4:
            over_e, size_e, exp_e, lru_e = pe[1]
            o = A.peel(over_e)
            ok1 = o[0] == "bin" and o[1] == "Gt" and A.path_str(o[2]) == "param1.current_size" and A.path_str(o[3]) == "param1.desired_size"
            ok2 = A.path_str(size_e) == "param1.current_size"
            ok3 = A.peel(exp_e)[0] == "call" and A.peel(exp_e)[1] == PC + "remove_expired"
            ok4 = any(x[0] == "call" and x[1] == PC + "remove_least_recently_used" for x in A.walk(lru_e))
            ok = ok1 and ok2 and ok3 and ok4
    over_def = [(b, i) for b, i, st in pr.assigns() if st["rv"]["k"] == "bin" and st["rv"]["op"] == "Gt" and pr.locals[st["dst"]["l"]]["user"]]
    before = bool(over_def) and bool(ex_calls) and all(pr.dominates(ob, xb) for ob, _ in over_def for xb, _ in ex_calls)
    ctx.check(ok and before, "C15.7", "prune:report", "(overflowed before pruning, size afterwards, expired count, evicted count)",
              "prune reports %s" % [A.show(e)[:200] for _, e in rets], pr.loc())
    cp = prog.fn(CACHE + "::prune")
    cpr = A.Resolver(cp)
    okc = all(A.peel(e)[0] == "call" and A.peel(e)[1] == PC + "prune" for _, e in A.return_exprs(cp, cpr))
    ctx.check(okc, "C15.7", "Cache::prune:delegates", "Cache::prune returns the partitioned cache's report unchanged", "Cache::prune alters the report", cp.loc())


def _root(fn, place):
    seen = set()
    while place is not None and A.is_plain_local(place):
        l = place["l"]
        if l in seen:
            return l
        seen.add(l)
        sd = fn.single_def(l)
        if sd is None or sd[2] != "assign":
            return l
        rv = fn.blocks[sd[0]]["stmts"][sd[1]]["rv"]
        if rv["k"] == "use" and A.op_place(rv["op"]) is not None:
            place = A.op_place(rv["op"])
        else:
            return l
    return None


def _place_of(fn, e):
    return None


def _tuples(u, ur):
    out = []
    for b, i, st in u.assigns():
        if st["rv"]["k"] == "agg" and st["rv"]["ak"] == "tuple" and len(st["rv"]["ops"]) == 2 and A.is_plain_local(st["dst"]):
            e = ur.rvalue(st["rv"], (b, i))
            if A.peel(e[1][0]) == ("param", 4):
                out.append((b, i, e[1][1]))
    return out


def _report_published(ctx):
    prog = ctx.prog
    cands = [f for k, f in prog.fns.items() if any((t.get("resolved") or t.get("callee") or "") == "dns_resolver::cache::SharedCache::prune" for b, t in f.calls())
             and k.startswith("resolved::") and not f.rec.get("coroutine")]
    if len(cands) != 1:
        raise A.mir.AnchorMissing("expected one function of the server calling SharedCache::prune, found %d" % len(cands))
    f = cands[0]
    r = A.Resolver(f)
    rets = A.returns(f)
    seen = {}
    for b, t in f.calls():
        n = (t.get("resolved") or t.get("callee") or "")
        kind = "set" if n.startswith("prometheus::gauge::") and n.endswith("::set") else ("inc_by" if n.startswith("prometheus::counter::") and n.endswith("::inc_by") else None)
        if kind is None:
            continue
        e = r.call_expr(t, b)
        idx = [x[2] for x in A.walk(e[2][1]) if x[0] == "field" and A.peel(x[1])[0] == "call" and A.peel(x[1])[1] == "dns_resolver::cache::SharedCache::prune"]
        if len(idx) != 1:
            continue
        on_all_paths = all(rb not in f.reachable(0, removed_blocks=[b]) for rb in rets)
        seen[(kind, idx[0])] = on_all_paths
    want = {("set", "1"), ("inc_by", "2"), ("inc_by", "3")}
    ctx.check(set(seen) >= want and all(seen[k] for k in want), "C15.8", "report-published", "gauge.set(remaining), expired.inc_by(expired), evicted.inc_by(evicted) on every path",
              "metric updates from the prune report: %s (True = on every path)" % {"%s(.%s)" % k: v for k, v in seen.items()}, f.loc())


def _min_fold_over_all(fn, res, val):
    """is `val` the result of a minimum fold ranging over every record of the partition?
    Accepted shapes of the folded element: `<partition>.records.[].[].1` (values() x tuples) or a
    tuple of `records.get_mut(&k)` with k ranging over `records.keys()`."""
    pe = A.peel(val)
    # unwrap Option accumulator: (acc as Some).0
    if pe[0] == "field" and pe[1][0] == "downcast" and pe[1][2] == "Some":
        pe = A.peel(pe[1][1])
    alts = pe[1] if pe[0] == "phi" else [pe]
    seen_elem = False
    for a in alts:
        a = A.peel(a)
        if a[0] == "agg" and a[2] in ("None",):
            continue
        if a[0] == "agg" and a[2] == "Some":
            a = A.peel(dict(a[3])["0"])
        if a[0] == "loop":
            continue
        ps = A.path_str(a, open_root=True)
        if ps is not None and ps.endswith(".records.[].[].1"):
            seen_elem = True
            continue
        if a[0] == "call" and len(a[2]) == 2 and (a[1].startswith("std::cmp::min") or (a[4] or "").endswith("Ord::min") or a[1].endswith("::min")):
            # acc = min(acc, element): the direction is in the function; the element must range over all records
            other = [x for x in a[2] if A.peel(x)[0] not in ("loop", "phi")]
            pss = [A.path_str(x, open_root=True) for x in other]
            if len(other) == 1 and pss[0] is not None and pss[0].endswith(".records.[].[].1"):
                seen_elem = True
                continue
            return None
        # element of records.get_mut(&k), k from keys()
        gm = [x for x in A.walk(a) if x[0] == "call" and x[1].endswith("HashMap::<K, V, S, A>::get_mut") and A.last_field(x[2][0]) == "records"]
        if gm:
            key = gm[0][2][1]
            if any(x[0] == "call" and x[1].endswith("::keys") and A.last_field(x[2][0]) == "records" for x in A.walk(key)):
                seen_elem = True
                continue
            return None
        # the seed of the fold (the new record's expiry) is fine
        if a[0] == "call" and "Instant" in a[1] and a[1].endswith("::add"):
            continue
        return None
    if not seen_elem:
        return None
    # ... and it folds towards the *smaller* value: an element replaces the accumulator only behind `element < accumulator`
    if pe[0] == "phi" and len(pe) > 2:
        acc_l = pe[2]
        conds = A.Conds(fn, res)
        for d in fn.defs().get(acc_l, []):
            if d[2] == "partial":
                continue
            e = A.peel(res._def_expr(d, 0))
            if e[0] == "call" and (e[1].endswith("::min") or (e[4] or "").endswith("Ord::min")):
                continue                                   # acc = acc.min(x)
            ps = A.path_str(e, open_root=True)
            if ps is None or not ps.endswith(".records.[].[].1"):
                continue
            def smaller(fc, e=e):
                if fc[0] != "cmp":
                    return False
                for op, x, y in ((fc[1], fc[2], fc[3]), (A.SWAP[fc[1]], fc[3], fc[2])):
                    if op in ("Lt", "Le") and (A.same(x, e) or A.strip_refs(A.peel(x)) == A.strip_refs(e)):
                        py = A.peel(y)
                        if (py[0] == "phi" and len(py) > 2 and py[2] == acc_l) or py[0] == "loop":
                            return True
                return False
            if not conds.guarded(d[0], smaller)[0]:
                return None
    return "min-fold over all records of the name"
