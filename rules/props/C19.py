"""C19 — reload swaps the whole configuration or none of it (lock discipline + loader flag)."""
from .. import analysis as A
from ..analysis import Call

ZONES = "dns_types::zones::types::Zones"
LOAD = "resolved::fs::load_zone_configuration"
MUTATORS = ("::write", "::try_write", "::blocking_write", "::get_mut", "::write_owned", "::try_write_owned", "::into_inner")


def _rwlock_calls(prog, methods):
    out = []
    for f in prog.fns.values():
        for b, t in f.calls():
            inst = t.get("inst") or ""
            if "RwLock::<%s>" % ZONES in inst and inst.endswith(methods):
                out.append((f, b, t))
    return out


def _is_await_of(e, callee_suffix):
    e = A.peel(e)
    return e[0] == "await" and A.peel(e[1])[0] == "call" and A.peel(e[1])[1].endswith(callee_suffix)


def run(ctx):
    prog = ctx.prog
    ctx.rule("C19.1", "exactly one production site acquires the zones lock for writing (reload_task)")
    ctx.rule("C19.2", "that site is dominated by `load_zone_configuration(..).await` being Some")
    ctx.rule("C19.3", "the write guard is used for one whole-value store of that Some payload and nothing else")
    ctx.rule("C19.4", "no await (yield) while the write guard is live")
    ctx.rule("C19.5", "one read guard per request, taken before resolve() and alive until resolve().await is Ready; zones argument derives from it")
    ctx.rule("C19.6", "load_zone_configuration: every Err arm sets the failure flag, the flag is never cleared, Some(..) only on its false edge; the loader cannot reach the lock")
    ctx.rule("C19.7", "what a successful (re)load contains: every listed file of every configured directory (any entry that is not a directory, so an unreadable one fails the load), each zone file merged into the zone of its apex, the hosts files combined and merged last (shared with C12.5)")
    ctx.rule("C19.8", "the shared cache (which a reload does not replace) never receives configuration data: everything inserted into it is taken from an upstream reply (the forwarder's answers, the validated NameserverResponse), never from a merged / locally found record list")
    ctx.rule("C19.9", "the loader reads files through tokio::fs (awaits): no blocking std::fs call inside an async body of the server, so a slow file cannot stall the worker that answers queries")
    ctx.rule("C19.10", "what counts as an invalid file is rejected by the parsers (the rejection rules of C11.1 for zone files and the error transitions of C14.3 for hosts files, decided here as well): an invalid file fails the load, and a failed load keeps the old configuration")
    ctx.rule("C19.11", "no file can make the parsers panic (C17.1, decided here as well): a panic inside the load would end the reload task, and every later SIGUSR1 would be ignored")
    ctx.decline("relative timing of SIGUSR1 and in-flight queries beyond the lock discipline")

    # ---------------------------------------------------------------- C19.1
    writers = _rwlock_calls(prog, MUTATORS)
    ctx.floor("C19.1", "write acquisitions of RwLock<Zones>", len(writers), 1, exact=True)
    for f, b, t in writers:
        ctx.check(f.root_key == "resolved::reload_task", "C19.1", "who-writes(zones_lock):" + f.root_key,
                  "write lock taken in reload_task", "zones write lock taken in %s" % f.root_key, f.loc(b))
    # nobody builds a second lock around a different Zones value for the listeners
    news = [(f, b) for f in prog.fns.values() for b, t in f.calls() if (t.get("inst") or "").startswith("tokio::sync::RwLock::<%s>::new" % ZONES)]
    ctx.check(len(news) == 1 and news[0][0].root_key == "resolved::main", "C19.1", "who-creates(zones_lock)",
              "one RwLock<Zones>, created in main", "RwLock<Zones>::new sites: %s" % [f.root_key for f, _ in news])

    for f, wb, wt in writers:
        if f.root_key != "resolved::reload_task":
            continue
        r = A.Resolver(f)
        c = A.Conds(f, r)
        # ------------------------------------------------------------ C19.2
        ok, edges = c.guarded(wb, A.is_variant("Some", lambda x: _is_await_of(x, LOAD)))
        ctx.check(ok, "C19.2", "reload_task:write-on-success", "write() only on the Some edge of the awaited load",
                  "write lock is reachable without the load having succeeded", f.loc(wb))
        # ------------------------------------------------------------ C19.3 / C19.4
        guard_locals, _ = A.value_holders(f, r, lambda e: _is_await_of(e, "RwLock::<T>::write"), "RwLockWriteGuard")
        ctx.floor("C19.3", "write-guard bindings", len(guard_locals), 1)
        stores = []
        for b, i, st in f.assigns():
            d = st["dst"]
            if d.get("p") and d["p"][0] == "deref":
                ptr = r.local(d["l"], (b, i))
                if any(x[0] == "await" and _is_await_of(x, "RwLock::<T>::write") for x in A.walk(ptr)):
                    stores.append((b, i, st, d))
        ctx.floor("C19.3", "stores through the write guard", len(stores), 1, exact=True)
        for b, i, st, d in stores:
            whole = d["p"] == ["deref"]
            val = r.rvalue(st["rv"], (b, i))
            pv = A.peel(val)
            from_load = pv[0] == "field" and pv[2] == "0" and pv[1][0] == "downcast" and pv[1][2] == "Some" and _is_await_of(pv[1][1], LOAD)
            ctx.check(whole and from_load, "C19.3", "reload_task:whole-value-store", "*guard = <the loaded Zones>",
                      "store through the guard is %s = %s" % (A.mir.fmt_place(d), A.show(val)), f.loc(b, i))
        # other uses of the guard
        for b, t in f.calls():
            name = t.get("resolved") or t.get("callee") or ""
            if name.endswith("deref_mut") or "drop" in name:
                continue
            for a in t["args"]:
                pl = A.op_place(a)
                if pl is None:
                    continue
                e = r.operand(a, (b, "term"))
                if any(_is_await_of(x, "RwLock::<T>::write") for x in A.walk(e)) and not name.endswith("Future::poll"):
                    ctx.bad("C19.3", "reload_task:guard-use:" + A.short(name), "the write guard is passed to %s (partial update possible)" % name, f.loc(b))
        yields = [b for b in f.live_blocks() if f.term(b)["k"] == "yield"]
        for g in guard_locals:
            gdef = f.single_def(g)
            drops = [b for b in f.live_blocks() if f.term(b)["k"] == "drop" and f.term(b)["place"] == {"l": g}]
            live = f.reachable(gdef[0], removed_blocks=drops)
            bad = [y for y in yields if y in live and y != gdef[0]]
            ctx.check(bool(drops) and not bad, "C19.4", "reload_task:no-await-under-write", "no yield between acquiring and dropping the write guard",
                      "yield at %s while the write guard is live" % [f.loc(y) for y in bad], f.loc(gdef[0]))
        # the load's await completes before write() is called
        loads = A.call_blocks(f, A.name_is(LOAD))
        ctx.floor("C19.4", "load_zone_configuration call in reload_task", len(loads), 1, exact=True)
        for lb, _ in loads:
            ctx.check(f.dominates(lb, wb) and lb not in f.reachable(wb, removed_blocks=[lb]) or f.dominates(lb, wb),
                      "C19.4", "reload_task:load-before-lock", "the load is started (and awaited) before write()",
                      "write() can run before the load", f.loc(lb))

    # the reload reads the same four configuration sources, in the same argument positions, as the start-up load
    def load_args(root):
        out = []
        for f_ in prog.family(root):
            r_ = A.Resolver(f_)
            for b_, t_ in A.call_blocks(f_, A.name_is(LOAD)):
                out.append([A.last_field(A.peel(x)) for x in r_.call_expr(t_, b_)[2]])
        return out
    la_main, la_reload = load_args("resolved::main"), load_args("resolved::reload_task")
    ctx.check(len(la_main) == 1 and len(la_reload) == 1 and la_main[0] == la_reload[0] and None not in la_main[0] and len(set(la_main[0])) == len(la_main[0]),
              "C19.4", "reload_task:same-sources", "reload passes the same configuration fields, in the same positions, as start-up",
              "start-up loads %s, reload loads %s" % (la_main, la_reload), prog.fn("resolved::reload_task").loc())

    # ---------------------------------------------------------------- C19.5
    readers = _rwlock_calls(prog, ("::read", "::try_read", "::blocking_read"))
    ctx.floor("C19.5", "read acquisitions of RwLock<Zones>", len(readers), 1, exact=True)
    for f, rb, rt in readers:
        ctx.check(f.root_key == "resolved::resolve_and_build_response", "C19.5", "who-reads(zones_lock):" + f.root_key,
                  "read lock taken in resolve_and_build_response", "zones read lock taken in %s" % f.root_key, f.loc(rb))
        r = A.Resolver(f)
        res_calls = A.call_blocks(f, A.name_is("dns_resolver::resolve"))
        ctx.floor("C19.5", "resolve() call", len(res_calls), 1, exact=True)
        guards, _ = A.value_holders(f, r, lambda e: _is_await_of(e, "RwLock::<T>::read"), "RwLockReadGuard")
        ctx.floor("C19.5", "read-guard bindings", len(guards), 1)
        for cb, ct in res_calls:
            e = r.call_expr(ct, cb)
            z = e[2][4]
            ctx.check(any(_is_await_of(x, "RwLock::<T>::read") for x in A.walk(z)), "C19.5", "request:zones-from-guard",
                      "the &Zones given to resolve() derives from the read guard", "resolve() gets zones = %s" % A.show(z), f.loc(cb))
            ctx.check(f.dominates(rb, cb), "C19.5", "request:lock-before-resolve", "read() dominates resolve()", "resolve() reachable without the read lock", f.loc(cb))
            # where the awaited result of resolve() becomes available
            ready = [b for b, i, st in f.assigns() if st["rv"]["k"] == "use" and _is_await_of(r.rvalue(st["rv"], (b, i)), "dns_resolver::resolve")]
            ctx.floor("C19.5", "Ready point of resolve().await", len(ready), 1)
            for g in guards:
                drops = A.drops_of(f, g)
                moved = [(b, i) for b, i, st in f.assigns() if st["rv"]["k"] == "use" and st["rv"]["op"].get("move") == {"l": g}]
                moved += [(b, "term") for b, t_ in f.calls() if any(a.get("move") == {"l": g} for a in t_["args"])]
                early = [d for d in drops if any(rd in f.reachable(d) for rd in ready) or cb in f.reachable(d)]
                snapshot = bool(A.calls_in(z, lambda n: n.endswith("Zones as std::clone::Clone>::clone")))
                if snapshot:
                    ctx.ok("C19.5", "request:guard-spans-resolve", "resolve() works on an owned snapshot cloned under the read guard", f.loc(cb))
                    continue
                ctx.check(bool(drops) and not early and not moved, "C19.5", "request:guard-spans-resolve",
                          "the read guard is dropped only after resolve().await completed",
                          "the read guard can be dropped/moved before resolve() finished (%s)" % [f.loc(d) for d in early], f.loc(cb))

    loader_rules(ctx, "C19.6")
    from . import C12
    C12.composition_rules(ctx, "C19.7", ctx.prog)
    cache_sources_rule(ctx, "C19.8")
    from ..core import RuleAlias
    from . import C11, C14
    C12.run(RuleAlias(ctx, {"C12.1": "C19.7", "C12.2": "C19.7"}))
    from . import C17
    C17.run(RuleAlias(ctx, {"C17.1": "C19.11"}))
    C11.run(RuleAlias(ctx, {"C11.1": "C19.10"}))
    C14.run(RuleAlias(ctx, {"C14.3": "C19.10"}))
    # C19.9
    blocking = []
    for fn in ctx.prog.fns.values():
        if not fn.rec.get("coroutine") or not (fn.key.startswith("resolved::") or fn.key.startswith("dns_resolver::")):
            continue
        for b, t in fn.calls():
            n_ = t.get("resolved") or t.get("callee") or ""
            if n_.startswith("std::fs::"):
                blocking.append((n_, fn.loc(b)))
    ctx.check(not blocking, "C19.9", "no-blocking-fs-in-async", "file I/O in async bodies goes through tokio::fs",
              "blocking %s inside an async body" % [x for x, _ in blocking], blocking[0][1] if blocking else None)


def cache_sources_rule(ctx, rule):
    """every record list handed to SharedCache::insert / insert_all comes out of an upstream reply (shared: C19.8, C06.7)"""
    prog = ctx.prog
    n = 0
    for name in ("dns_resolver::cache::SharedCache::insert_all", "dns_resolver::cache::SharedCache::insert"):
        for fn, b, t in A.who_calls(prog, name):
            if fn.file.endswith("cache.rs"):
                continue
            n += 1
            e = A.Resolver(fn).call_expr(t, b)
            arg = e[2][1]
            ps = A.path_str(arg) or ""
            from_validated = ps.startswith("^nameserver_response.<")
            from_reply = any(x[0] == "await" and A.peel(x[1])[0] == "call" and A.peel(x[1])[1].endswith("nameserver::query_nameserver") for x in A.walk(arg))
            local = any(x[0] == "call" and (x[1].endswith("resolve_local") or x[1].endswith("prioritising_merge")) for x in A.walk(arg))
            ctx.check((from_validated or from_reply) and not local, rule, "cache-insert-source@%s" % A.short(fn.root_key) + "#%d" % n, "cached records come out of an upstream reply",
                      "%s caches %s, which is not (only) upstream data" % (A.short(fn.root_key), A.show(arg)[:100]), fn.loc(b))
    ctx.floor(rule, "cache insertions outside cache.rs", n, 4)


def loader_rules(ctx, rule):
    """all-or-nothing loading (shared by C19.6, C12.6, C17.4)."""
    prog = ctx.prog
    lf = prog.body_of(LOAD)
    lr = A.Resolver(lf)
    lc = A.Conds(lf, lr)
    # all-or-nothing, stated without reference to how failure is remembered (one flag, one flag per helper, early
    # return, ..): once a load step has failed, no path leads to `Some(zones)`
    rets = A.returns(lf)
    somes = [(b, i) for b, i, st in A.aggregates(lf, "std::option::Option", "Some") if "Zones" in lf.local_ty(st["dst"]["l"])]
    ctx.floor(rule, "Some(zones) results", len(somes), 1)
    arms = 0
    for b in lf.live_blocks():
        t = lf.term(b)
        if t["k"] != "switch":
            continue
        for s in lf.succs(b):
            for fc in lc.edge_facts(b, s):
                if fc[0] == "is" and fc[1] == "Err" and any(x[0] == "call" and x[1].startswith("resolved::fs::") for x in A.walk(fc[2])):
                    arms += 1
                    reach = A.reachable_tagged(lf, s)
                    esc = [sb for sb, _ in somes if sb in reach]
                    what = A.calls_in(fc[2], lambda n: n.startswith("resolved::fs::"))[0][1]
                    inner = "(Ok(Err))" if "<Ok>" in (A.path_str(fc[2]) or "") or "as Ok" in A.show(fc[2]) else "(Err)"
                    ctx.check(not esc, rule, "loader:err-arm:%s%s#%d" % (A.short(what), inner, arms),
                              "after this error no path leads to Some(zones)",
                              "an error of %s does not set the failure flag" % A.short(what), lf.loc(s))
    ctx.floor(rule, "Err arms of load steps", arms, 4)
    # the loader cannot touch the lock
    fam = prog.family(LOAD)
    touches = [f.key for f in fam for b, t in f.calls() if "RwLock" in (t.get("inst") or "")]
    params = prog.fn(LOAD).locals[1:5]
    ctx.check(not touches and all("PathBuf" in p["ty"] for p in params), rule, "loader:isolated",
              "load_zone_configuration takes four path slices and never names the lock", "the loader touches server state: %s" % touches)
