"""C06 — upstream replies are filtered: only records relevant to the question are used."""
from .. import analysis as A
from ..analysis import Call, Path, PathEnds, Param, Konst, Agg

T = "dns_types::protocol::types::"
REC = "dns_resolver::recursive::"
NSM = "dns_resolver::util::nameserver::"
VALIDATE = REC + "validate_nameserver_response"


def fact_exprs(fc):
    if fc[0] == "cmp":
        return [fc[2], fc[3]]
    if fc[0] in ("is", "isnot"):
        return [fc[2]]
    if fc[0] == "call":
        return list(fc[2])
    if fc[0] == "truth":
        return [fc[1]]
    if fc[0] in ("inteq", "intne"):
        return [fc[1]]
    return []


def mentions_path(fc, path):
    for e in fact_exprs(fc):
        for x in A.walk(e):
            if x[0] in ("field", "index", "downcast") and A.path_str(x) == path:
                return True
    return False


def run(ctx):
    prog = ctx.prog
    ctx.rule("C06.1", "response_matches_request returns true only behind all six header/question conditions")
    ctx.rule("C06.2", "query_nameserver returns Some(response) only behind response_matches_request(request, that response), request = the message that was sent")
    ctx.rule("C06.3", "every record admitted from a reply section is control-dependent on a test of its own owner name")
    ctx.rule("C06.4", "the CNAME admit-map is filled only inside the chain walk, keyed by the cursor; a CNAME is admitted only if map[owner] == its target")
    ctx.rule("C06.5", "get_better_ns_names: contributes only for ancestors of the question; match name assigned only on strictly-greater label count")
    ctx.rule("C06.6", "delegation branch: NS only from answers/authority, A/AAAA only from answers/additional and only for selected NS hosts")
    ctx.rule("C06.7", "recursive.rs caches only fields of NameserverResponse, which only validate_nameserver_response constructs; the raw reply is consumed only by the validator")
    ctx.rule("C06.9", "a glue record taken from a referral as the answer has the asked type: get_record(.., T) in resolve_with_nameserver_response only behind question.qtype == Record(T), looked up under the question's own name")
    ctx.rule("C06.8", "records of unknown type/class are skipped before any admission in the answer branch")
    ctx.decline("what an arbitrary adversarial reply makes the resolver do beyond these gates")

    # ---------------------------------------------------------------- C06.1
    f = prog.fn(NSM + "response_matches_request")
    r = A.Resolver(f)
    c = A.Conds(f, r)
    true_blocks = [b for b, e in A.return_exprs(f, r) if not (A.peel(e)[0] == "const" and A.peel(e)[2] in (False, 0))]
    ctx.floor("C06.1", "assignments that can make response_matches_request true", len(true_blocks), 1)
    RC = lambda names: (lambda e: A.peel(e)[0] == "agg" and A.peel(e)[1] == T + "Rcode" and A.peel(e)[2] in names)
    conds = {
        "id": A.cmp_fact({"Eq"}, Path("param1.header.id"), Path("param2.header.id")),
        "qr": lambda fc: fc[0] == "truth" and A.path_str(fc[1]) == "param2.header.is_response" and fc[2] is True,
        "opcode": A.cmp_fact({"Eq"}, Path("param1.header.opcode"), Path("param2.header.opcode")),
        "tc": lambda fc: fc[0] == "truth" and A.path_str(fc[1]) == "param2.header.is_truncated" and fc[2] is False,
        "rcode": lambda fc: A.cmp_fact({"Eq"}, Path("param2.header.rcode"), RC({"NoError", "NameError"}))(fc)
                            or (fc[0] == "is" and fc[1] in ("NoError", "NameError") and A.path_str(fc[2]) == "param2.header.rcode"),     # `matches!(rcode, NoError | NameError)`
        "questions": A.cmp_fact({"Eq"}, Path("param1.questions"), Path("param2.questions")),
    }
    for b in true_blocks:
        pe = A.peel(dict(A.return_exprs(f, r))[b])
        for name, pred in conds.items():
            ok, _ = c.guarded(b, pred)
            if not ok and pe[0] != "const":
                ok = A.has_fact(A.bool_facts(pe, True, prog), pred)
            ctx.check(ok, "C06.1", "response_matches_request:" + name, "`true` is returned only behind the %s condition" % name,
                      "response_matches_request can return true without the %s condition" % name, f.loc(b))

    # ---------------------------------------------------------------- C06.2
    q = prog.body_of(NSM + "query_nameserver")
    qr = A.Resolver(q)
    qc = A.Conds(q, qr)
    somes = [(b, e) for b, e in A.return_exprs(q, qr) if A.peel(e)[0] == "agg" and A.peel(e)[2] == "Some"]
    ctx.floor("C06.2", "Some(response) returns in query_nameserver", len(somes), 2)
    ser = A.call_blocks(q, A.name_endswith("to_octets"))
    ctx.floor("C06.2", "to_octets of the request", len(ser), 1, exact=True)
    req_path = A.path_str(qr.call_expr(ser[0][1], ser[0][0])[2][0]) if ser else None
    for n, (b, e) in enumerate(somes):
        payload = A.payload_of_merge(dict(A.peel(e)[3])["0"])      # through `opt.filter(..)` / a match that re-wraps the reply
        def pred(fc, payload=payload):
            return fc[0] == "call" and fc[1] == NSM + "response_matches_request" and fc[3] is True \
                and A.path_str(fc[2][0]) == req_path and A.same(fc[2][1], payload)
        ok, _ = qc.guarded(b, pred)
        src = [x for x in A.walk(payload) if x[0] == "await"]
        via = bool(src) and A.peel(src[0][1])[1] in (NSM + "query_nameserver_udp", NSM + "query_nameserver_tcp")
        ctx.check(ok and via, "C06.2", "query_nameserver:some#%d" % n, "returned reply passed response_matches_request(request, reply)",
                  "a reply is returned without being matched against the request that was sent", q.loc(b))
    for b, t in A.call_blocks(q, A.name_is(NSM + "query_nameserver_udp", NSM + "query_nameserver_tcp")):
        e = qr.call_expr(t, b)
        ok = bool(A.calls_in(e[2][1], lambda n_: n_.endswith("::to_octets")))
        ctx.check(ok, "C06.2", "query_nameserver:sent-bytes@%s" % A.short(e[1]), "the bytes sent are request.to_octets()",
                  "the bytes sent are %s" % A.show(e[2][1]), q.loc(b))

    # ---------------------------------------------------------------- C06.3 / C06.6 / C06.8
    v = prog.fn(VALIDATE)
    vr = A.Resolver(v)
    vc = A.Conds(v, vr)
    pushes = A.call_blocks(v, A.name_endswith("Vec::<T, A>::push"))
    RTWD_VARIANTS = [x["name"] for x in prog.adt("dns_types::protocol::types::RecordTypeWithData")["variants"]]
    admitted = []
    for b, t in pushes:
        e = vr.call_expr(t, b)
        p = A.path_str(e[2][1])
        if p and p.startswith("param2.") and p.endswith(".[]"):
            admitted.append((b, p, e))
    ctx.floor("C06.3", "records admitted from reply sections", len(admitted), 4)
    table = set()
    for n, (b, p, e) in enumerate(admitted):
        section = p.split(".")[1]
        ok, edges = vc.guarded(b, lambda fc, p=p: mentions_path(fc, p + ".name"))
        pv = A.possible_variants(v, vc, lambda x, p=p: A.path_str(x) == p + ".rtype_with_data", RTWD_VARIANTS, b)
        variants = sorted(pv) if len(pv) < len(RTWD_VARIANTS) else []          # [] = admitted whatever its type
        key = "%s:%s#%d" % (section, "/".join(variants) or "by-type", sum(1 for x in admitted[:n] if x[1] == p))
        ctx.check(ok, "C06.3", "validate:owner-check:" + key, "admission of %s depends on a test of its .name" % p,
                  "a record of the %s section is accepted without any test of its owner name" % section, v.loc(b))
        for var in variants:
            table.add((section, var))
        if section == "answers" and not variants:
            ok8, _ = vc.guarded(b, lambda fc, p=p: fc[0] == "call" and fc[1].endswith("ResourceRecord::is_unknown") and fc[3] is False
                                and A.path_str(fc[2][0]) == p)
            ctx.check(ok8, "C06.8", "validate:unknown-skipped:" + key, "pushed only when !an.is_unknown()",
                      "records of unknown type/class can be admitted", v.loc(b))
        if variants and set(variants) <= {"A", "AAAA"}:
            okg, _ = vc.guarded(b, lambda fc, p=p: fc[0] == "call" and fc[1].endswith("HashSet::<T, S, A>::contains") and fc[3] is True
                                and A.path_str(fc[2][1]) == p + ".name")
            ctx.check(okg, "C06.6", "validate:glue:" + key, "address record admitted only if its owner is a selected NS host",
                      "address record from %s admitted without `ns_names.contains(&rr.name)`" % section, v.loc(b))
        if variants == ["NS"]:
            okn, _ = vc.guarded(b, lambda fc, p=p: fc[0] == "call" and fc[1].endswith("HashSet::<T, S, A>::contains") and fc[3] is True
                                and A.path_str(fc[2][1]) == p + ".rtype_with_data.<NS>.nsdname")
            ctx.check(okn, "C06.6", "validate:ns-host:" + key, "NS record admitted only if its target is a selected NS host",
                      "NS record from %s admitted without `ns_names.contains(nsdname)`" % section, v.loc(b))
    expect = {("answers", "NS"), ("answers", "A"), ("answers", "AAAA"), ("authority", "NS"), ("additional", "A"), ("additional", "AAAA"),
              ("answers", "CNAME")}
    ctx.check(table == expect, "C06.6", "validate:section-table", "per-section admitted types = %s" % sorted(expect),
              "per-section admitted record types are %s, expected %s" % (sorted(table), sorted(expect)), v.loc())

    # ---------------------------------------------------------------- C06.9
    rw = prog.body_of(REC + "resolve_with_nameserver_response")
    rwr = A.Resolver(rw)
    rwc = A.Conds(rw, rwr)
    n9 = 0
    for b, t in A.call_blocks(rw, A.name_is(REC + "get_record")):
        e = rwr.call_expr(t, b)
        ty = A.peel(e[2][2])
        n9 += 1
        tname = ty[2] if ty[0] == "agg" else None
        def asked(fc, tname=tname):
            if fc[0] != "cmp" or fc[1] != "Eq" or tname is None:
                return False
            for x, y in ((fc[2], fc[3]), (fc[3], fc[2])):
                py = A.peel(y)
                if A.path_str(x) == "^question.qtype" and py[0] == "agg" and py[2] == "Record" and A.peel(dict(py[3])["0"])[0] == "agg" \
                        and A.peel(dict(py[3])["0"])[2] == tname:
                    return True
            return False
        okq, _ = rwc.guarded(b, asked)
        # (written as `match question.qtype { Record(A) => .. }` the same fact arrives as variant tests)
        if not okq and tname is not None:
            okq = rwc.guarded(b, lambda fc: fc[0] == "is" and fc[1] == tname and A.path_str(fc[2]) == "^question.qtype.<Record>.0")[0] \
                and rwc.guarded(b, lambda fc: fc[0] == "is" and fc[1] == "Record" and A.path_str(fc[2]) == "^question.qtype")[0]
        ctx.check(okq and A.path_str(e[2][1]) == "^question.name", "C06.9", "glue-answer:%s" % (tname or "?"), "get_record(rrs, question.name, T) only where question.qtype == Record(T)",
                  "a %s glue record can be returned as the answer to a question of another type / name (looked up under %s)" % (tname, A.show(e[2][1])[:60]), rw.loc(b))
    ctx.floor("C06.9", "glue look-ups in resolve_with_nameserver_response", n9, 1)

    # ---------------------------------------------------------------- C06.4
    fc_ = prog.fn(REC + "follow_cnames")
    fr = A.Resolver(fc_)
    rets = [e for b, e in A.return_exprs(fc_, fr) if A.peel(e)[0] == "agg" and A.peel(e)[2] == "Some"]
    ctx.floor("C06.4", "Some((final, map)) return of follow_cnames", len(rets), 1, exact=True)
    ret_map_local = None
    ret_blocks = {b for b, e in A.return_exprs(fc_, fr) if A.peel(e)[0] == "agg" and A.peel(e)[2] == "Some"}
    for b, i, st in A.aggregates(fc_, "std::option::Option", "Some"):
        if b not in ret_blocks:
            continue                # a Some(..) built for something else (e.g. inside a spliced closure)
        # payload is a tuple (final_name, map)
        op = st["rv"]["ops"][0]
        pl = A.op_place(op)
        sd = fc_.single_stmt_def(pl["l"]) if pl else None
        if sd and sd[2] == "assign":
            rv = fc_.blocks[sd[0]]["stmts"][sd[1]]["rv"]
            if rv["k"] == "agg" and rv["ak"] == "tuple" and len(rv["ops"]) == 2:
                mp = A.op_place(rv["ops"][1])
                ret_map_local = _root_local(fc_, mp) if mp else None
    ctx.check(ret_map_local is not None, "C06.4", "follow_cnames:returned-map", "identified the returned admit-map", "cannot identify the map returned by follow_cnames", fc_.loc())
    if ret_map_local is not None:
        inserts = []
        for b, t in A.call_blocks(fc_, A.name_endswith("HashMap::<K, V, S, A>::insert")):
            a0 = A.op_place(t["args"][0])
            root = _root_local(fc_, a0)
            if root == ret_map_local:
                inserts.append((b, t))
        ctx.floor("C06.4", "inserts into the returned map", len(inserts), 1)
        gets = [(b, t) for b, t in A.call_blocks(fc_, A.name_endswith("HashMap::<K, V, S, A>::get"))]
        for b, t in inserts:
            e = fr.call_expr(t, b)
            key = A.peel(e[2][1])
            # the walk: `while let Some(target) = all_cnames.get(&cursor)`; insert(cursor.clone(), target.clone())
            ok = False
            for gb, gt in gets:
                ge = fr.call_expr(gt, gb)
                cursor = A.op_place(gt["args"][1])
                cur_root = _root_local(fc_, cursor)
                key_root = _root_local(fc_, A.op_place(_clone_arg(fc_, t["args"][1])))
                val = A.peel(e[2][2])
                val_from_get = any(x[0] == "call" and x[3] == (fc_.key, gb) for x in A.walk(val))
                in_loop = any(gb in body and b in body for _, body in fc_.loops())
                if cur_root is not None and cur_root == key_root and val_from_get and in_loop and fc_.dominates(gb, b):
                    ok = True
            ctx.check(ok, "C06.4", "follow_cnames:admit-only-walked", "map[cursor] = all_cnames[cursor], inside the chain walk",
                      "the CNAME admit-map is filled outside the chain walk (off-path CNAMEs would be accepted)", fc_.loc(b))
    # the CNAME admission in validate compares the target too
    for b, p, e in admitted:
        vs = {fc[1] for fc in vc.facts_on_all_paths(b) if fc[0] == "is" and A.path_str(fc[2]) == p + ".rtype_with_data"}
        if "CNAME" in vs:
            def pred(fc, p=p):
                if fc[0] != "cmp" or fc[1] != "Eq":
                    return False
                for x, y in ((fc[2], fc[3]), (fc[3], fc[2])):
                    gx = [g for g in A.walk(x) if g[0] == "call" and g[1].endswith("HashMap::<K, V, S, A>::get") and A.path_str(g[2][1]) == p + ".name"]
                    tgt = [s for s in A.walk(y) if A.path_str(s) == p + ".rtype_with_data.<CNAME>.cname"]
                    if gx and tgt and any(z[0] == "call" and z[1] == REC + "follow_cnames" for z in A.walk(gx[0][2][0])):
                        return True
                return False
            ok, _ = vc.guarded(b, pred)
            ctx.check(ok, "C06.4", "validate:cname-on-path", "CNAME admitted only if follow_cnames' map[owner] == its target",
                      "a CNAME record is admitted without being a followed link of the chain", v.loc(b))

    # ---------------------------------------------------------------- C06.5
    g = prog.fn(REC + "get_better_ns_names")
    gr = A.Resolver(g)
    gc = A.Conds(g, gr)
    rr = "param1.[]"
    sub = lambda fc: fc[0] == "call" and fc[1].endswith("DomainName::is_subdomain_of") and fc[3] is True \
        and A.path_str(fc[2][0]) == "param2" and A.path_str(fc[2][1]) == rr + ".name"
    def ordering(names):
        def p(fc):
            if fc[0] != "is" or fc[1] not in names:
                return False
            e = A.peel(fc[2])
            if e[0] != "call" or not e[1].endswith("::cmp"):
                return False
            a, b_ = e[2]
            return bool(Call("len", Path(rr + ".name.labels"))(a)) and A.peel(b_)[0] in ("local", "phi", "param", "call")
        return p
    inserts = A.call_blocks(g, A.name_endswith("HashSet::<T, S, A>::insert"))
    ctx.floor("C06.5", "ns_names.insert sites", len(inserts), 2)
    for n, (b, t) in enumerate(inserts):
        e = gr.call_expr(t, b)
        ok1, _ = gc.guarded(b, sub)
        ok2, _ = gc.guarded(b, ordering({"Greater", "Equal"}))
        ok3 = A.path_str(e[2][1]) == rr + ".rtype_with_data.<NS>.nsdname"
        ctx.check(ok1 and ok2 and ok3, "C06.5", "better_ns:insert#%d" % n, "NS host recorded only for an ancestor with label count >= current",
                  "an NS host is recorded without the ancestor test / the label-count comparison", g.loc(b))
    # the "best delegation owner so far" register, found by its role: the Option the result is built from
    # (`x.map(|mn| (mn, ns_names))`, or `Some((payload of x, ..))` after normalisation)
    mn_local = None
    for b_, e_ in A.return_exprs(g, gr):
        pe_ = A.peel(e_)
        cand = None
        if pe_[0] == "call" and pe_[1].endswith("Option::<T>::map") and pe_[2]:
            cand = A.peel(pe_[2][0])
        elif pe_[0] == "agg" and pe_[2] == "Some":
            tup = A.peel(dict(pe_[3])["0"])
            if tup[0] == "tuple" and tup[1]:
                x0 = A.peel(tup[1][0])
                if x0[0] == "field" and x0[2] == "0" and x0[1][0] == "downcast" and x0[1][2] == "Some":
                    cand = A.peel(x0[1][1])
        if cand is not None and cand[0] == "phi" and len(cand) > 2:
            mn_local = cand[2]
    stores = []
    for d in g.defs().get(mn_local, []) if mn_local is not None else []:
        e = A.peel(gr._def_expr(d, 0))
        if e[0] == "agg" and e[2] == "Some":
            stores.append((d[0], e))
    ctx.floor("C06.5", "match_name = Some(..) stores", len(stores), 1)
    for n, (b, e) in enumerate(stores):
        ok1, _ = gc.guarded(b, sub)
        ok2, _ = gc.guarded(b, ordering({"Greater"}))
        ok3 = A.path_str(dict(e[3])["0"]) == rr + ".name"
        ctx.check(ok1 and ok2 and ok3, "C06.5", "better_ns:match_name#%d" % n, "match name = rr.name, only on strictly greater label count for an ancestor",
                  "the delegation name can be replaced without a strictly greater label count / ancestor test", g.loc(b))
    # match_count: starts as the parameter, only raised to that label count on the Greater arm
    mc = []
    for b_, t_ in g.calls():
        if (t_.get("callee") or "").endswith("::cmp") and len(t_["args"]) == 2:
            ce = gr.call_expr(t_, b_)
            if bool(Call("len", Path(rr + ".name.labels"))(ce[2][0])):
                l_ = A.root_local(g, t_["args"][1])
                if l_ is not None and l_ not in mc:
                    mc.append(l_)
    if mc:
        for d in g.defs().get(mc[0], []):
            e = A.peel(gr._def_expr(d, 0))
            if e == ("param", 3):
                continue
            okm, _ = gc.guarded(d[0], ordering({"Greater"}))
            ctx.check(okm and bool(Call("len", Path(rr + ".name.labels"))(e)), "C06.5", "better_ns:match_count", "raised only to rr.name.labels.len() on Greater",
                      "match_count is updated to %s" % A.show(e), g.loc(d[0]))
    rets = A.return_exprs(g, gr)
    def from_match_name(x):
        """is x `match_name` itself / the payload of `match_name` when it is Some?"""
        px = A.peel(x)
        if px[0] == "field" and px[2] == "0" and px[1][0] == "downcast" and px[1][2] == "Some":
            px = A.peel(px[1][1])
        return px[0] == "phi" and len(px) > 2 and px[2] == mn_local
    for b, e in rets:
        pe = A.peel(e)
        if pe[0] == "call" and pe[1].endswith("Option::<T>::map"):
            ok = from_match_name(pe[2][0])
        elif pe[0] == "agg" and pe[2] == "None":
            ok = True
        elif pe[0] == "agg" and pe[2] == "Some":
            tup = A.peel(dict(pe[3])["0"])
            ok = tup[0] == "tuple" and len(tup[1]) == 2 and from_match_name(tup[1][0])
        else:
            ok = False
        ctx.check(ok, "C06.5", "better_ns:result", "result = match_name.map(..): None unless strictly better",
                  "get_better_ns_names returns %s" % A.show(e)[:200], g.loc(b))
    # callers pass the current match count
    for fn, b, t in A.who_calls(prog, REC + "get_better_ns_names"):
        e = A.Resolver(fn).call_expr(t, b)
        ctx.check(A.peel(e[2][2]) == ("param", 3) and A.path_str(e[2][1]) == "param1.name", "C06.5", "better_ns:caller@%s" % A.path_str(e[2][0]),
                  "called with (section, question.name, current_match_count)", "called with %s" % [A.show(a) for a in e[2]], fn.loc(b))

    # a referral is accepted only if it is deeper than the delegation in use - and "in use" is updated when one is taken
    from . import C08 as _c08
    rn_, rr_, mc_, ch_ = _c08.candidate_loop_vars(prog)
    if mc_ is not None and ch_ is not None:
        _c08.match_count_rule(ctx, "C06.5", rn_, rr_, mc_, ch_, REC + "resolve_with_nameserver_response")
    else:
        ctx.bad("C06.5", "work-list:variables", "candidate loop variables not found", rn_.loc())

    # ---------------------------------------------------------------- C06.7
    NR = REC + "NameserverResponse"
    cons = A.who_constructs(prog, NR)
    roots = sorted({fn.root_key for fn, _, _, _ in cons})
    ctx.check(roots == [VALIDATE], "C06.7", "who-constructs(NameserverResponse)", "only validate_nameserver_response builds a NameserverResponse",
              "NameserverResponse constructed in %s" % roots)
    ctx.floor("C06.7", "NameserverResponse aggregates", len(cons), 4)
    n_ins = 0
    for fn in prog.fns.values():
        if not fn.file.endswith("recursive.rs"):
            continue
        rr_ = A.Resolver(fn)
        for b, t in A.call_blocks(fn, A.name_is("dns_resolver::cache::SharedCache::insert_all", "dns_resolver::cache::SharedCache::insert")):
            n_ins += 1
            e = rr_.call_expr(t, b)
            ps = A.path_str(e[2][1])
            ok = ps is not None and ps.startswith("^nameserver_response.<") and ps.endswith(">.rrs")
            ctx.check(ok, "C06.7", "cache-insert@%s" % (ps or A.show(e[2][1])), "cached records are a field of the validated NameserverResponse",
                      "recursive resolver caches %s" % A.show(e[2][1]), fn.loc(b))
    ctx.floor("C06.7", "cache insertions in recursive.rs", n_ins, 3)
    from . import C19
    C19.cache_sources_rule(ctx, "C06.7")
    # the raw reply only reaches the validator
    rn = prog.body_of(REC + "resolve_recursive_notimeout")
    rnr = A.Resolver(rn)
    for b, t in A.call_blocks(rn, A.name_is(REC + "resolve_with_nameserver_response")):
        e = rnr.call_expr(t, b)
        resp = A.peel(e[2][2])
        ok = False
        if resp[0] == "field" and resp[1][0] == "downcast" and resp[1][2] == "Some":
            at = A.peel(resp[1][1])
            if at[0] == "call" and at[1].endswith("Option::<T>::and_then"):
                src, clo = A.peel(at[2][0]), A.peel(at[2][1])
                if src[0] == "await" and A.peel(src[1])[1] == NSM + "query_nameserver" and clo[0] == "closure":
                    cf = prog.fn(clo[1])
                    cr = A.Resolver(cf)
                    cre = [A.peel(x) for _, x in A.return_exprs(cf, cr)]
                    calls = [tt.get("resolved") or tt.get("callee") for _, tt in cf.calls()]
                    ok = len(cre) == 1 and cre[0][0] == "call" and cre[0][1] == VALIDATE and A.peel(cre[0][2][1]) == ("param", 2) \
                        and calls == [VALIDATE]
        ctx.check(ok, "C06.7", "recursive:reply-only-to-validator", "query_nameserver(..).await.and_then(|res| validate_nameserver_response(question, &res, match_count))",
                  "the upstream reply is used as %s" % A.show(resp), rn.loc(b))
    uses = [fn.root_key for fn, _, _ in A.who_calls(prog, NSM + "query_nameserver")]
    ctx.note("query_nameserver callers: %s (forwarding mode trusts its configured forwarder by design; C06 is about the recursive resolver)" % sorted(uses))


def _root_local(fn, place):
    """follow `_a = &mut _b` / `_a = move _b` / `&(*_a)` chains to the underlying local."""
    seen = set()
    while place is not None:
        l = place["l"]
        if l in seen:
            return l
        seen.add(l)
        sd = fn.single_stmt_def(l)
        if fn.is_param(l) or sd is None or sd[2] != "assign":
            return l
        rv = fn.blocks[sd[0]]["stmts"][sd[1]]["rv"]
        if rv["k"] == "ref":
            nxt = rv["place"]
        elif rv["k"] == "use" and A.op_place(rv["op"]) is not None:
            nxt = A.op_place(rv["op"])
        else:
            return l
        if nxt.get("p") and any(isinstance(x, dict) for x in nxt["p"]):
            return l
        place = nxt
    return None


def _clone_arg(fn, op):
    """if op is the result of Clone::clone(x), return x's operand; else op."""
    pl = A.op_place(op)
    if pl is None or pl.get("p"):
        return op
    sd = fn.single_def(pl["l"])
    if sd and sd[2] == "call":
        t = fn.blocks[sd[0]]["term"]
        if (t.get("callee") or "").endswith("Clone::clone"):
            return t["args"][0]
    return op
