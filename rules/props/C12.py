"""C12 — configuration files compose by union, with the last SOA winning."""
from .. import analysis as A
from ..analysis import Call, Path, Param
from . import C19

T = "dns_types::protocol::types::"
Z = "dns_types::zones::types::"
H = "dns_types::hosts::types::"
FS = "resolved::fs::"


def owned_record_locals(fn):
    """non-parameter locals owning zone data that were produced by a move (out of the merged-in value)."""
    out = []
    for l in range(fn.arg_count + 1, len(fn.locals)):
        ty = fn.local_ty(l)
        if ty.startswith("&") or "ZoneRecord" not in ty and ty != Z + "Zone":
            continue
        if any(x in ty for x in ("Option<&", "Iter<", "IntoIter<", "std::option::Option<(", "Values<", "Poll<")):
            continue
        sd = fn.single_def(l)
        if sd is None or sd[2] != "assign":
            continue
        rv = fn.blocks[sd[0]]["stmts"][sd[1]]["rv"]
        if rv["k"] == "use" and "move" in rv["op"] and rv["op"]["move"].get("p"):
            out.append(l)
        elif rv["k"] == "agg" and rv.get("ak") == "adt" and rv.get("adt") == Z + "ZoneRecord":
            out.append(l)           # a record built here to be stored
    return out


def _equal_found(fc, new, vec):
    """edge fact: an element of the iterated vector compared equal to `new` (`e == &new` true)"""
    if fc[0] == "call" and fc[1].endswith("::contains") and fc[3] is True and len(fc[2]) == 2 and ("<impl [T]>" in fc[1] or "Vec" in fc[1]):
        # `vec.contains(&new)`: the same question asked of the library
        if new is None:
            return True
        return (A.same_value(fc[2][1], new) or (A.path_str(fc[2][1]) is not None and A.path_str(fc[2][1]) == A.path_str(new))) and \
            (vec is None or A.same_value(fc[2][0], vec) or A.path_str(fc[2][0]) == A.path_str(vec))
    if fc[0] == "call" and (fc[1].endswith("PartialEq::eq") or fc[1].endswith(">::eq")) and fc[3] is True and len(fc[2]) == 2:
        a, b = fc[2]
    elif fc[0] == "cmp" and fc[1] == "Eq":
        a, b = fc[2], fc[3]
    else:
        return False
    for x, y in ((a, b), (b, a)):
        src = A.iter_elem_source(x)
        if src is None:
            continue
        if new is None:
            return True
        if A.same_value(y, new) or A.path_str(y) == A.path_str(new) and A.path_str(y) is not None:
            if vec is None or A.same_value(src, vec) or A.path_str(src) == A.path_str(vec):
                return True
    return False


def _vec_root(fn, op):
    """the vector variable a receiver is (a view of): through moves, reborrows and deref / deref_mut / as_mut_slice calls"""
    seen = set()
    while op is not None:
        l = A.root_local(fn, op)
        if l is None or l in seen:
            return l
        seen.add(l)
        ds = [d for d in fn.defs().get(l, []) if d[2] != "partial"]
        if fn.locals[l].get("user") or fn.is_param(l) or len(ds) != 1 or ds[0][2] != "call":
            return l
        t = fn.blocks[ds[0][0]]["term"]
        if (t.get("callee") or "").rsplit("::", 1)[-1] in ("deref", "deref_mut", "as_mut_slice", "as_slice", "as_mut", "borrow_mut") and t.get("args"):
            op = t["args"][0]
        else:
            return l
    return None


def composition_rules(ctx, rule, prog):
    """how the loader composes the configuration (shared: C12.5, C19.7): directory listings (files only, sorted), path
    lists in configured order, one merge per zone file, hosts combined and merged last, insert_merge merges per apex"""
    gf = prog.body_of(FS + "get_files_from_dir")
    gfr = A.Resolver(gf)
    sorts = [b for b, t in gf.calls() if (t.get("callee") or "").endswith("::sort") or (t.get("callee") or "").endswith("::sort_unstable")]
    oks = [b for b, e in A.return_exprs(gf, gfr) if A.peel(e)[0] == "agg" and A.peel(e)[2] == "Ok" and "Vec" in A.show(e) or
           (A.peel(e)[0] == "agg" and A.peel(e)[2] == "Ok" and gf.local_ty(0).find("Vec") >= 0)]
    ctx.check(bool(sorts) and bool(oks) and all(ob not in gf.reachable(0, removed_blocks=sorts) for ob in oks), rule, "get_files_from_dir:sorted",
              "Ok(out) only after out.sort()", "directory listings are returned unsorted", gf.loc())
    # ... and it lists the files of the directory: an entry is kept only if it is not itself a directory
    gfc = A.Conds(gf, gfr)
    kept = A.call_blocks(gf, A.name_endswith("Vec::<T, A>::push"))
    okk = bool(kept) and all(gfc.guarded(b, lambda fc: fc[0] == "call" and fc[1].endswith("Path::is_dir") and fc[3] is False)[0] for b, t in kept)
    ctx.check(okk, rule, "get_files_from_dir:files-only", "a directory entry is listed only if !path.is_dir()", "directory entries are listed without / against the is_dir test", gf.loc())
    lz = prog.body_of(FS + "load_zone_configuration")
    lzr = A.Resolver(lz)
    im = A.call_blocks(lz, A.name_is(Z + "Zones::insert_merge"))
    loops = lz.loops()
    def in_plain_loop(b):
        return any(b in body and any((lz.term(x).get("callee") or "").endswith("Iterator::next") for x in body if lz.term(x)["k"] == "call")
                   and _smallest_loop_has(lz, loops, b) for _, body in loops)
    zone_im = [(b, t) for b, t in im if A.calls_in(lzr.call_expr(t, b)[2][1], lambda n: n == FS + "zone_from_file")]
    host_im = [(b, t) for b, t in im if A.calls_in(lzr.call_expr(t, b)[2][1], lambda n: n.endswith("Hosts as std::default::Default>::default") or "Into" in n or n.endswith("::into"))
               and (b, t) not in zone_im]
    ctx.check(len(zone_im) == 1 and len(host_im) == 1, rule, "loader:merge-sites", "one insert_merge per zone file, one for the combined hosts",
              "insert_merge sites: %d zone, %d hosts" % (len(zone_im), len(host_im)), lz.loc())
    if zone_im and host_im:
        zb, hb = zone_im[0][0], host_im[0][0]
        ctx.check(zb not in lz.reachable(hb) and hb in lz.reachable(zb), rule, "loader:hosts-last", "the hosts zone is merged after all zone files",
                  "hosts are not merged last", lz.loc(hb))
        hm_calls = A.call_blocks(lz, A.name_is(H + "Hosts::merge"))
        ctx.check(len(hm_calls) == 1 and bool(A.calls_in(lzr.call_expr(hm_calls[0][1], hm_calls[0][0])[2][1], lambda n: n == FS + "hosts_from_file")), rule, "loader:hosts-combined",
                  "hosts files are combined with Hosts::merge in list order", "hosts files are not combined through Hosts::merge", lz.loc())
    # path lists: explicit files first, directories appended in argument order
    froms = [lzr.call_expr(t, b) for b, t in lz.calls() if (t.get("callee") or "") == "std::convert::From::from" and "PathBuf" in (t.get("inst") or "")]
    srcs = sorted(A.path_str(e[2][0]) or A.show(e[2][0]) for e in froms)
    ctx.check(srcs == ["^hosts_files", "^zone_files"], rule, "loader:lists-start-with-explicit-files", "path lists start as the explicit file arguments",
              "path lists initialised from %s" % srcs, lz.loc())
    apps = [lzr.call_expr(t, b) for b, t in A.vec_tail_appends(lz)]
    ok = len(apps) == 2 and all(A.calls_in(e[2][1], lambda n: n == FS + "get_files_from_dir") for e in apps)
    ctx.check(ok, rule, "loader:dirs-appended", "each directory's sorted listing is appended", "directory listings are not appended to the path lists", lz.loc())
    # ... and stay in that order: the path lists are only ever appended to (no sort / dedup / reverse / removal), so
    # "later file" means later in the configured sequence
    list_roots = {_vec_root(lz, t["args"][0]) for b, t in A.vec_tail_appends(lz)} - {None}
    REORDER = ("sort", "sort_unstable", "sort_by", "sort_by_key", "sort_unstable_by", "sort_unstable_by_key", "sort_by_cached_key", "dedup", "dedup_by", "dedup_by_key",
               "reverse", "swap", "swap_remove", "remove", "retain", "retain_mut", "truncate", "clear", "drain", "pop", "insert", "rotate_left", "rotate_right",
               "split_off", "resize", "fill", "select_nth_unstable")
    reorder = [(b, t) for b, t in lz.calls() if (t.get("callee") or "").rsplit("::", 1)[-1] in REORDER and t.get("args") and _vec_root(lz, t["args"][0]) in list_roots]
    ctx.check(len(list_roots) == 2 and not reorder, rule, "loader:lists-only-appended", "the two path lists are only appended to",
              "a path list is reordered / shortened by %s" % [(t.get("callee") or "").rsplit("::", 1)[-1] for b, t in reorder], lz.loc(reorder[0][0]) if reorder else lz.loc())
    revs = [t for _, t in lz.calls() if (t.get("callee") or "").endswith("Iterator::rev")]
    ctx.check(not revs, rule, "loader:forward-iteration", "all lists are consumed front to back", "a list is iterated in reverse", lz.loc())
    zi = prog.fn(Z + "Zones::insert_merge")
    zir = A.Resolver(zi)
    zic = A.Conds(zi, zir)
    mg = A.call_blocks(zi, A.name_is(Z + "Zone::merge"))
    isr = A.call_blocks(zi, A.name_is(Z + "Zones::insert"))
    ok = len(mg) == 1 and len(isr) == 1
    if ok:
        g1, _ = zic.guarded(mg[0][0], lambda fc: fc[0] == "is" and fc[1] == "Some" and A.peel(fc[2])[0] == "call" and A.peel(fc[2])[1].endswith("get_mut")
                            and A.path_str(A.peel(fc[2])[2][1]) == "param2.apex")
        g2, _ = zic.guarded(isr[0][0], lambda fc: fc[0] == "is" and fc[1] == "None")
        e = zir.call_expr(mg[0][1], mg[0][0])
        ok = g1 and g2 and A.path_str(e[2][1]) == "param2"
    ctx.check(ok, rule, "Zones::insert_merge", "existing apex => merge(other), else insert(other)", "insert_merge does not merge into the zone of the same apex", zi.loc())



def run(ctx):
    prog = ctx.prog
    ctx.rule("C12.1", "merge_zrs_helper: a record is pushed only if no equal record is present; a missing type takes the whole vector")
    ctx.rule("C12.2", "no part of the merged-in zone is dropped without having been moved into the result (moved-before-dropped typestate)")
    ctx.rule("C12.3", "every store to Zone.soa is paired with an update of the apex SOA RRset")
    ctx.rule("C12.4", "hosts: later entries overwrite earlier ones per name and family (insert direction, forward iteration)")
    ctx.rule("C12.5", "load order: explicit files, then each directory's files sorted; zones merged in list order; hosts zone merged last")
    ctx.rule("C12.6", "all-or-nothing loading (shared with C19.6)")
    ctx.decline("equality of the answers of the merged zone with the union of its parts for all questions")

    # ---------------------------------------------------------------- C12.1
    m = prog.fn(Z + "merge_zrs_helper")
    mr = A.Resolver(m)
    mc = A.Conds(m, mr)
    pushes = A.call_blocks(m, A.name_endswith("Vec::<T, A>::push"))
    ctx.floor("C12.1", "push in merge_zrs_helper", len(pushes), 1, exact=True)
    for b, t in pushes:
        e = mr.call_expr(t, b)
        new = e[2][1]
        vec = e[2][0]
        dup_edges = mc.edges_where(lambda fc, new=new, vec=vec: _equal_found(fc, new, vec))
        hdr = A.innermost_loop_header(m, b)
        ok = A.never_after(m, dup_edges, b, [hdr] if hdr is not None else [])
        ctx.check(ok, "C12.1", "merge_zrs_helper:dedupe", "push(new) is not reached once an element of the vector equal to `new` has been found",
                  "records are pushed without the duplicate test", m.loc(b))
    ins = A.call_blocks(m, A.name_endswith("HashMap::<K, V, S, A>::insert"))
    ctx.floor("C12.1", "insert of a whole record set", len(ins), 1, exact=True)
    for b, t in ins:
        e = mr.call_expr(t, b)
        okn, _ = mc.guarded(b, lambda fc: fc[0] == "is" and fc[1] == "None" and A.peel(fc[2])[0] == "call" and A.peel(fc[2])[1].endswith("get_mut")
                            and A.path_str(A.peel(fc[2])[2][0]) == "param1")
        ctx.check(okn and A.path_str(e[2][0]) == "param1" and A.path_str(e[2][1]) == "param2.[].0" and A.path_str(e[2][2]) == "param2.[].1",
                  "C12.1", "merge_zrs_helper:absent-key", "absent type: this.insert(k, other_zrs)", "absent record type handled as %s" % [A.show(x) for x in e[2]], m.loc(b))

    # ---------------------------------------------------------------- C12.2
    n_checked = 0
    for key in (Z + "ZoneRecords::merge", Z + "merge_zrs_helper", Z + "Zone::merge", Z + "Zones::insert_merge", Z + "Zones::merge",
                Z + "ZoneRecords::insert", Z + "ZoneRecords::insert_wildcard"):      # the record being inserted is kept unless it is a duplicate
        f = prog.fn(key)
        fr = A.Resolver(f)
        fc_ = A.Conds(f, fr)
        for l in owned_record_locals(f):
            n_checked += 1
            # the value may be destroyed only on a path on which it was recognised as a duplicate: walking from its
            # definition without ever moving it out and without taking a "duplicate found" edge must not reach its drop
            dup_edges = fc_.edges_where(lambda fc: (fc[0] == "call" and fc[1].endswith("::any") and fc[3] is True) or _equal_found(fc, None, None))
            sd_ = f.single_def(l)
            _, feas = A.reachable_tagged(f, sd_[0], removed_edges=dup_edges, want_edges=True)
            bad = A.unconsumed_drops(f, l, avoid_edges=dup_edges, only_edges=feas) or []
            nm = f.names.get(l, "_%d" % l)
            ctx.check(not bad, "C12.2", "%s:%s" % (A.short(key), nm), "`%s` is moved into the result on every path (or is a detected duplicate)" % nm,
                      "`%s` (%s) is dropped without being merged on a path ending at %s" % (nm, f.local_ty(l)[:60], [f.loc(d) for d in bad]), f.loc(f.single_def(l)[0]))
    ctx.floor("C12.2", "owned parts of the merged-in zone tracked", n_checked, 6)
    # direct moves of other.<field> into calls / stores (no intermediate local is dropped)
    zm = prog.fn(Z + "ZoneRecords::merge")
    zmr = A.Resolver(zm)
    fields = set()
    for b, i, st in zm.assigns():
        rv = st["rv"]
        if rv["k"] == "use" and "move" in rv["op"]:
            p = rv["op"]["move"]
            if p["l"] == 2 and p.get("p"):
                fields.add(p["p"][0].get("f") if isinstance(p["p"][0], dict) else None)
    ctx.check({"this", "wildcards", "children"} <= fields, "C12.2", "ZoneRecords::merge:all-parts", "this, wildcards and children of `other` are all moved out",
              "parts of `other` taken: %s" % sorted(x for x in fields if x), zm.loc())
    wc_stores = [w for w in A.field_writes(zm, Z + "ZoneRecords", "wildcards") if w[2] == "store"]
    calls = [zmr.call_expr(t, b) for b, t in A.call_blocks(zm, A.name_is(Z + "merge_zrs_helper"))]
    ctx.check(len(calls) >= 2 and len(wc_stores) >= 1, "C12.2", "ZoneRecords::merge:wildcard-sinks",
              "wildcards are merged into existing ones or adopted", "wildcards of `other` have %d merge call(s) and %d adopting store(s)" % (len(calls), len(wc_stores)), zm.loc())

    # a store to self.wildcards never loses wildcards this node already has: it happens only where self.wildcards is None,
    # and what is stored is Some(the other node's wildcards)
    zmc = A.Conds(zm, zmr)
    for n_, w in enumerate(wc_stores):
        val = A.peel(A.deep_payload(zmr.rvalue(w[3]["rv"], (w[0], w[1]))))
        ok_val = val[0] == "agg" and val[2] == "Some" and (A.path_str(A.deep_payload(dict(val[3])["0"])) or "").startswith("param2.wildcards")
        def mine_none(fc):
            if fc[0] != "is" or fc[1] != "None":
                return False
            x = A.peel(fc[2])
            while x[0] == "call" and x[2] and (x[1].endswith("::as_mut") or x[1].endswith("::as_ref") or x[1].endswith("::as_deref_mut")):
                x = A.peel(x[2][0])
            return A.path_str(x) == "param1.wildcards"
        ok_g = zmc.guarded(w[0], mine_none)[0]
        ctx.check(ok_val and ok_g, "C12.2", "ZoneRecords::merge:wildcards-adopted#%d" % n_, "self.wildcards = Some(other's wildcards), only where self has none",
                  "self.wildcards is overwritten with %s%s" % (A.show(val)[:80], "" if ok_g else " where it may already hold wildcards"), zm.loc(w[0]))

    # ---------------------------------------------------------------- C12.3
    soa_w = [w for w in A.who_writes(prog, Z + "Zone", "soa") if w[3] == "store"]
    soa_agg = [x for x in A.who_constructs(prog, Z + "Zone")]
    ctx.check(sorted({w[0].key for w in soa_w}) == [Z + "Zone::merge"] and sorted({x[0].key for x in soa_agg}) == [Z + "Zone::new"], "C12.3", "who-writes(Zone.soa)",
              "Zone.soa is set in Zone::new and Zone::merge only", "Zone.soa written in %s / built in %s" % (sorted({w[0].key for w in soa_w}), sorted({x[0].key for x in soa_agg})))
    zn = prog.fn(Z + "Zone::new")
    znr = A.Resolver(zn)
    znc = A.Conds(zn, znr)
    inss = A.call_blocks(zn, A.name_is(Z + "ZoneRecords::insert"))
    ctx.floor("C12.3", "SOA record insert in Zone::new", len(inss), 1, exact=True)
    for b, t in inss:
        e = znr.call_expr(t, b)
        ok = bool(A.calls_in(e[2][2], lambda n: n == Z + "SOA::to_rr")) and bool(A.calls_in(e[2][3], lambda n: n == Z + "SOA::to_rr"))
        okg, _ = znc.guarded(b, lambda fc: fc[0] == "is" and fc[1] == "Some")
        rets = A.returns(zn)
        ctx.check(ok and okg, "C12.3", "Zone::new:soa-rrset", "Some(soa) => records.insert(apex, soa.to_rr(..))", "Zone::new does not store the SOA record", zn.loc(b))
        some_edges = znc.edges_where(lambda fc: fc[0] == "is" and fc[1] == "Some")
        for a, s in some_edges:
            ctx.check(all(rb not in zn.reachable(s, removed_blocks=[b]) for rb in rets), "C12.3", "Zone::new:soa-always-inserted",
                      "with a SOA every path inserts the record", "a path with Some(soa) skips the insert", zn.loc(a))
    zmg = prog.fn(Z + "Zone::merge")
    zmgr = A.Resolver(zmg)
    removes = []
    for b, t in A.call_blocks(zmg, A.name_endswith("HashMap::<K, V, S, A>::remove")):
        e = zmgr.call_expr(t, b)
        k = A.peel(e[2][1])
        if A.path_str(e[2][0]) == "param1.records.this" and k[0] == "agg" and k[2] == "SOA":
            removes.append(b)
    merges = [b for b, t in A.call_blocks(zmg, A.name_is(Z + "ZoneRecords::merge"))]
    for w in soa_w:
        if w[0].key != Z + "Zone::merge":
            continue
        b = w[1]
        rets = A.returns(zmg)
        ok_rm = bool(removes) and all(rb not in zmg.reachable(b, removed_blocks=removes) for rb in rets)
        ok_order = bool(merges) and all(mb in zmg.reachable(rb_) for rb_ in removes for mb in merges) and all(rb_ not in zmg.reachable(mb) for rb_ in removes for mb in merges)
        ctx.check(ok_rm and ok_order, "C12.3", "Zone::merge:soa-rrset-replaced", "soa replaced => old apex SOA RRset removed before the record trees are merged",
                  "Zone::merge replaces the SOA but keeps the old SOA record at the apex (two SOA records after a merge)", zmg.loc(b))
        val = zmgr.rvalue(w[4]["rv"], (w[1], w[2])) if w[2] != "term" else None
        okv = val is not None and A.path_str(val) == "param2.soa"
        okg, _ = A.Conds(zmg, zmgr).guarded(b, lambda fc: fc[0] == "call" and fc[1].endswith("is_some") and fc[3] is True and A.path_str(fc[2][0]) == "param2.soa")
        ctx.check(okv and okg, "C12.3", "Zone::merge:last-soa-wins", "self.soa = other.soa iff other.soa.is_some()", "SOA precedence changed", zmg.loc(b))
    for mb in merges:
        e = zmgr.call_expr(zmg.term(mb), mb)
        ctx.check(A.path_str(e[2][0]) == "param1.records" and A.path_str(e[2][1]) == "param2.records" and all(mb not in zmg.reachable(rb) or True for rb in A.returns(zmg)),
                  "C12.3", "Zone::merge:records", "self.records.merge(other.records)", "records merged as %s" % [A.show(x) for x in e[2]], zmg.loc(mb))
    apex_err = A.Conds(zmg, zmgr).edges_where(A.cmp_fact({"Ne"}, Path("param1.apex"), Path("param2.apex")))
    ctx.check(bool(apex_err) and all(not (set(merges) & zmg.reachable(s)) for a, s in apex_err), "C12.3", "Zone::merge:apex-check",
              "different apex => Err, nothing merged", "zones with different apexes can be merged", zmg.loc())

    # ---------------------------------------------------------------- C12.4
    hm = prog.fn(H + "Hosts::merge")
    hmr = A.Resolver(hm)
    inserts = A.call_blocks(hm, A.name_endswith("HashMap::<K, V, S, A>::insert"))
    fams = set()
    for b, t in inserts:
        e = hmr.call_expr(t, b)
        dst, k, v = (A.path_str(x) for x in e[2])
        for fam in ("v4", "v6"):
            if dst == "param1." + fam and k == "param2.%s.[].0" % fam and v == "param2.%s.[].1" % fam:
                fams.add(fam)
    # `self.vN.extend(other.vN)` is the same thing: Extend for HashMap inserts every pair, replacing existing keys
    extends = [(b, t) for b, t in hm.calls() if (t.get("callee") or "").endswith("Extend::extend") or (t.get("resolved") or "").endswith("HashMap<K, V, S, A> as std::iter::Extend<(K, V)>>::extend")]
    for b, t in extends:
        e = hmr.call_expr(t, b)
        dst, src = A.path_str(e[2][0]), A.path_str(e[2][1])
        for fam in ("v4", "v6"):
            if dst == "param1." + fam and src == "param2." + fam:
                fams.add(fam)
    ctx.check(fams == {"v4", "v6"} and len(inserts) + len(extends) == 2, "C12.4", "Hosts::merge", "self.vN.insert(name, address) for every entry of other.vN (later wins)",
              "Hosts::merge inserts %s / extends %s" % ([[A.path_str(x) for x in hmr.call_expr(t, b)[2]] for b, t in inserts], [[A.path_str(x) for x in hmr.call_expr(t, b)[2]] for b, t in extends]), hm.loc())
    # ... and nothing else rearranges the two maps: no swap / replace / take of a whole map, no removal, no whole-map store
    # (ORIGIN does not see writes through `&mut`, so these are looked for explicitly)
    rearr = []
    for b, t in hm.calls():
        n_ = t.get("callee") or ""
        tl = n_.rsplit("::", 1)[-1].split("<")[0]
        if (n_.startswith("std::mem::") and tl in ("swap", "replace", "take")) or ("HashMap" in n_ and tl in ("clear", "remove", "remove_entry", "retain", "drain", "extract_if")):
            rearr.append((tl, hm.loc(b)))
    for fam in ("v4", "v6"):
        for w in A.field_writes(hm, H + "Hosts", fam):
            if w[2] == "store":
                rearr.append(("store to " + fam, hm.loc(w[0])))
    ctx.check(not rearr, "C12.4", "Hosts::merge:maps-only-inserted-into", "the maps of `self` only receive the entries of `other`",
              "Hosts::merge also does %s (which side wins no longer follows from the insert direction)" % [x for x, _ in rearr], rearr[0][1] if rearr else hm.loc())
    hd = prog.fn("dns_types::hosts::deserialise::<impl dns_types::hosts::types::Hosts>::deserialise") if "dns_types::hosts::deserialise::<impl dns_types::hosts::types::Hosts>::deserialise" in prog.fns else prog.find("Hosts>::deserialise")
    hdr = A.Resolver(hd)
    hdc = A.Conds(hd, hdr)
    inserts = A.call_blocks(hd, A.name_endswith("HashMap::<K, V, S, A>::insert"))
    seen = {}
    for b, t in inserts:
        e = hdr.call_expr(t, b)
        dst = A.last_field(e[2][0])
        fam = [fc[1] for fc in hdc.facts_on_all_paths(b) if fc[0] == "is" and fc[1] in ("V4", "V6")]
        seen[dst] = fam
    ok = seen.get("v4") == ["V4"] and seen.get("v6") == ["V6"]
    ctx.check(ok and len(inserts) == 2, "C12.4", "Hosts::deserialise:family-maps", "V4 addresses into v4, V6 into v6, inserted in line order", "hosts entries stored as %s" % seen, hd.loc())
    lines = A.call_blocks(hd, A.name_endswith("str::<impl str>::lines"))
    revs = [t for _, t in hd.calls() if (t.get("callee") or "").endswith("Iterator::rev")]
    ctx.check(len(lines) == 1 and not revs, "C12.4", "Hosts::deserialise:line-order", "data.lines() consumed front to back", "lines are not read in file order", hd.loc())

    # ---------------------------------------------------------------- C12.5
    composition_rules(ctx, "C12.5", prog)

    # ---------------------------------------------------------------- C12.6
    C19.loader_rules(ctx, "C12.6")


def _iter_of(it, vec):
    it = A.peel(it)
    return A.same(it, vec)


def _smallest_loop_has(fn, loops, b):
    return True
