"""Shared rule instances for the resolver's recursive cluster (C08.3/4, C10.3): stack guards,
push/pop typestate."""
from .. import analysis as A

LOCAL = "dns_resolver::local::resolve_local"
REC = "dns_resolver::recursive::"
FWD = "dns_resolver::forwarding::"
CTX = "dns_resolver::context::Context::<'a, CT>::"
CLUSTER = {
    LOCAL: "param2",
    REC + "resolve_recursive_notimeout": "^question",
    FWD + "resolve_forwarding_notimeout": "^question",
}
# callees that can (transitively) re-enter the cluster
REENTRANT = {
    LOCAL, REC + "resolve_recursive_notimeout", FWD + "resolve_forwarding_notimeout",
    REC + "resolve_combined_recursive", REC + "candidate_nameservers", REC + "resolve_hostname_to_ip",
    REC + "resolve_with_nameserver_response",
}


def reentrant_calls(prog, f):
    return [(b, t) for b, t in f.calls() if (t.get("resolved") or t.get("callee")) in REENTRANT]


def counts(fn, events, cap=4):
    """forward dataflow: set of possible counter values at block entry; events: block -> delta
    applied at the block's terminator (call).  Returns (in_sets, overflow_flag)."""
    ins = {0: {0}}
    work = [0]
    overflow = False
    while work:
        b = work.pop()
        out = {v + events.get(b, 0) for v in ins[b]}
        if any(v > cap or v < -cap for v in out):
            overflow = True
            out = {max(-cap, min(cap, v)) for v in out}
        for s in fn.succs(b):
            cur = ins.setdefault(s, set())
            if not out <= cur:
                cur |= out
                work.append(s)
    return ins, overflow


def check_guards(ctx, rule, prog):
    """C08.3: the limit and duplicate guards dominate every re-entrant call."""
    for root, own_q in CLUSTER.items():
        f = prog.body_of(root)
        r = A.Resolver(f)
        c = A.Conds(f, r)
        calls = reentrant_calls(prog, f)
        ctx.floor(rule, "re-entrant calls in %s" % A.short(root), len(calls), 2)
        lim = lambda fc: fc[0] == "call" and fc[1] == CTX + "at_recursion_limit" and fc[3] is False
        dup = lambda fc, own_q=own_q: fc[0] == "call" and fc[1] == CTX + "is_duplicate_question" and fc[3] is False \
            and A.path_str(fc[2][1]) == own_q
        for n, (b, t) in enumerate(calls):
            ok1, _ = c.guarded(b, lim)
            ok2, _ = c.guarded(b, dup)
            callee = A.short(t.get("resolved") or t.get("callee"))
            ctx.check(ok1 and ok2, rule, "%s:guards-before:%s#%d" % (A.short(root), callee, n),
                      "dominated by !at_recursion_limit() and !is_duplicate_question(own question)",
                      "%s can be called without the recursion-limit / duplicate-question guards" % callee, f.loc(b))
        # the guards' true edges return an error
        for gname in ("at_recursion_limit", "is_duplicate_question"):
            gs = A.call_blocks(f, A.name_is(CTX + gname))
            ctx.floor(rule, "%s call in %s" % (gname, A.short(root)), len(gs), 1)
            for gb, gt in gs:
                edges = c.edges_where(lambda fc, gname=gname, gb=gb: fc[0] == "call" and fc[1] == CTX + gname and fc[3] is True)
                for a, s in edges:
                    reach = f.reachable(s)
                    bad = [b for b, _ in calls if b in reach]
                    errs = [bb for bb in A.error_exits(f, r) if bb in reach]
                    ctx.check(not bad and bool(errs), rule, "%s:%s-returns-err" % (A.short(root), gname),
                              "the guard's true edge leads only to `return Err(..)`",
                              "after %s() is true the function still reaches re-entrant calls" % gname, f.loc(a))


def check_pushpop(ctx, rule, prog):
    """C08.4: push/pop typestate {0,1} over each cluster function."""
    for root, own_q in CLUSTER.items():
        f = prog.body_of(root)
        r = A.Resolver(f)
        events = {}
        pushes = A.call_blocks(f, A.name_is(CTX + "push_question"))
        pops = A.call_blocks(f, A.name_is(CTX + "pop_question"))
        for b, t in pushes:
            events[b] = 1
            e = r.call_expr(t, b)
            ctx.check(A.path_str(e[2][1]) == own_q, rule, "%s:push-own-question@%d" % (A.short(root), pushes.index((b, t))),
                      "push_question(own question)", "push_question(%s) is not the function's own question" % A.show(e[2][1]), f.loc(b))
        for b, t in pops:
            events[b] = -1
        ctx.floor(rule, "push_question in %s" % A.short(root), len(pushes), 1)
        ctx.floor(rule, "pop_question in %s" % A.short(root), len(pops), 1)
        ins, overflow = counts(f, events)
        ctx.check(not overflow, rule, "%s:bounded-depth" % A.short(root), "push depth stays within {0,1}",
                  "unbounded push/pop imbalance inside a loop", f.loc())
        for b, t in pushes:
            ctx.check(ins.get(b, set()) <= {0}, rule, "%s:no-double-push@%d" % (A.short(root), pushes.index((b, t))),
                      "push only in state 0", "push_question in state %s" % sorted(ins.get(b, [])), f.loc(b))
        for b, t in pops:
            ctx.check(ins.get(b, set()) == {1}, rule, "%s:pop-matches-push@%d" % (A.short(root), pops.index((b, t))),
                      "pop only in state 1", "pop_question in state %s" % sorted(ins.get(b, [])), f.loc(b))
        for rb in A.returns(f):
            ctx.check(ins.get(rb, set()) <= {0}, rule, "%s:balanced-at-return" % A.short(root), "every return in state 0",
                      "a path returns with the question still on the stack (state %s)" % sorted(ins.get(rb, [])), f.loc(rb))
        calls = reentrant_calls(prog, f)
        lead = 0
        for n, (b, t) in enumerate(calls):
            e = r.call_expr(t, b)
            callee = t.get("resolved") or t.get("callee")
            st = ins.get(b, set())
            if callee == LOCAL and len(e[2]) > 1 and A.path_str(e[2][1]) == own_q and root != LOCAL:
                lead += 1
                ctx.check(st <= {0}, rule, "%s:leading-local" % A.short(root), "resolve_local(own question) before the push",
                          "leading resolve_local called in state %s" % sorted(st), f.loc(b))
                continue
            ctx.check(st == {1}, rule, "%s:nested-call-in-state-1:%s#%d" % (A.short(root), A.short(callee), n),
                      "nested resolution happens with the own question pushed",
                      "%s is called in state %s (own question not on the stack: loops cannot be detected)" % (A.short(callee), sorted(st)), f.loc(b))
