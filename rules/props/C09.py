"""C09 — the server answers every message correctly framed and never goes down (structural clauses)."""
from .. import analysis as A
from ..analysis import Call, Path, Param, Konst

T = "dns_types::protocol::types::"
MSG = T + "Message"
HDR = T + "Header"
NET = "dns_resolver::util::net::"
RR_ = "dns_resolver::util::types::ResolvedRecord"


def is_const(e, val):
    e = A.peel(e)
    return e[0] == "const" and e[2] == val and (isinstance(e[2], bool) == isinstance(val, bool))


def variant_of(e):
    e = A.peel(e)
    return e[2] if e[0] == "agg" else None


def error_id_rule(ctx, rule, prog):
    """Error::id(): every error but the one raised before two octets were read yields Some(the id it carries) (C09.2 / C03.5)"""
    ei = prog.find("protocol::deserialise::Error::id")
    eir = A.Resolver(ei)
    eic = A.Conds(ei, eir)
    arms = {}
    for b, e in A.return_exprs(ei, eir):
        vs = [fc[1] for fc in eic.facts_on_all_paths(b) if fc[0] == "is" and A.peel(fc[2]) == ("param", 1)]
        pe = A.peel(e)
        for v in vs:
            if pe[0] == "agg" and pe[2] == "Some":
                pay = A.peel(dict(pe[3])["0"])
                arms[v] = pay[0] == "field" and pay[1][0] == "downcast" and pay[1][2] == v
            else:
                arms[v] = "None"
    evs = [v["name"] for v in prog.adt("dns_types::protocol::deserialise::Error")["variants"]]
    ok = all(arms.get(v) is True for v in evs if v != "CompletelyBusted") and arms.get("CompletelyBusted") == "None"
    ctx.check(ok, rule, "Error::id:table", "every error but CompletelyBusted yields Some(its id)", "Error::id table: %s" % arms, ei.loc())


def run(ctx):
    prog = ctx.prog
    ctx.rule("C09.1", "handle_raw_message dispatch: response -> no reply; standard opcode -> resolve; other opcode -> NOTIMP on make_response(); parse error -> FORMERR from Error::id()")
    ctx.rule("C09.2", "make_response / make_format_error_response header fields have the documented origins")
    ctx.rule("C09.3", "triage table: 0 questions -> no question, 1 known -> that question, unknown type/class or several -> REFUSED")
    ctx.rule("C09.4", "RA = !authoritative_only, stored before the result is returned and never overwritten; recursion only if RD && RA")
    ctx.rule("C09.5", "UDP: > 512 bytes => TC set and exactly the first 512 bytes sent; else TC cleared and everything sent; one send per path")
    ctx.rule("C09.6", "TCP: big-endian u16 length prefix of exactly the bytes that follow; reader loops until the announced length or fails")
    ctx.rule("C09.7", "one reply per request: a single send site outside any loop in each request task")
    ctx.rule("C09.8", "sections, AA and RCODE per ResolvedRecord variant; SERVFAIL only for an empty NOERROR reply")
    ctx.rule("C09.9", "listen loops have no exit edge; process::exit only during start-up")
    ctx.rule("C09.11", "read_tcp_bytes: an error carries id = the first two body octets (big-endian) whenever at least two were read; id = None only under a fact implying fewer than two (or when the length prefix itself could not be read)")
    ctx.rule("C09.12", "what the UDP listener hands to the request handler is exactly the datagram received: the receive buffer up to the count recv_from reported (not the whole buffer, whose tail holds octets of earlier datagrams)")
    ctx.rule("C09.13", "no datagram can hang the decoder the listener runs it through (C03.2 - C03.4, decided here as well): a request that spins never gets its FORMERR and occupies a worker for good")
    ctx.rule("C09.10", "records placed in the answer section come from an answer (`rrs` of an answering result), not from a referral")
    ctx.decline("live socket behaviour, 'exactly one reply' under all interleavings; panic-freedom of the request path is decided under C03/C08/C17")

    # ---------------------------------------------------------------- C09.1
    h = prog.body_of("resolved::handle_raw_message")
    hr = A.Resolver(h)
    hc = A.Conds(h, hr)
    parsed = lambda x: A.peel(x)[0] == "call" and A.peel(x)[1].endswith("::from_octets")
    rets = A.return_exprs(h, hr)
    kinds = {}
    for b, e in rets:
        facts = hc.facts_on_all_paths(b)
        ok_arm = any(fc[0] == "is" and fc[1] == "Ok" and parsed(fc[2]) for fc in facts)
        err_arm = any(fc[0] == "is" and fc[1] == "Err" and parsed(fc[2]) for fc in facts)
        is_resp = [fc[2] for fc in facts if fc[0] == "truth" and A.last_field(fc[1]) == "is_response"]
        opc = [fc[1] for fc in facts if fc[0] == "cmp" and (A.last_field(fc[2]) == "opcode" or A.last_field(fc[3]) == "opcode")
               and "Standard" in (variant_of(fc[2]) or "", variant_of(fc[3]) or "")]
        pe = A.peel(e)
        if ok_arm and is_resp == [True]:
            kinds["response"] = (b, pe[0] == "agg" and pe[2] == "None")
        elif ok_arm and is_resp == [False] and opc == ["Eq"]:
            inner = A.peel(dict(pe[3])["0"]) if pe[0] == "agg" and pe[2] == "Some" else None
            kinds["standard"] = (b, inner is not None and inner[0] == "await" and A.peel(inner[1])[1] == "resolved::resolve_and_build_response"
                                 and parsed(A.peel(A.peel(inner[1])[2][1])[1][1] if A.peel(A.peel(inner[1])[2][1])[0] == "field" else A.peel(inner[1])[2][1]))
        elif ok_arm and is_resp == [False] and opc == ["Ne"]:
            inner = A.peel(dict(pe[3])["0"]) if pe[0] == "agg" and pe[2] == "Some" else None
            okn = False
            if inner is not None and inner[0] == "local":
                init = A.peel(hr.local_init(inner[1]))
                stores = [(bb, ii, st) for bb, ii, kind, st in A.field_writes(h, HDR, "rcode") if kind == "store" and st["dst"]["l"] == inner[1]]
                okn = init[0] == "call" and init[1] == MSG + "::make_response" and len(stores) == 1 and \
                    variant_of(hr.rvalue(stores[0][2]["rv"], (stores[0][0], stores[0][1]))) == "NotImplemented" and h.dominates(stores[0][0], b)
                others = [w for w in A.field_writes(h, HDR, "id") + A.field_writes(h, HDR, "is_response") if w[3]["dst"]["l"] == inner[1]]
                okn = okn and not others
            kinds["notimp"] = (b, okn)
        elif err_arm:
            ok = pe[0] == "call" and pe[1].endswith("Option::<T>::map") and bool(Call("Error::id")(pe[2][0])) and \
                A.peel(pe[2][1])[0] == "const" and (A.peel(pe[2][1])[3] or {}).get("fn") == MSG + "::make_format_error_response"
            src = A.peel(A.peel(pe[2][0])[2][0]) if ok else None
            ok = ok and src[0] == "field" and src[1][0] == "downcast" and src[1][2] == "Err" and parsed(src[1][1])
            kinds["formerr"] = (b, ok)
    for k, msg in (("response", "a message flagged as a response gets no reply"), ("standard", "standard query -> resolve_and_build_response(args, msg)"),
                   ("notimp", "other opcodes -> make_response() with rcode NOTIMP"), ("formerr", "parse error -> err.id().map(make_format_error_response)")):
        v = kinds.get(k)
        ctx.check(v is not None and v[1], "C09.1", "dispatch:" + k, msg, "dispatch arm '%s' is missing or does something else" % k, h.loc(v[0]) if v else h.loc())
    ctx.check(len(rets) == 4, "C09.1", "dispatch:arms", "four outcomes", "%d return sites in handle_raw_message" % len(rets), h.loc())

    # ---------------------------------------------------------------- C09.2
    mr = prog.fn(MSG + "::make_response")
    mrr = A.Resolver(mr)
    for b, i, st in A.aggregates(mr, HDR):
        d = dict(mrr.rvalue(st["rv"], (b, i))[3])
        ok = A.path_str(d["id"]) == "param1.header.id" and is_const(d["is_response"], True) and A.path_str(d["opcode"]) == "param1.header.opcode" \
            and A.path_str(d["recursion_desired"]) == "param1.header.recursion_desired" and variant_of(d["rcode"]) == "NoError" \
            and is_const(d["is_truncated"], False) and is_const(d["is_authoritative"], False)
        ctx.check(ok, "C09.2", "make_response:header", "id/opcode/RD echoed, QR set, AA/TC clear, NOERROR", "make_response header is %s" % {k: A.show(v) for k, v in d.items()}, mr.loc(b, i))
    for b, i, st in A.aggregates(mr, MSG):
        d = dict(mrr.rvalue(st["rv"], (b, i))[3])
        ok = A.path_str(d["questions"]) == "param1.questions" and all(bool(Call("Vec::<T>::new")(d[k])) for k in ("answers", "authority", "additional"))
        ctx.check(ok, "C09.2", "make_response:sections", "question echoed, other sections empty", "make_response sections are %s" % {k: A.show(v) for k, v in d.items() if k != "header"}, mr.loc(b, i))
    fe = prog.fn(MSG + "::make_format_error_response")
    fer = A.Resolver(fe)
    for b, i, st in A.aggregates(fe, HDR):
        d = dict(fer.rvalue(st["rv"], (b, i))[3])
        ok = A.peel(d["id"]) == ("param", 1) and is_const(d["is_response"], True) and variant_of(d["rcode"]) == "FormatError" and is_const(d["is_truncated"], False)
        ctx.check(ok, "C09.2", "make_format_error_response:header", "id = argument, QR set, FORMERR", "FORMERR header is %s" % {k: A.show(v) for k, v in d.items()}, fe.loc(b, i))
    error_id_rule(ctx, "C09.2", prog)

    # ---------------------------------------------------------------- C09.3
    # "unknown type or class" means exactly the catch-all variants: a query type is unknown iff it is Record(Unknown(_)), ANY /
    # AXFR / MAILA / MAILB are known; same for classes
    # a question is unknown as soon as its type OR its class is: `false` is never returned while either test is true
    qu = prog.fn(T + "Question::is_unknown")
    qur = A.Resolver(qu)
    quc = A.Conds(qu, qur)
    def unk_call(which):
        return lambda x: x[0] == "call" and x[1] == T + which + "::is_unknown"
    def unk_fact(which, truth):
        return lambda fc: fc[0] == "call" and fc[1] == T + which + "::is_unknown" and fc[3] is truth
    n_ret = 0
    for b, e in A.return_exprs(qu, qur):
        pe = A.peel(e)
        n_ret += 1
        t_false = quc.guarded(b, unk_fact("QueryType", False))[0]
        c_false = quc.guarded(b, unk_fact("QueryClass", False))[0]
        if pe[0] == "const" and pe[2] in (False, 0):
            ok = t_false and c_false
        elif pe[0] == "const":
            ok = quc.guarded(b, lambda fc: unk_fact("QueryType", True)(fc) or unk_fact("QueryClass", True)(fc))[0]
        elif unk_call("QueryClass")(pe):
            ok = t_false and A.path_str(pe[2][0]) == "param1.qclass"
        elif unk_call("QueryType")(pe):
            ok = c_false and A.path_str(pe[2][0]) == "param1.qtype"
        elif pe[0] == "bin" and pe[1] in ("BitOr",):
            ok = any(unk_call("QueryType")(A.peel(x)) for x in pe[2:4]) and any(unk_call("QueryClass")(A.peel(x)) for x in pe[2:4])
        else:
            ok = False
        ctx.check(ok, "C09.3", "Question::is_unknown#%d" % n_ret, "unknown iff the type or the class is unknown",
                  "Question::is_unknown returns %s without the other test having failed" % A.show(e)[:80], qu.loc(b))
    ctx.floor("C09.3", "returns of Question::is_unknown", n_ret, 1)
    for ty, inner in (("QueryType", "RecordType"), ("QueryClass", "RecordClass")):
        qf = prog.fn(T + ty + "::is_unknown")
        qr = A.Resolver(qf)
        qc_ = A.Conds(qf, qr)
        vs = [v["name"] for v in prog.adt(T + ty)["variants"]]
        tab = {}
        for b, e in A.return_exprs(qf, qr):
            pe = A.peel(e)
            if pe[0] == "const":
                val = pe[2]
            elif pe[0] == "call" and pe[1] == T + inner + "::is_unknown" and A.path_str(pe[2][0]) in ("param1.<Record>.0",):
                val = "inner"
            else:
                val = A.show(pe)[:50]
            for v in A.possible_variants(qf, qc_, lambda x: A.peel(x) == ("param", 1) or A.path_str(x) == "param1", vs, b):
                tab[v] = val
        want_t = {v: False for v in vs}
        want_t["Record"] = "inner"
        ctx.check(tab == want_t, "C09.3", "%s::is_unknown:table" % ty, "Record(t) -> t.is_unknown(); every other query %s is known" % ("type" if "Type" in ty else "class"),
                  "%s::is_unknown table is %s" % (ty, tab), qf.loc())
        rf = prog.fn(T + inner + "::is_unknown")
        rr_ = A.Resolver(rf)
        rc_ = A.Conds(rf, rr_)
        rvs = [v["name"] for v in prog.adt(T + inner)["variants"]]
        rtab = {}
        for b, e in A.return_exprs(rf, rr_):
            pe = A.peel(e)
            for v in A.possible_variants(rf, rc_, lambda x: A.peel(x) == ("param", 1) or A.path_str(x) == "param1", rvs, b):
                rtab[v] = pe[2] if pe[0] == "const" else A.show(pe)[:40]
        ctx.check(rtab == {v: (v == "Unknown") for v in rvs}, "C09.3", "%s::is_unknown:table" % inner, "unknown exactly for the Unknown(_) variant",
                  "%s::is_unknown is true for %s" % (inner, sorted(v for v, x in rtab.items() if x is not False)), rf.loc())
    tg = prog.fn("resolved::triage")
    tr = A.Resolver(tg)
    tc = A.Conds(tg, tr)
    table = {}
    def is_qlen(x):
        px = A.peel(x)
        if px[0] == "call" and px[1].endswith("::len") and px[2]:
            return "param1.questions" in (A.path_str(px[2][0]) or A.show(px[2][0]))
        if px[0] == "un" and px[1] == "PtrMetadata":
            return "param1.questions" in A.show(px[2])
        return False
    def len_ok(fc, n):
        """truth of a fact about questions.len() when the length is n (None: the fact is about something else)"""
        if fc[0] == "call" and fc[1].endswith("::is_empty") and fc[2] and "param1.questions" in (A.path_str(fc[2][0]) or A.show(fc[2][0])):
            return (n == 0) == fc[3]
        if fc[0] == "cmp":
            for op, x, y in ((fc[1], fc[2], fc[3]), (A.SWAP[fc[1]], fc[3], fc[2])):
                py = A.peel(y)
                if is_qlen(x) and py[0] == "const" and isinstance(py[2], int):
                    k = py[2]
                    return {"Eq": n == k, "Ne": n != k, "Lt": n < k, "Le": n <= k, "Gt": n > k, "Ge": n >= k}[op]
        if fc[0] in ("inteq", "intne") and is_qlen(fc[1]):
            return (n == fc[2]) == (fc[0] == "inteq")
        return None
    def first_question(x):
        px = A.peel(x)
        if bool(Call("index", Path("param1.questions"), Konst(0))(x)):
            return True
        if px[0] == "index" and "param1.questions" in A.show(px[1]):
            ie = A.peel(px[2])
            return ie[0] == "const" and ie[2] == 0
        return False
    for b, e in A.return_exprs(tg, tr):
        facts = tc.facts_on_all_paths(b)
        lens = [n for n in (0, 1, 2, 3) if all(len_ok(fc, n) is not False for fc in facts)]
        unk = [fc[3] for fc in facts if fc[0] == "call" and fc[1] == T + "Question::is_unknown"]
        pe = A.peel(e)
        if lens == [0]:
            key = "0"
        elif lens == [1] and unk == [True]:
            key = "1-unknown"
        elif lens == [1] and (unk == [False] or not unk):
            key = "1-known"
        elif lens == [2, 3]:
            key = "many"
        else:
            key = "?%s" % lens
        if pe[0] == "agg" and pe[2] == "Ok":
            inner = A.peel(dict(pe[3])["0"])
            if inner[0] == "agg" and inner[2] == "None":
                table[key] = "no-question"
            elif inner[0] == "agg" and inner[2] == "Some" and first_question(dict(inner[3])["0"]):
                table[key] = "question[0]"
            else:
                table[key] = A.show(e)
        else:
            table[key] = "refuse"
    want = {"0": "no-question", "1-unknown": "refuse", "1-known": "question[0]", "many": "refuse"}
    ctx.check(table == want, "C09.3", "triage:table", str(want), "triage table is %s" % table, tg.loc())
    rb = prog.body_of("resolved::resolve_and_build_response")
    rbr = A.Resolver(rb)
    rbc = A.Conds(rb, rbr)
    resp_locals = [l for l in range(len(rb.locals)) if rb.local_ty(l) == MSG and rb.has_partial_defs(l)]
    ctx.floor("C09.3", "response message under construction", len(resp_locals), 1, exact=True)
    resp = resp_locals[0]
    init = A.peel(rbr.local_init(resp))
    ctx.check(init[0] == "call" and init[1] == MSG + "::make_response" and A.path_str(init[2][0]) == "^query", "C09.4", "build:starts-from-make_response",
              "response = query.make_response()", "response starts as %s" % A.show(init), rb.loc())
    rcodes = [(b, i, variant_of(rbr.rvalue(st["rv"], (b, i)))) for b, i, kind, st in A.field_writes(rb, HDR, "rcode") if kind == "store"]
    tri_err = lambda fc: fc[0] == "is" and fc[1] == "Err" and A.peel(fc[2])[0] == "call" and A.peel(fc[2])[1] == "resolved::triage"
    for b, i, v in rcodes:
        if v == "Refused":
            ok, _ = rbc.guarded(b, tri_err)
            ctx.check(ok, "C09.3", "build:refused-on-triage-error", "rcode = Refused exactly in triage's Err arm", "Refused is set outside the triage error arm", rb.loc(b, i))
    ctx.check(any(v == "Refused" for _, _, v in rcodes), "C09.3", "build:refused-present", "triage errors are answered REFUSED", "triage errors are not answered REFUSED", rb.loc())
    for a, s in rbc.edges_where(tri_err):
        reach = rb.reachable(s)
        ok = any(b in reach for b, i, v in rcodes if v == "Refused") and not [b for b, t in A.call_blocks(rb, A.name_is("dns_resolver::resolve")) if b in reach]
        ctx.check(ok, "C09.3", "build:refused-no-resolution", "a refused query is not resolved", "a refused query is still resolved", rb.loc(a))

    # ---------------------------------------------------------------- C09.4
    ra = [(b, i, st) for b, i, kind, st in A.field_writes(rb, HDR, "recursion_available") if kind == "store"]
    ctx.floor("C09.4", "stores to recursion_available", len(ra), 1, exact=True)
    for b, i, st in ra:
        v = A.peel(rbr.rvalue(st["rv"], (b, i)))
        ok = v[0] == "un" and v[1] == "Not" and A.path_str(v[2]) == "^args.authoritative_only" and all(rb.dominates(b, x) for x in A.returns(rb))
        ctx.check(ok, "C09.4", "build:RA", "RA = !args.authoritative_only on every path", "RA is set to %s / not on every path" % A.show(v), rb.loc(b, i))
    for cb, ct in A.call_blocks(rb, A.name_is("dns_resolver::resolve")):
        pl = A.op_place(ct["args"][0])
        defs = []
        if pl is not None and A.is_plain_local(pl):
            for d in rb.defs().get(pl["l"], []):
                if d[2] != "partial":
                    defs.extend((b_, A.peel(e_)) for b_, e_ in A.value_sources(rb, rbr, d))     # through `let is_recursive = ..;`
        consts = [e for _, e in defs if e[0] == "const"]
        vals = [(b, e) for b, e in defs if e[0] != "const"]
        ok = len(defs) == 2 and len(consts) == 1 and consts[0][2] is False and len(vals) == 1 and A.path_str(vals[0][1]) == "_%d.header.recursion_available" % resp
        if ok:
            g, _ = rbc.guarded(vals[0][0], lambda fc: fc[0] == "truth" and A.path_str(fc[1]) == "^query.header.recursion_desired" and fc[2] is True)
            ok = g and all(rb.dominates(b, vals[0][0]) for b, i, st in ra)
        ctx.check(ok, "C09.4", "build:recursion-iff-RD-and-RA", "is_recursive = query.RD && response.RA", "resolve()'s is_recursive argument is %s" % [A.show(e) for _, e in defs], rb.loc(cb))

    # ---------------------------------------------------------------- C09.8 / C09.10
    arms = {}
    for b, t in rb.calls():
        n = t.get("callee") or ""
        if not (n.endswith("Vec::<T, A>::append") or n.endswith("Vec::<T, A>::push")):
            continue
        e = rbr.call_expr(t, b)
        dst = A.path_str(e[2][0])
        if not dst or not dst.startswith("_%d." % resp):
            continue
        vs = [fc[1] for fc in rbc.facts_on_all_paths(b) if fc[0] == "is" and fc[1] in ("Authoritative", "AuthoritativeNameError", "NonAuthoritative")]
        src = A.peel(e[2][1])
        fld = None
        x = src
        if x[0] == "field" and x[2] == "0" and x[1][0] == "downcast" and x[1][2] == "Some":
            x = A.peel(x[1][1])
        if x[0] == "field" and x[1][0] == "downcast":
            fld = "%s.%s" % (x[1][2], x[2])
        arms.setdefault(vs[0] if vs else "?", []).append((dst.split(".", 1)[1], fld))
    want = {"Authoritative": [("answers", "Authoritative.rrs"), ("authority", "Authoritative.soa_rr")],
            "AuthoritativeNameError": [("authority", "AuthoritativeNameError.soa_rr")],
            "NonAuthoritative": [("answers", "NonAuthoritative.rrs"), ("authority", "NonAuthoritative.soa_rr")]}
    ctx.check({k: sorted(v) for k, v in arms.items()} == want, "C09.8", "build:section-map", "answers <- rrs, authority <- soa_rr per result variant",
              "section map is %s" % arms, rb.loc())
    aa = {}
    for b, i, kind, st in A.field_writes(rb, HDR, "is_authoritative"):
        if kind != "store":
            continue
        vs = [fc[1] for fc in rbc.facts_on_all_paths(b) if fc[0] == "is" and fc[1] in want]
        v = A.peel(rbr.rvalue(st["rv"], (b, i)))
        aa[vs[0] if vs else "fallback"] = v[2] if v[0] == "const" else A.show(v)
    ctx.check(aa == {"Authoritative": True, "AuthoritativeNameError": True, "NonAuthoritative": False, "fallback": False}, "C09.8", "build:AA-map",
              "AA true exactly for the authoritative variants", "AA map is %s" % aa, rb.loc())
    for b, i, v in rcodes:
        if v == "NameError":
            ok, _ = rbc.guarded(b, lambda fc: fc[0] == "is" and fc[1] == "AuthoritativeNameError")
            ctx.check(ok, "C09.8", "build:NXDOMAIN", "NXDOMAIN only for AuthoritativeNameError", "NXDOMAIN set elsewhere", rb.loc(b, i))
        if v == "ServerFailure":
            g1, _ = rbc.guarded(b, lambda fc: fc[0] == "call" and fc[1].endswith("is_empty") and fc[3] is True and A.path_str(fc[2][0]) == "_%d.answers" % resp)
            g2, _ = rbc.guarded(b, lambda fc: fc[0] == "call" and fc[1].endswith("is_empty") and fc[3] is True and A.path_str(fc[2][0]) == "_%d.authority" % resp)
            g3, _ = rbc.guarded(b, A.cmp_fact({"Eq"}, Path("_%d.header.rcode" % resp), lambda e: variant_of(e) == "NoError"))
            ctx.check(g1 and g2 and g3, "C09.8", "build:SERVFAIL", "SERVFAIL only if answers and authority are empty and rcode is NOERROR",
                      "SERVFAIL can overwrite a meaningful reply", rb.loc(b, i))
    ctx.check(sorted(v for _, _, v in rcodes) == ["NameError", "Refused", "ServerFailure"], "C09.8", "build:rcode-stores", "rcode stores: Refused, NameError, ServerFailure",
              "rcode stores: %s" % sorted(str(v) for _, _, v in rcodes), rb.loc())
    other_hdr = [w for f_ in ("id", "is_response", "opcode", "recursion_desired") for w in A.field_writes(rb, HDR, f_)]
    other_q = [w for w in A.field_writes(rb, MSG, "questions")]
    ctx.check(not other_hdr and not other_q, "C09.8", "build:echo-untouched", "id, QR, opcode, RD and the question are left as make_response() set them",
              "the reply's echoed fields are modified", rb.loc())
    # C09.10: what reaches `answers` must be an answer, not a referral
    conv = prog.find("local::<impl std::convert::From<dns_resolver::local::LocalResolutionResult> for dns_resolver::util::types::ResolvedRecord>::from")
    cr = A.Resolver(conv)
    cc = A.Conds(conv, cr)
    for b, i, st in A.aggregates(conv, RR_):
        e = cr.rvalue(st["rv"], (b, i))
        d = dict(e[3])
        if "rrs" not in d:
            continue
        src = A.peel(d["rrs"])
        arm = src[1][2] if src[0] == "field" and src[1][0] == "downcast" else "?"
        ctx.check(arm != "Delegation", "C09.10", "From<LocalResolutionResult>:%s->%s.rrs" % (arm, e[2]),
                  "answer records come from an answering result",
                  "a local referral's NS records (owner: the delegation point) are returned as `rrs`, which the server places in the ANSWER section", conv.loc(b, i))

    # every UDP datagram of up to 512 octets is received whole: the receive buffer holds at least 512
    ub = prog.body_of("resolved::listen_udp_task")
    ubr = A.Resolver(ub)
    recvs = [ubr.call_expr(t, b) for b, t in ub.calls() if (t.get("callee") or "").endswith("UdpSocket::recv_from")]
    sizes = []
    for e in recvs:
        for x in A.walk(e[2][1]):
            if x[0] == "call" and x[1].endswith("vec::from_elem") and len(x[2]) == 2 and A.peel(x[2][1])[0] == "const":
                sizes.append(A.peel(x[2][1])[2])
            if x[0] == "array" or (x[0] == "call" and x[1].endswith("with_capacity")):
                pass
    ctx.check(bool(recvs) and len(sizes) == len(recvs) and all(isinstance(n_, int) and n_ >= 512 for n_ in sizes), "C09.5", "listen_udp_task:receive-buffer",
              "recv_from reads into a buffer of at least 512 octets", "UDP receive buffer sizes: %s (a 512-octet query would be cut)" % sizes, ub.loc())

    # ---------------------------------------------------------------- C09.5
    for name in ("send_udp_bytes", "send_udp_bytes_to"):
        f = prog.body_of(NET + name)
        r = A.Resolver(f)
        c = A.Conds(f, r)
        sends = [(b, t) for b, t in f.calls() if (t.get("callee") or "") in ("tokio::net::UdpSocket::send", "tokio::net::UdpSocket::send_to")]
        ctx.floor("C09.5", "send sites in %s" % name, len(sends), 1)
        big = A.cmp_fact({"Gt"}, Call("len", Path("^bytes")), Konst(512))
        small = A.cmp_fact({"Le"}, Call("len", Path("^bytes")), Konst(512))
        kinds = {}
        for b, t in sends:
            # what is sent, per place where that value is decided (one send per branch, or one send of a value chosen before)
            alts = []
            rl = A.root_local(f, t["args"][1])
            ds = [d for d in f.defs().get(rl, []) if d[2] != "partial"] if rl is not None else []
            for d in ds:
                alts.extend(A.value_sources(f, r, d))
            if not alts:
                alts = [(b, r.call_expr(t, b)[2][1])]
            for lb, x in alts:
                payload = A.peel_until_call(x, "index")
                where = b if lb not in f.reachable(0) else lb
                gb = c.guarded(where, big)[0] or c.guarded(b, big)[0]
                gs = c.guarded(where, small)[0] or c.guarded(b, small)[0]
                if gb:
                    ok = payload[0] == "call" and payload[1].endswith("::index") and A.path_str(payload[2][0]) == "^bytes" and \
                        A.peel(payload[2][1])[0] == "agg" and A.peel(payload[2][1])[1] == "std::ops::RangeTo" and is_const(dict(A.peel(payload[2][1])[3])["end"], 512)
                    kinds["big"] = ok and kinds.get("big", True)
                elif gs:
                    kinds["small"] = A.path_str(x) == "^bytes" and kinds.get("small", True)
                else:
                    kinds["?%s" % f.loc(lb)] = A.show(x)[:60]
        ctx.check(kinds == {"big": True, "small": True}, "C09.5", name + ":cut", "> 512: &bytes[..512]; otherwise all bytes", "UDP payload selection is %s" % kinds, f.loc())
        flags = {}
        for b, i, st in f.assigns():
            d = st["dst"]
            if d.get("p") and any(isinstance(x, dict) and "index" in x for x in d["p"]):
                v = A.peel(r.rvalue(st["rv"], (b, i)))
                idx = A.peel(r.local([x for x in d["p"] if isinstance(x, dict) and "index" in x][0]["index"], (b, i)))
                gb, _ = c.guarded(b, big)
                gs, _ = c.guarded(b, small)
                if v[0] == "bin" and idx[0] == "const" and idx[2] == 2:
                    flags["big" if gb else "small" if gs else "?"] = (v[1], A.peel(v[3])[2])
        ctx.check(flags == {"big": ("BitOr", 2), "small": ("BitAnd", 253)}, "C09.5", name + ":TC", "TC (bit 1 of octet 2) set iff truncated",
                  "TC handling is %s" % flags, f.loc())
        # the flag is written before the datagram leaves: no path reaches a send without passing a store to the flags octet
        stores = [bb for bb, i, st in f.assigns() if st["dst"].get("p") and any(isinstance(x, dict) and ("index" in x or "cindex" in x) for x in st["dst"]["p"])]
        for b, t in sends:
            ctx.check(bool(stores) and b not in f.reachable(0, removed_blocks=stores), "C09.5", "%s:flag-before-send@%d" % (name, sends.index((b, t))), "TC updated before sending",
                      "datagram sent before the TC flag is updated", f.loc(b))
        # one datagram per call: after a send no other send is reached, and Ok(()) is not returned without one
        again = [(b1, b2) for b1, t1 in sends for b2, t2 in sends if t1.get("target") is not None and b2 in f.reachable(t1["target"])]
        oks = [b for b, e in A.return_exprs(f, r) if A.peel(e)[0] == "agg" and A.peel(e)[2] == "Ok"]
        none = [b for b in oks if b in f.reachable(0, removed_blocks=[sb for sb, _ in sends])]
        ctx.check(not again and not none and bool(oks), "C09.5", name + ":one-send-per-path", "exactly one datagram on every successful path",
                  "sends after a send: %s; Ok without a send: %s" % ([f.loc(x[1]) for x in again], [f.loc(x) for x in none]), f.loc())

    # the transport layer touches nothing of a serialised reply but the TC bit: every store into the message is to octet 2
    # and either sets bit 1 (`|= 0x02`) or clears it (`&= 0xFD`) - the ID, the other flags and the body go out as built
    for name in ("send_udp_bytes", "send_udp_bytes_to", "send_tcp_bytes"):
        f = prog.body_of(NET + name)
        r = A.Resolver(f)
        n_st = 0
        for b, i, st in f.assigns():
            d = st["dst"]
            if not (d.get("p") and any(isinstance(x, dict) and ("index" in x or "cindex" in x) for x in d["p"])):
                continue
            n_st += 1
            el = [x for x in d["p"] if isinstance(x, dict) and ("index" in x or "cindex" in x)][0]
            idx = A.peel(r.local(el["index"], (b, i))) if "index" in el else ("const", "usize", el["cindex"], None)
            v = A.peel(r.rvalue(st["rv"], (b, i)))
            okv = v[0] == "bin" and ((v[1] == "BitOr" and A.peel(v[3])[2] == 0x02) or (v[1] == "BitAnd" and A.peel(v[3])[2] == 0xFD))
            ctx.check(idx[0] == "const" and idx[2] == 2 and okv, "C09.5", "%s:only-TC-touched#%d" % (name, n_st), "bytes[2] |= 0x02 or bytes[2] &= 0xFD",
                      "the transport layer rewrites octet %s of the reply with %s" % (A.show(idx), A.show(v)[:60]), f.loc(b, i))
        ctx.floor("C09.5", "TC updates in %s" % name, n_st, 2)

    # ---------------------------------------------------------------- C09.6
    st_ = prog.body_of(NET + "send_tcp_bytes")
    sr = A.Resolver(st_)
    sc = A.Conds(st_, sr)
    writes = [(b, sr.call_expr(t, b)) for b, t in st_.calls() if (t.get("callee") or "") == "tokio::io::AsyncWriteExt::write_all"]
    ctx.floor("C09.6", "write_all in send_tcp_bytes", len(writes), 2, exact=True)
    if len(writes) == 2:
        writes.sort(key=lambda x: sum(1 for y in writes if st_.dominates(y[0], x[0])))
        (b1, e1), (b2, e2) = writes
        pre = A.peel_until_call(e1[2][1], "to_be_bytes")
        if pre[0] == "cast":
            pre = A.peel_until_call(pre[1], "to_be_bytes")
        lenv = pre[2][0] if pre[0] == "call" and pre[1].endswith("u16>::to_be_bytes") else None
        pay = A.peel_until_call(e2[2][1], "index")
        ok = lenv is not None and pay[0] == "call" and pay[1].endswith("::index") and A.path_str(pay[2][0]) == "^bytes"
        rng = A.peel(pay[2][1]) if ok else None
        ok = ok and rng[0] == "agg" and rng[1] == "std::ops::RangeTo"
        end = A.peel(dict(rng[3])["end"]) if ok else None
        ok = ok and end[0] == "cast" and A.strip_refs(end[1]) == A.strip_refs(lenv) and st_.dominates(b1, b2)
        ctx.check(ok, "C09.6", "send_tcp_bytes:frame", "write(len.to_be_bytes()) then write(&bytes[..len as usize]) with the same len",
                  "TCP frame is prefix=%s payload=%s" % (A.show(e1[2][1])[:100], A.show(e2[2][1])[:120]), st_.loc(b1))
        lv = A.peel(lenv) if lenv is not None else ("?",)
        alts = lv[1] if lv[0] == "phi" else [lv]
        srcs = []
        for a in alts:
            a = A.peel(a)
            if a[0] == "const":
                srcs.append(("const", a[2]))
            elif a[0] == "field" and a[1][0] == "downcast" and a[1][2] == "Ok" and bool(A.Checked(Call("len", Path("^bytes")))(a[1][1])):
                srcs.append(("len",))
            else:
                srcs.append(("?", A.show(a)))
        ctx.check(sorted(srcs) == [("const", 65535), ("len",)], "C09.6", "send_tcp_bytes:length", "len = bytes.len() as u16, or u16::MAX when it does not fit",
                  "TCP length is %s" % srcs, st_.loc())
    rt = prog.body_of(NET + "read_tcp_bytes")
    rr = A.Resolver(rt)
    rc = A.Conds(rt, rr)
    r16 = A.call_blocks(rt, A.name_is("tokio::io::AsyncReadExt::read_u16"))
    ctx.check(len(r16) == 1, "C09.6", "read_tcp_bytes:prefix", "length prefix read with read_u16 (big-endian)", "prefix read differently", rt.loc())
    oks = [b for b, e in A.return_exprs(rt, rr) if A.peel(e)[0] == "agg" and A.peel(e)[2] == "Ok"]
    done = rc.edges_where(lambda fc: fc[0] == "cmp" and fc[1] == "Ge" and bool(Call("len")(fc[2])) and any(x[0] == "await" for x in A.walk(fc[3])))
    ok = bool(oks) and bool(done) and all(ob not in rt.reachable(0, removed_edges=done) for ob in oks)
    ctx.check(ok, "C09.6", "read_tcp_bytes:complete", "Ok(bytes) only once bytes.len() >= announced length", "a short read can be returned as complete", rt.loc())
    ts = [(b, e) for b, e in A.return_exprs(rt, rr) if "TooShort" in A.show(e)]
    ctx.check(len(ts) == 1, "C09.6", "read_tcp_bytes:early-close", "EOF before the announced length => TooShort", "early close is not an error", rt.loc())

    # EOF (read returned 0) before the announced length leaves the read loop: from that edge the read call is reached
    # again only across a `len >= expected` edge followed by the loop's own `len < expected` test - a contradiction
    reads = [b for b, t in A.call_blocks(rt, A.name_is("tokio::io::AsyncReadExt::read_buf"))]
    def read_count(x):
        return any(y[0] == "await" and A.peel(y[1])[0] == "call" and A.peel(y[1])[1].endswith("AsyncReadExt::read_buf") for y in A.walk(x))
    def is_zero(v):
        v = A.peel(v)
        return v[0] == "const" and v[2] == 0
    eof = rc.edges_where(lambda fc: (fc[0] == "inteq" and fc[2] == 0 and read_count(fc[1])) or
                         (fc[0] == "cmp" and fc[1] == "Eq" and ((read_count(fc[2]) and is_zero(fc[3])) or (read_count(fc[3]) and is_zero(fc[2])))))
    ctx.floor("C09.6", "places where the read loop sees EOF (read returned 0)", len(eof), 1)
    def len_test(op):
        return lambda fc: fc[0] == "cmp" and ((fc[1] == op and bool(Call("len")(fc[2])) and any(x[0] == "await" for x in A.walk(fc[3]))) or
                                              (fc[1] == A.SWAP[op] and bool(Call("len")(fc[3])) and any(x[0] == "await" for x in A.walk(fc[2]))))
    ge_edges = rc.edges_where(len_test("Ge"))
    lt_edges = rc.edges_where(len_test("Lt"))
    for a, s_ in eof:
        first = rt.reachable(s_, removed_edges=ge_edges)
        direct = [b for b in reads if b in first]
        later = set()
        for x, y in ge_edges:
            if x in first:
                later |= rt.reachable(y, removed_edges=lt_edges)
        again = [b for b in reads if b in later]
        ctx.check(bool(reads) and not direct and not again, "C09.6", "read_tcp_bytes:eof-leaves-loop", "after read() returned 0 with the message incomplete, the stream is not read again",
                  "after EOF the loop reads again (spins on a closed connection, no reply is ever produced)", rt.loc(a))

    # ---------------------------------------------------------------- C09.13
    from ..core import RuleAlias
    if not isinstance(ctx, RuleAlias):
        from . import C03
        C03.run(RuleAlias(ctx, {"C03.2": "C09.13", "C03.3": "C09.13", "C03.4": "C09.13"}))

    # ---------------------------------------------------------------- C09.12
    lu = prog.body_of("resolved::listen_udp_task")
    lur = A.Resolver(lu)
    froms = [(b, lur.call_expr(t, b)) for b, t in lu.calls() if "BytesMut" in (t.get("resolved") or t.get("callee") or "") and (t.get("resolved") or t.get("callee") or "").endswith("::from")]
    ctx.floor("C09.12", "datagram copies in listen_udp_task", len(froms), 1)
    for b, e in froms:
        ss = A.subslice(e[2][0])
        ok12 = ss is not None and (ss[1] is None or A.peel(ss[1])[2] == 0) and ss[2] is not None and \
            any(x[0] == "await" or (x[0] == "call" and x[1].endswith("recv_from")) for x in A.walk(ss[2])) and A.last_field(A.peel(ss[2])) == "0"
        ctx.check(ok12, "C09.12", "listen_udp_task:datagram-is-received-octets", "handler gets buf[..size], size = the count recv_from returned",
                  "the handler is given %s" % A.show(e[2][0])[:100], lu.loc(b))

    # ---------------------------------------------------------------- C09.11
    def len_upper(fc):
        """strict upper bound on bytes.len() implied by one edge fact, or None"""
        if fc[0] != "cmp":
            return None
        op, l, rgt = fc[1], A.peel(fc[2]), A.peel(fc[3])
        flip = {"Lt": "Gt", "Le": "Ge", "Gt": "Lt", "Ge": "Le", "Eq": "Eq", "Ne": "Ne"}
        if l[0] == "const" and bool(Call("len")(rgt)):
            op, l, rgt = flip[op], rgt, l
        if not (bool(Call("len")(l)) and rgt[0] == "const" and isinstance(rgt[2], int)):
            return None
        return {"Lt": rgt[2], "Le": rgt[2] + 1, "Eq": rgt[2] + 1}.get(op)
    ids = 0
    nones_in_loop = 0
    cap = A.call_blocks(rt, A.name_is("bytes::BytesMut::with_capacity"))
    ctx.check(len(cap) == 1, "C09.11", "read_tcp_bytes:buffer", "one body buffer", "%d body buffers" % len(cap), rt.loc())
    loop_blocks = {b for b in rt.reachable(0) if cap and rt.dominates(cap[0][0], b)}   # the body buffer exists
    for b, i, st in rt.assigns():
        rv = st["rv"]
        if not (rv["k"] == "agg" and rv.get("ak") == "adt" and rv["adt"].endswith("option::Option") and b in rt.reachable(0)):
            continue
        if st.get("exp") or "u16" not in rt.local_ty(st["dst"]["l"]):
            continue                # only the `Option<u16>` ids; log macros build Options of their own
        e = rr.rvalue(rv, (b, i))
        if e[2] == "Some":
            v = A.peel(dict(e[3])["0"])
            ok = v[0] == "call" and v[1].endswith("u16>::from_be_bytes")
            arr = A.peel(v[2][0]) if ok else None
            idx = []
            if ok and arr[0] == "array":
                for el in arr[1]:
                    el = A.peel(el)
                    idx.append(A.peel(el[2])[2] if el[0] == "index" and A.peel(el[2])[0] == "const" else None)
            ids += 1
            ctx.check(idx == [0, 1], "C09.11", "read_tcp_bytes:id-value#%d" % ids, "id = u16::from_be_bytes([bytes[0], bytes[1]])",
                      "the reported id is %s" % A.show(v)[:120], rt.loc(b, i))
        elif e[2] == "None":
            if b not in loop_blocks:
                continue            # the length prefix itself failed: nothing was read
            nones_in_loop += 1
            ub = [u for u in (len_upper(fc) for fc in rc.facts_on_all_paths(b)) if u is not None]
            ctx.check(any(u <= 2 for u in ub), "C09.11", "read_tcp_bytes:no-id#%d" % nones_in_loop, "id = None only when bytes.len() < 2",
                      "an error is reported without the request id although two or more octets may have been read (facts bound len below %s) - no FORMERR reply is sent"
                      % (min(ub) if ub else "nothing"), rt.loc(b, i))
    ctx.floor("C09.11", "Some(id) constructions in read_tcp_bytes", ids, 2)
    tcp_errs = list(A.aggregates(rt, NET + "TcpError"))
    for b, i, st in tcp_errs:
        if b in loop_blocks:
            e = rr.rvalue(st["rv"], (b, i))
            idv = A.peel(dict(e[3])["id"])
            alts = idv[1] if idv[0] == "phi" else [idv]
            has_some = any(A.peel(a)[0] == "agg" and A.peel(a)[2] == "Some" for a in alts)
            ctx.check(has_some, "C09.11", "read_tcp_bytes:%s-carries-id" % e[2], "the error raised mid-message can carry the id",
                      "TcpError::%s raised after body octets were read never carries the id" % e[2], rt.loc(b, i))

    # the server side: every TcpError variant's id is turned into the FORMERR reply
    maps = []
    for f in prog.family("resolved::listen_tcp_task"):
        fr_ = A.Resolver(f)
        for b, t in f.calls():
            if (t.get("callee") or "").endswith("Option::<T>::map"):
                e = fr_.call_expr(t, b)
                fnarg = A.peel(e[2][1])
                if "make_format_error_response" in A.show(fnarg):
                    maps.append((f, b, e))
    ctx.floor("C09.11", "id.map(make_format_error_response) in the TCP task", len(maps), 1, exact=True)
    for f, b, e in maps:
        recv = A.peel(e[2][0])
        alts = recv[1] if recv[0] == "phi" else [recv]
        got = set()
        for a in alts:
            a = A.peel(a)
            if a[0] == "field" and a[2] == "id" and a[1][0] == "downcast" and any(x[0] == "call" and x[1] == NET + "read_tcp_bytes" for x in A.walk(a)):
                got.add(a[1][2])
            else:
                got.add("?" + A.show(a)[:60])
        want = {v["name"] for v in prog.adt(NET + "TcpError")["variants"]}
        ctx.check(got == want, "C09.11", "listen_tcp_task:error-id", "FORMERR reply from the id of every TcpError variant (%s)" % sorted(want),
                  "the id handed to make_format_error_response comes from %s, expected the id field of each of %s" % (sorted(got), sorted(want)), f.loc(b))

    # ---------------------------------------------------------------- C09.7 / C09.9
    for task, send_name, kind in (("resolved::listen_udp_task", NET + "send_udp_bytes_to", "udp"), ("resolved::listen_tcp_task", NET + "send_tcp_bytes", "tcp")):
        fam = prog.family(task)
        body = prog.body_of(task)
        loops = [(hd, bd) for hd, bd in body.loops() if not _is_poll_loop(body, bd)]
        outer = max(loops, key=lambda x: len(x[1])) if loops else None
        ctx.check(outer is not None, "C09.9", "%s:serve-loop" % kind, "found the serve loop", "no serve loop in %s" % task, body.loc())
        if outer:
            hd, bd = outer
            exits = [(b, s) for b in bd for s in body.succs(b) if s not in bd]
            real = [(b, s) for b, s in exits if body.term(s)["k"] != "unreachable" and _reaches_return(body, s)]
            ctx.check(not real, "C09.9", "%s:no-exit-edge" % kind, "the serve loop has no break / return edge", "the %s serve loop can exit at %s" % (kind, [body.loc(b) for b, _ in real]), body.loc(hd))
        sends = []
        for f_ in fam:
            for b, t in A.call_blocks(f_, A.name_is(send_name)):
                in_loop = any(b in bd2 and not _is_poll_loop(f_, bd2) for _, bd2 in f_.loops())
                sends.append((f_, b, in_loop))
        ctx.check(len(sends) == 1, "C09.7", "%s:single-send-site" % kind, "one %s call in the task" % A.short(send_name), "%d send sites" % len(sends), body.loc())
        handles = [(f_, b) for f_ in fam for b, t in A.call_blocks(f_, A.name_is("resolved::handle_raw_message"))]
        ctx.check(len(handles) == 1 and handles[0][0] is not body and not any(handles[0][1] in bd2 and not _is_poll_loop(handles[0][0], bd2) for _, bd2 in handles[0][0].loops()),
                  "C09.7", "%s:one-handle-per-request" % kind, "each request is handled once, in its own spawned task", "handle_raw_message call sites: %d" % len(handles), body.loc())
        spawns = [(f_, b) for f_ in fam for b, t in f_.calls() if (t.get("callee") or "") == "tokio::spawn"]
        ctx.check(len(spawns) >= 1, "C09.9", "%s:request-task-isolated" % kind, "requests run in tokio::spawn tasks (a panic ends one task)", "requests are not spawned", body.loc())
        if kind == "tcp":
            for f_, b, in_loop in sends:
                ctx.check(not in_loop, "C09.7", "tcp:send-not-in-loop", "the TCP reply is written once", "TCP reply written inside a loop", f_.loc(b))
        else:
            # the spawned task forwards at most one message per request
            chan = [(f_, b) for f_ in fam for b, t in f_.calls() if (t.get("callee") or "").endswith("mpsc::Sender::<T>::send")]
            ok = len(chan) == 1 and not any(chan[0][1] in bd2 and not _is_poll_loop(chan[0][0], bd2) for _, bd2 in chan[0][0].loops())
            if ok:
                f_, b = chan[0]
                cc2 = A.Conds(f_)
                g, _ = cc2.guarded(b, lambda fc: fc[0] == "is" and fc[1] == "Some" and any(x[0] == "call" and x[1] == "resolved::handle_raw_message" for x in A.walk(fc[2])))
                ok = g
            ctx.check(ok, "C09.7", "udp:one-reply-queued", "reply.send(..) once, only if handle_raw_message returned Some", "the UDP task can queue several replies / replies to nothing", body.loc())
    # panic sites of the serving tasks (outside what C08.8 / C03 / C17 already cover)
    from .. import panics as P
    from . import panicjust
    state = {}
    covered = {f.key for f in P.reach_set(prog, ["dns_resolver::resolve"])}
    roots = ["resolved::listen_udp_task", "resolved::listen_tcp_task", "resolved::handle_raw_message", "resolved::prune_cache_task", "resolved::reload_task"]
    sfns = [f for f in P.reach_set(prog, roots) if not f.derived and f.key not in covered]
    ctx.floor("C09.9", "server-side functions examined for panic sites", len(sfns), 60)
    base = panicjust.make(prog, state)

    def sjust(f, res, pv, b, kind, t):
        r = base(f, res, pv, b, kind, t)
        if r is not None and r[0]:
            return r
        # tokio::select! bookkeeping (branch-disabled mask, random start index, the "all branches disabled" panic)
        if (t.get("tmacro") or t.get("macro") or "").startswith("tokio::select") and f.root_key == "resolved::listen_udp_task":
            body = prog.body_of("resolved::listen_udp_task")
            tx_clones = [bb for g in prog.family("resolved::listen_udp_task") for bb, tt in g.calls() if (tt.get("callee") or "").endswith("Clone::clone") and "mpsc::Sender" in (tt.get("inst") or "")]
            chans = [bb for bb, tt in body.calls() if (tt.get("callee") or "").endswith("mpsc::channel")]
            if len(chans) == 1 and tx_clones:
                return True, "tokio::select! internals over two branches; `rx.recv()` cannot yield None (the loop owns `tx` and only hands out clones), so the all-disabled arm is unreachable"
            return False, "select! may run with every branch disabled"
        # &buf[..size]: size is what recv_from reported for that very buffer
        if f.key == "resolved::listen_udp_task::{closure#0}" and kind == "call:index":
            e = res.call_expr(t, b)
            rng = A.peel(e[2][1])
            if rng[0] == "agg" and rng[1] == "std::ops::RangeTo":
                end = dict(rng[3])["end"]
                rf = [x for x in A.walk(end) if x[0] == "call" and x[1].endswith("UdpSocket::recv_from")]
                if rf and A.same(rf[0][2][1], e[2][0]) or (rf and A.strip_refs(A.peel(rf[0][2][1])) == A.strip_refs(A.peel(e[2][0]))):
                    return True, "size is the byte count recv_from reported for this same buffer (<= buf.len() by its contract)"
            return False, "datagram slice end is not recv_from's count for the sliced buffer"
        return r
    d = P.Discharger(ctx, "C09.9", prog, sjust)
    before = len(ctx.violations)
    counts = d.run(sfns)
    bad_fns = {v["site"].split(":")[0] for v in ctx.violations[before:]}
    panicjust.settle_mutex(ctx, "C09.9", prog, state, [f.key for f in sfns if A.short(f.key) in bad_fns])
    ctx.note("C09.9 site kinds: %s" % counts)

    exits = sorted({f.root_key for f, _, _ in A.who_calls(prog, "std::process::exit")})
    ctx.check(set(exits) <= {"resolved::main", "resolved::reload_task", "dnsq::main", "htoh::main", "htoz::main", "ztoh::main", "ztoz::main"}, "C09.9", "who-calls(process::exit)",
              "process::exit only in main / reload_task start-up / the CLI tools", "process::exit called from %s" % exits)
    rt_ = prog.body_of("resolved::reload_task")
    ex = [b for b, t in A.call_blocks(rt_, A.name_is("std::process::exit"))]
    ok = all(not any(b in bd for _, bd in rt_.loops()) for b in ex)
    ctx.check(ok, "C09.9", "reload_task:exit-before-loop", "reload_task can only exit before its signal loop (failed subscription)", "process::exit inside the reload loop", rt_.loc())


def _is_poll_loop(fn, body):
    return any(fn.term(b)["k"] == "yield" for b in body) and len(body) < 40


def _reaches_return(fn, b):
    return any(fn.term(x)["k"] == "return" for x in fn.reachable(b))
