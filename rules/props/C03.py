"""C03 — wire decoder is crash-free, bounded and accepts exactly well-formed messages."""
from .. import analysis as A
from ..core import RuleAlias
from .. import panics as P
from ..analysis import Call, Path, Param, Konst
from . import codec
from .codec import T, DES, CB

FROM_OCTETS = DES + "<impl dns_types::protocol::types::Message>::from_octets"
WIRE_DN = DES + "<impl dns_types::protocol::types::DomainName>::deserialise"
TRYFROM = "<dns_types::protocol::types::Label as std::convert::TryFrom<&[u8]>>::try_from"


def justify(prog):
    def j(f, res, pv, b, kind, t):
        name = t.get("callee") or ""
        # Label::try_from(os).unwrap() in the wire decoder: os = take(size), size <= LABEL_MAX_LEN, the
        # same constant try_from compares against
        if f.key == WIRE_DN and kind == "call:unwrap":
            e = res.call_expr(t, b)
            src = A.peel_refs(e[2][0])
            if src[0] == "call" and src[1] == TRYFROM:
                os_ = A.peel(src[2][0])
                tk = [x for x in A.walk(os_) if x[0] == "call" and x[1] == CB + "take"]
                if tk:
                    size = tk[0][2][1]
                    lim = lambda x: A.peel(x)[0] == "const" and (A.peel(x)[3] or {}).get("uneval") == T + "LABEL_MAX_LEN"
                    ok, _ = pv.conds.guarded(b, A.cmp_fact({"Le"}, lambda x: P.lin(x) == P.lin(size), lim))
                    tf = prog.fn(TRYFROM)
                    tfc = A.Conds(tf)
                    errs = tfc.edges_where(A.cmp_fact({"Gt"}, Call("len", Param(1)), lim))
                    only = len([bb for bb, e_ in A.return_exprs(tf) if A.peel(e_)[0] == "agg" and A.peel(e_)[2] == "Err"]) == 1
                    if ok and errs and only:
                        return True, "try_from fails only for len > LABEL_MAX_LEN; the slice is take(size) with size <= LABEL_MAX_LEN on every path"
            return False, "unwrap of %s is not covered by the label-length guard" % A.show(src)[:80]
        if f.key == T + "Label::len" and kind == "call:unwrap":
            # octets.len() fits u8 because every Label holds <= 63 octets (who-constructs + limit guard, C16.1/C16.3)
            sites = sorted({x[0].key for x in A.who_constructs(prog, T + "Label")})
            tf = prog.fn(TRYFROM)
            tfc = A.Conds(tf)
            lim = lambda x: A.peel(x)[0] == "const" and (A.peel(x)[3] or {}).get("uneval") == T + "LABEL_MAX_LEN"
            guarded = all(tfc.guarded(bb, A.cmp_fact({"Le"}, Call("len", Param(1)), lim))[0] for bb, i, st in A.aggregates(tf, T + "Label"))
            limv = A.mir.const_val(prog.const(T + "LABEL_MAX_LEN"))
            if sites == sorted([TRYFROM, T + "Label::new"]) and guarded and isinstance(limv, int) and limv <= 255:
                return True, "Label.octets has at most LABEL_MAX_LEN (%d <= 255) octets: only try_from (guarded) and new (empty) construct a Label" % limv
            return False, "a Label longer than 255 octets may exist"
        return None
    return j


def _add_operands(fn, op):
    """(a, b) operands when `op` is (a copy of) the result of `a + b` (checked or not), else None"""
    p = A.op_place(op)
    seen = set()
    while p is not None and p["l"] not in seen:
        seen.add(p["l"])
        sd = fn.single_def(p["l"])
        if sd is None or sd[2] != "assign":
            return None
        rv = fn.blocks[sd[0]]["stmts"][sd[1]]["rv"]
        if rv["k"] == "bin" and rv["op"] in ("Add", "AddWithOverflow", "AddUnchecked"):
            return rv["a"], rv["b"]
        if rv["k"] == "use" and A.op_place(rv["op"]) is not None:
            p = A.op_place(rv["op"])
            continue
        return None
    return None


def run(ctx):
    prog = ctx.prog
    ctx.rule("C03.1", "every panic-capable site reachable from Message::from_octets is discharged (bounds by dominating comparisons on the same cursor, range-loop indices, justified unwraps)")
    ctx.rule("C03.2", "every loop of the decoder consumes input or counts down a u16 section count")
    ctx.rule("C03.3", "compression pointers are followed only to a strictly earlier 14-bit offset (start register := that offset), whether by the loop or by a nested call; there is no other recursion")
    ctx.rule("C03.5", "every error carries the header ID except the one raised before two bytes were read")
    ctx.rule("C03.6", "strictness guards: label length <= 63, pointer >= 192, reserved types in between rejected, name <= 255, RDLENGTH must equal the bytes consumed")
    ctx.rule("C03.7", "reader layout = RFC 1035 / 2782 / 3596 table")
    ctx.decline("agreement with a reference decoder on all inputs")
    ctx.rule("C03.4", "stack: no call cycle is reachable from Message::from_octets (so the stack depth is a constant of the program, not of the message) and no reachable function holds a large array local")

    # the code tables the decoder reads types, classes, opcodes and rcodes through are the RFC's (C04.1, decided here as well:
    # "reads them as an independent RFC 1035 decoder does")
    if not isinstance(ctx, RuleAlias):
        from . import C04
        C04.run(RuleAlias(ctx, {"C04.1": "C03.7"}))
    fns = [f for f in P.reach_set(prog, [FROM_OCTETS]) if not f.derived]
    ctx.floor("C03.1", "functions reachable from Message::from_octets", len(fns), 15)
    d = P.Discharger(ctx, "C03.1", prog, justify(prog))
    counts = d.run(fns)
    # (how many sites there are depends on idiom - `octets[i]` vs `octets.get(i)?` - so only the total is guarded against vacuity)
    ctx.floor("C03.1", "panic-capable sites examined in the decoder", sum(counts.values()), 5)
    ctx.note("site kinds examined: %s" % counts)
    # no user-written unsafe anywhere (the bounds argument relies on safe indexing)
    ctx.check(not prog.unsafe, "C03.1", "no-unsafe", "no user-written unsafe in the workspace", "user-written unsafe present: %s" % prog.unsafe)

    # ---------------------------------------------------------------- C03.2
    nloops = 0
    for f in fns:
        for header, body in f.loops():
            nloops += 1
            prog_blocks = []
            kind = None
            for b in body:
                t = f.term(b)
                if t["k"] == "call":
                    n = t.get("resolved") or t.get("callee") or ""
                    if n.endswith("Range<A>>::next") or (n.endswith("::next") and "Iterator" in n):
                        prog_blocks.append(b)
                        kind = "iterator"
                    elif n == CB + "next_u8":
                        prog_blocks.append(b)
                        kind = kind or "consumes an octet"
            ok = bool(prog_blocks) and not f.has_cycle(removed_blocks=prog_blocks, within=body)
            if ok and kind == "consumes an octet":
                # the consuming call must actually have delivered an octet on the cycle (Some edge)
                c = A.Conds(f)
                none_edges = c.edges_where(lambda fc: fc[0] == "is" and fc[1] == "None" and A.peel(fc[2])[0] == "call" and A.peel(fc[2])[1] == CB + "next_u8")
                for a, s in none_edges:
                    if a in body and s in body and f.has_cycle(removed_edges=[(x, y) for x in body for y in f.succs(x) if (x, y) != (a, s) and False], within=body):
                        pass
                ok = all(not (s in body and header in f.reachable(s) and _stays(f, body, s, header)) for a, s in none_edges if a in body)
            ctx.check(ok, "C03.2", "%s:loop@%s" % (A.short(f.key), kind), "every cycle %s" % ("advances a finite iterator" if kind == "iterator" else "consumes input"),
                      "loop at %s can iterate without consuming input" % f.loc(header), f.loc(header))
    ctx.floor("C03.2", "loops in the decoder", nloops, 5)
    md = prog.fn(DES + "<impl dns_types::protocol::types::Message>::deserialise")
    mr = A.Resolver(md)
    for b, t in md.calls():
        if (t.get("resolved") or "").endswith("Range<A>>::next"):
            it = A.peel(mr.call_expr(t, b)[2][0])
            end = codec.untry(dict(it[3])["end"]) if it[0] == "agg" else ("?",)
            ctx.check(end[0] == "call" and end[1] == CB + "next_u16", "C03.2", "Message::deserialise:count@%s" % md.loc(b).split(":")[-1], "section loop bound is a u16 read from the header",
                      "section loop bound is %s" % A.show(end)[:80], md.loc(b))

    # every section is read to the count the header gives: a section loop is left only when its range is exhausted or by
    # returning the element's error (no `break` on an error, whatever the flags say)
    mdc = A.Conds(md, mr)
    md_headers = {h for h, _ in md.loops()}
    ok_rets = {b for b, e in A.return_exprs(md, mr) if A.peel(e)[0] == "agg" and A.peel(e)[2] == "Ok"}
    early = [(h, a, s_) for h, a, s_ in A.early_loop_exits(md, mdc) if (md_headers | ok_rets) & set(A.reachable_tagged(md, s_))]
    ctx.check(not early, "C03.2", "Message::deserialise:sections-complete", "a section loop ends only at its count or with the element's error",
              "a section loop can be left early at %s and decoding goes on (fewer records than the header says are accepted)" % [md.loc(a) for h, a, s_ in early],
              md.loc(early[0][1]) if early else md.loc())

    # the fixed-layout parts (header, counts, question) are rejected only because a read ran out of octets: every error
    # built there sits on the None edge of a cursor primitive (a 12-octet message is a complete header)
    n_fix = 0
    for key_ in (DES + "<impl dns_types::protocol::types::Message>::deserialise", DES + "<impl dns_types::protocol::types::Header>::deserialise"):
        g_ = prog.fn(key_)
        gr_ = A.Resolver(g_)
        gc_ = A.Conds(g_, gr_)
        read_failed = lambda fc: fc[0] == "is" and fc[1] == "None" and A.peel(fc[2])[0] == "call" and A.peel(fc[2])[1].startswith(CB + "next_")
        for b_, i_, st_ in A.aggregates(g_, "std::result::Result", "Err"):
            pv_ = A.peel(gr_.operand(st_["rv"]["ops"][0], (b_, i_)))
            if pv_[0] != "agg" or pv_[1] != DES + "Error":
                continue
            n_fix += 1
            okf_, _ = gc_.guarded(b_, read_failed)
            ctx.check(okf_, "C03.6", "%s:error-only-from-failed-read#%d" % (A.short(g_.key), n_fix), "an error of the fixed-layout part is raised only when a read found no octets",
                      "%s can reject input although every read succeeded (e.g. a message that is just a header)" % A.short(g_.key), g_.loc(b_, i_))
    ctx.floor("C03.6", "errors built in Message / Header deserialise", n_fix, 3)

    # ---------------------------------------------------------------- C03.3
    fkeys = {f.key for f in fns}
    edges = {}
    for g in fns:
        for b, t in g.calls():
            callee = t.get("resolved") or t.get("callee")
            if callee in fkeys:
                edges.setdefault(g.key, set()).add(callee)
        for b, i, st in g.assigns():
            rv = st["rv"]
            if rv["k"] == "agg" and rv["ak"] in ("closure", "coroutine") and rv.get("def") in fkeys:
                edges.setdefault(g.key, set()).add(rv["def"])
    def reaches(a, target):
        seen, stack = set(), [a]
        while stack:
            x = stack.pop()
            if x == target:
                return True
            if x in seen:
                continue
            seen.add(x)
            stack.extend(edges.get(x, ()))
        return False
    rec = []
    for g in fns:
        for b, t in g.calls():
            callee = t.get("resolved") or t.get("callee")
            if callee in fkeys and reaches(callee, g.key):
                rec.append((g, b, t, callee))
    recset = {(g.key, tgt) for g, b, t, tgt in rec}
    ctx.check(recset <= {(WIRE_DN, WIRE_DN)}, "C03.3", "recursion:only-pointer", "the decoder has no recursive call" if not recset else "the only recursive call in the decoder is DomainName::deserialise -> itself",
              "recursive calls: %s" % sorted({(A.short(g.key), A.short(tgt)) for g, b, t, tgt in rec}))
    # ---------------------------------------------------------------- C03.4
    # One stack frame per compression pointer overflowed the 2 MiB worker stack in a dev-profile build
    # (chain of ~8000 pointers in a 16 KiB message, defect D11): any recursion whose depth the message
    # controls is reported.  With no cycle at all the depth is the longest path of the (finite) call graph.
    for g, b, t, tgt in rec:
        ctx.bad("C03.4", "decoder:input-bounded-recursion:%s" % A.short(tgt),
                "%s calls %s recursively, once per %s: the stack depth is chosen by the sender (up to 2^13 nested pointers in one TCP message, one frame each)"
                % (A.short(g.key), A.short(tgt), "compression pointer" if tgt == WIRE_DN else "nested item"), g.loc(b))
    if not rec:
        ctx.ok("C03.4", "decoder:no-recursion", "no call cycle among the %d functions reachable from Message::from_octets" % len(fns))
    import re as _re
    big = []
    for g in fns:
        for l, rec_ in (g.locals.items() if isinstance(g.locals, dict) else enumerate(g.locals)):
            ty = rec_["ty"]
            for m in _re.finditer(r"; (\d+)\]", ty):
                if int(m.group(1)) >= 4096:
                    big.append((A.short(g.key), l, ty))
    ctx.check(not big, "C03.4", "decoder:no-large-array-locals", "no array local of 4096 or more elements in the decoder", "large array locals: %s" % big[:5])

    wd = prog.fn(WIRE_DN)
    wr = A.Resolver(wd)
    wc = A.Conds(wd, wr)
    # at_offset re-positions a cursor over the same octets
    ao = prog.fn(CB + "at_offset")
    aor = A.Resolver(ao)
    aggs = [aor.rvalue(st["rv"], (b, i)) for b, i, st in A.aggregates(ao, DES + "ConsumableBuffer")]
    ctx.check(len(aggs) == 1 and A.path_str(dict(aggs[0][3])["octets"]) == "param1.octets" and A.peel(dict(aggs[0][3])["position"]) == ("param", 2),
              "C03.3", "at_offset", "at_offset(p) = the same octets at position p", "at_offset builds %s" % [A.show(a) for a in aggs], ao.loc())
    hops = [(b, t) for b, t in wd.calls() if (t.get("callee") or "") == CB + "at_offset"]
    ctx.floor("C03.3", "compression-pointer hops in DomainName::deserialise", len(hops), 1)
    ctx.check(len(A.who_calls(prog, CB + "at_offset")) == len(hops), "C03.3", "at_offset:callers", "cursors are re-positioned only when following a compression pointer",
              "at_offset is also called from %s" % sorted({A.short(f.key) for f, b, t in A.who_calls(prog, CB + "at_offset")}))
    # the register holding "where the name being read begins": the user variable initialised from the cursor's position
    start_names = [l for l in A.locals_defined_as(wd, wr, lambda e: A.path_str(e) == "param2.position") if wd.locals[l].get("user")]
    ctx.check(len(start_names) == 1, "C03.3", "start-register", "one register initialised from the cursor position before anything is read", "no unique start-of-name register in DomainName::deserialise (%d)" % len(start_names), wd.loc())
    start_l = start_names[0] if start_names else None
    sdefs = wd.defs().get(start_l, []) if start_l is not None else []
    first_mut = [bb for bb, tt in wd.calls() if any(A.op_place(a) is not None and wd.local_ty(A.op_place(a)["l"]).startswith("&mut dns_types::protocol::deserialise::ConsumableBuffer") for a in tt["args"])]
    init = [d for d in sdefs if A.path_str(wr._def_expr(d, 0)) == "param2.position"]
    ok_start = len(init) == 1 and all(wd.dominates(init[0][0], bb) for bb in first_mut)
    rec_calls = {b for g, b, t, tgt in rec if g.key == WIRE_DN}
    for n, (b, t) in enumerate(hops):
        e = wr.call_expr(t, b)
        ptr = e[2][1]
        def strictly_before(fc):
            if fc[0] != "cmp":
                return False
            for op, x, y in ((fc[1], fc[2], fc[3]), (A.SWAP[fc[1]], fc[3], fc[2])):
                if op != "Lt" or not A.same_value(x, ptr):
                    continue
                py = A.peel(y)
                if py[0] == "phi" and len(py) > 2 and py[2] == start_l:
                    return True                     # a read of the (re-assigned) start register
                if init and A.strip_refs(y) == A.strip_refs(wr._def_expr(init[0], 0)) and len(sdefs) == 1:
                    return True                     # the start register is never re-assigned
            return False
        okg, _ = wc.guarded(b, strictly_before)
        inner = A.peel_until_call(ptr, "from_be_bytes")
        ok14 = inner[0] == "call" and inner[1].endswith("u16>::from_be_bytes")
        if ok14:
            arr = A.peel(inner[2][0])
            hi = A.peel(arr[1][0]) if arr[0] == "array" and len(arr[1]) == 2 else ("?",)
            ok14 = hi[0] == "bin" and hi[1] == "BitAnd" and A.peel(hi[3])[2] == 0x3F
        # how the hop is taken: handed to a nested call (whose own start is the new position), or the loop goes on reading there
        nested = [rb for rb in rec_calls if any(x[0] == "call" and x[1] == CB + "at_offset" and x[3] == (wd.key, b) for x in A.walk(wr.call_expr(wd.term(rb), rb)))]
        if nested:
            how = "nested call"
            ok_upd = True
            after = [x for x in wd.reachable(wd.term(nested[0])["target"]) if any(x in body for _, body in wd.loops()) and wd.term(x)["k"] == "call" and (wd.term(x).get("callee") or "") == CB + "next_u8"]
            ctx.check(not after, "C03.3", "pointer:ends-name", "a pointer ends the name (no further labels are read)", "decoding continues after a pointer", wd.loc(b))
        else:
            how = "loop"
            upd = [d for d in sdefs if d not in init and A.same_value(wr._def_expr(d, 0), ptr)]
            ok_upd = bool(upd) and all((d[0] == b or wd.dominates(d[0], b)) for d in upd) and len(sdefs) == len(init) + len(upd)
        ctx.check(ok_start and okg and ok14 and ok_upd, "C03.3", "pointer:strictly-backward#%d" % n,
                  "%s hop to a 14-bit offset < start, start = the position before any consumption, then := the offset hopped to (so hops strictly descend: at most 2^14 of them)" % how,
                  "pointer hops are not restricted to strictly earlier offsets (start captured first: %s, guard ptr < start: %s, 14-bit: %s, start := ptr on the hop: %s)" % (ok_start, okg, ok14, ok_upd), wd.loc(b))
    if not rec_calls:
        # once a pointer has been followed the caller's cursor is not read again: the `pointee` cursor is None until the first hop and Some ever after
        cur = [l for l in wd.names if wd.local_ty(l).startswith("std::option::Option<dns_types::protocol::deserialise::ConsumableBuffer")]
        okc = len(cur) == 1
        if okc:
            kinds = []
            for d in wd.defs().get(cur[0], []):
                v = A.peel(wr._def_expr(d, 0))
                in_loop = any(d[0] in body for _, body in wd.loops())
                kinds.append((v[2] if v[0] == "agg" else "?", in_loop))
            okc = sorted(kinds) == sorted([("None", False)] + [("Some", True)] * len(hops))
        ctx.check(okc, "C03.3", "pointer:cursor", "the pointed-to cursor is None before the loop and only ever set to Some(at_offset(..)) inside it",
                  "the pointed-to cursor is assigned otherwise: %s" % (kinds if len(cur) == 1 else cur), wd.loc())

    # ---------------------------------------------------------------- C03.5
    from . import C09 as _c09
    _c09.error_id_rule(ctx, "C03.5", prog)
    ERR = DES + "Error"
    busted = [(f, b, i) for f, b, i, st in A.who_constructs(prog, ERR, "CompletelyBusted")]
    hd = prog.fn(DES + "<impl dns_types::protocol::types::Header>::deserialise")
    hr = A.Resolver(hd)
    first_reads = [b for b, t in hd.calls() if (t.get("callee") or "").startswith(CB + "next_")]
    first_reads.sort(key=lambda x: sum(1 for y in first_reads if hd.dominates(y, x)))
    ok = len(busted) == 1 and busted[0][0].key == hd.key
    if ok:
        # where the ID-less error becomes the function's failure: `first_read.ok_or(CompletelyBusted)` as a call, or -
        # its normal form - an Err(CompletelyBusted) built only on the None edge of the very first read
        first_none = lambda fc: fc[0] == "is" and fc[1] == "None" and A.peel(fc[2])[0] == "call" and A.peel(fc[2])[1] == CB + "next_u16" \
            and A.peel(fc[2])[3][1] == first_reads[0]
        hc_ = A.Conds(hd, hr)
        ok_or = [(b, hr.call_expr(t, b)) for b, t in hd.calls() if (t.get("callee") or "").endswith("Option::<T>::ok_or")]
        mine = [e for b, e in ok_or if A.peel(e[2][1])[0] == "agg" and A.peel(e[2][1])[2] == "CompletelyBusted"]
        as_call = len(mine) == 1 and A.peel(mine[0][2][0])[0] == "call" and A.peel(mine[0][2][0])[1] == CB + "next_u16" and A.peel(mine[0][2][0])[3][1] == first_reads[0]
        errs = []
        for b, i, st in A.aggregates(hd, "std::result::Result", "Err"):
            pv = A.peel(hr.operand(st["rv"]["ops"][0], (b, i)))
            if pv[0] == "agg" and pv[2] == "CompletelyBusted":
                errs.append(b)
        as_match = bool(errs) and all(hc_.guarded(b, first_none)[0] for b in errs)
        ok = (as_call and not errs) or (as_match and not mine)
    ctx.check(ok, "C03.5", "CompletelyBusted:only-before-id", "the ID-less error is raised only when the very first u16 read fails", "CompletelyBusted can be raised after the ID was available", hd.loc())
    n_err = 0
    for f, b, i, st in A.who_constructs(prog, ERR):
        if st["rv"]["variant"] == "CompletelyBusted" or f.derived:
            continue
        n_err += 1
        r = A.Resolver(f)
        e = r.rvalue(st["rv"], (b, i))
        idv = dict(e[3])["0"]
        ps = A.path_str(idv, open_root=True)
        ok = A.peel(idv) == ("param", 1) and f.local_ty(1) == "u16" or (ps or "").endswith("header.id") or (ps or "").endswith(".id") or \
            (f.key == hd.key and A.peel(codec.untry(idv))[0] == "call" and A.peel(codec.untry(idv))[1] == CB + "next_u16") or (A.peel(idv)[0] == "upvar" and A.peel(idv)[1] == "id")
        ctx.check(ok, "C03.5", "error-id:%s@%s#%d" % (st["rv"]["variant"], A.short(f.key), n_err), "error payload is the message ID", "error %s carries %s" % (st["rv"]["variant"], A.show(idv)[:80]), f.loc(b, i))
    ctx.floor("C03.5", "ID-carrying error constructions", n_err, 10)
    # callers pass header.id / id down
    for callee in (WIRE_DN, DES + "<impl dns_types::protocol::types::Question>::deserialise", DES + "<impl dns_types::protocol::types::ResourceRecord>::deserialise",
                   DES + "<impl dns_types::protocol::types::RecordType>::deserialise", DES + "<impl dns_types::protocol::types::RecordClass>::deserialise",
                   DES + "<impl dns_types::protocol::types::QueryType>::deserialise", DES + "<impl dns_types::protocol::types::QueryClass>::deserialise"):
        for fn_, b, t in A.who_calls(prog, callee):
            r = A.Resolver(fn_)
            a0 = r.call_expr(t, b)[2][0]
            ps = A.path_str(a0, open_root=True) or ""
            ok = A.peel(a0) == ("param", 1) or ps.endswith("header.id") or ps.endswith(".id")
            ctx.check(ok, "C03.5", "id-passed:%s<-%s@%s" % (A.short(callee), A.short(fn_.key), fn_.loc(b).split(":")[-1]), "the ID is passed down unchanged", "callee gets id = %s" % A.show(a0)[:80], fn_.loc(b))
    hrm = prog.body_of("resolved::handle_raw_message")
    ctx.note("server side of the ID clause (err.id().map(make_format_error_response)) is decided under C09.1/C09.2")

    # ---------------------------------------------------------------- C03.6
    lim63 = lambda x: A.peel(x)[0] == "const" and (A.peel(x)[3] or {}).get("uneval") == T + "LABEL_MAX_LEN"
    lim255 = lambda x: A.peel(x)[0] == "const" and (A.peel(x)[3] or {}).get("uneval") == T + "DOMAINNAME_MAX_LEN"
    takes = A.call_blocks(wd, A.name_is(CB + "take"))
    ctx.floor("C03.6", "label body reads", len(takes), 1, exact=True)
    sizes = [b for b, t in A.call_blocks(wd, A.name_is(CB + "next_u8"))]
    for b, t in takes:
        e = wr.call_expr(t, b)
        ok, _ = wc.guarded(b, A.cmp_fact({"Le"}, lambda x: P.lin(x) == P.lin(e[2][1]), lim63))
        ctx.check(ok, "C03.6", "name:label<=63", "a label body is read only for a length octet <= LABEL_MAX_LEN", "labels longer than 63 octets are accepted", wd.loc(b))
    ptr_edges = wc.edges_where(lambda fc: fc[0] == "cmp" and fc[1] == "Ge" and A.peel(fc[3])[0] == "const" and A.peel(fc[3])[2] == 192)
    rec_blocks = [b for g, b, t, tgt in rec if g.key == WIRE_DN]
    ok = bool(ptr_edges) and all(rb not in wd.reachable(0, removed_edges=ptr_edges) for rb in rec_blocks)
    ctx.check(ok, "C03.6", "name:pointer>=192", "a pointer is followed only for a length octet >= 192 (top two bits set)", "octets below 192 can be taken as pointers", wd.loc())
    mid = wc.edges_where(lambda fc: fc[0] == "cmp" and fc[1] == "Lt" and A.peel(fc[3])[0] == "const" and A.peel(fc[3])[2] == 192)
    errs = {b: e for b, e in A.return_exprs(wd, wr)}
    ok = bool(mid) and all(any(bb in wd.reachable(s) and "DomainLabelInvalid" in A.show(e_) for bb, e_ in errs.items()) and not [x for x in wd.reachable(s) if x in rec_blocks or x in [tb for tb, _ in takes]] for a, s in mid)
    ctx.check(ok, "C03.6", "name:reserved-label-types", "64..191 (label types 01/10) are rejected", "reserved label types are not rejected", wd.loc())
    for b, i, st in A.aggregates(wd, T + "DomainName"):
        ok, _ = wc.guarded(b, A.cmp_fact({"Le"}, lambda x: True, lim255))
        ctx.check(ok, "C03.6", "name:<=255", "Ok(name) only if the accumulated length <= DOMAINNAME_MAX_LEN", "names over 255 octets are accepted", wd.loc(b, i))
    rrd = prog.fn(DES + "<impl dns_types::protocol::types::ResourceRecord>::deserialise")
    rr = A.Resolver(rrd)
    rc = A.Conds(rrd, rr)
    for b, i, st in A.aggregates(rrd, T + "ResourceRecord"):
        def rd_eq(fc):
            if fc[0] != "cmp" or fc[1] != "Eq":
                return False
            for x, y in ((fc[2], fc[3]), (fc[3], fc[2])):
                lx, ly = P.lin(x), P.lin(y)
                # stop == start + rdlength: both positions of the same buffer, rdlength = the u16 read
                if list(lx[0].values()) == [1] and len(ly[0]) == 2 and lx[1] == 0 and ly[1] == 0:
                    return True
            return False
        ok, edges = rc.guarded(b, rd_eq)
        ctx.check(ok, "C03.6", "rr:rdlength-exact", "Ok(record) only if position after RDATA == position before + RDLENGTH", "RDLENGTH is not checked against the bytes consumed", rrd.loc(b, i))
    # the three bookkeeping variables, found by their role in `stop == start + rdlength` (whatever they are called)
    window = None
    for b_, i_, st_ in rrd.assigns():
        rv = st_["rv"]
        if rv["k"] != "bin" or rv["op"] not in ("Eq", "Ne"):
            continue
        for xa, xb in ((rv["a"], rv["b"]), (rv["b"], rv["a"])):
            stop_l = A.root_local(rrd, xa)
            add = _add_operands(rrd, xb)
            if stop_l is not None and add is not None:
                start_l2, len_l = A.root_local(rrd, add[0]), A.root_local(rrd, add[1])
                if None not in (start_l2, len_l) and len({stop_l, start_l2, len_l}) == 3:
                    window = (start_l2, stop_l, len_l)
    ctx.check(window is not None, "C03.6", "rr:window-variables", "found the variables of `stop == start + rdlength`", "no `stop == start + rdlength` comparison over three variables in ResourceRecord::deserialise", rrd.loc())
    if window is not None:
        sl, el, ll = window
        sdef, edef, ldef = rrd.single_def(sl), rrd.single_def(el), rrd.single_def(ll)
        rdata_reads = [b for b, i, st in A.aggregates(rrd, codec.RTWD)]
        ok = sdef and edef and ldef and all(rrd.dominates(sdef[0], x) for x in rdata_reads) and all(edef[0] in rrd.reachable(x) for x in rdata_reads) \
            and A.path_str(rr.local(sl, (0, 0)), open_root=True).endswith("position") and A.path_str(rr.local(el, (0, 0)), open_root=True).endswith("position")
        lsrc = codec.untry(rr.local(ll, (0, 0))) if ok else ("?",)
        if lsrc[0] == "cast":
            lsrc = codec.untry(lsrc[1])
        if lsrc[0] == "call" and (lsrc[4] or lsrc[1]).endswith("From::from") and lsrc[2]:
            lsrc = codec.untry(lsrc[2][0])
        ok = ok and lsrc[0] == "call" and lsrc[1] == CB + "next_u16"
        ctx.check(bool(ok), "C03.6", "rr:rdata-window", "start/stop are the cursor before/after the RDATA region; rdlength is the u16 read before it", "RDATA window bookkeeping changed", rrd.loc())

    # ---------------------------------------------------------------- C03.7
    rd, tags, rfn = codec.reader_layout(prog)
    for v in sorted(codec.RFC_RDATA):
        ctx.check(rd.get(v) == codec.RFC_RDATA[v], "C03.7", "layout:" + v, "reads %s" % codec.RFC_RDATA[v], "reader layout of %s is %s, RFC says %s" % (v, rd.get(v), codec.RFC_RDATA[v]), rfn.loc())
    f = prog.fn("<%sRecordType as std::convert::From<u16>>::from" % T)
    tab = codec.int_to_enum_table(prog, f)
    ctx.check(tab is not None and {k: v[0] for k, v in tab[0].items()} == codec.RFC_TYPE_CODES, "C03.7", "type-codes", "type code table = RFC", "type codes differ from the RFC table", f.loc())
    from . import C04
    wmap, rmap, hs, hdf = C04.header_maps(prog)
    rfc = {"is_response": (1, 0x80, None), "opcode": (1, 0x78, 3), "is_authoritative": (1, 0x04, None), "is_truncated": (1, 0x02, None),
           "recursion_desired": (1, 0x01, None), "recursion_available": (2, 0x80, None), "rcode": (2, 0x0F, 0)}
    ctx.check({k: v for k, v in rmap.items() if k != "id"} == rfc, "C03.7", "header-bits", "header flag/field bit positions = RFC 1035 4.1.1", "header bits read: %s" % rmap, hdf.loc())


def _stays(f, body, s, header):
    """can control go from s back to the loop header without leaving the loop body?"""
    # variant-aware: a `None` turned into `Err(..)` and handed to `?` leaves through the Break edge only
    outside = [b for b in f.live_blocks() if b not in body]
    reach, edges = A.reachable_tagged(f, s, removed_blocks=outside, want_edges=True)
    return header in reach and any(y == header for x, y in edges)
