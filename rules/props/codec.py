"""Wire codec extraction shared by C03/C04: enum<->integer tables, reader/writer field layouts."""
from .. import analysis as A

T = "dns_types::protocol::types::"
SER = "dns_types::protocol::serialise::"
DES = "dns_types::protocol::deserialise::"
RTWD = T + "RecordTypeWithData"
WB = SER + "WritableBuffer::"
CB = DES + "ConsumableBuffer::<'a>::"

RFC_RDATA = {
    "A": [("addr4", "address")], "NS": [("name", "nsdname")], "MD": [("name", "madname")], "MF": [("name", "madname")],
    "CNAME": [("name", "cname")],
    "SOA": [("name", "mname"), ("name", "rname"), ("u32", "serial"), ("u32", "refresh"), ("u32", "retry"), ("u32", "expire"), ("u32", "minimum")],
    "MB": [("name", "madname")], "MG": [("name", "mdmname")], "MR": [("name", "newname")], "NULL": [("octets", "octets")],
    "WKS": [("octets", "octets")], "PTR": [("name", "ptrdname")], "HINFO": [("octets", "octets")],
    "MINFO": [("name", "rmailbx"), ("name", "emailbx")], "MX": [("u16", "preference"), ("name", "exchange")],
    "TXT": [("octets", "octets")], "AAAA": [("addr16", "address")],
    "SRV": [("u16", "priority"), ("u16", "weight"), ("u16", "port"), ("name", "target")], "Unknown": [("octets", "octets")],
}
RFC_TYPE_CODES = {1: "A", 2: "NS", 3: "MD", 4: "MF", 5: "CNAME", 6: "SOA", 7: "MB", 8: "MG", 9: "MR", 10: "NULL", 11: "WKS", 12: "PTR",
                  13: "HINFO", 14: "MINFO", 15: "MX", 16: "TXT", 28: "AAAA", 33: "SRV"}
RFC_QTYPE_CODES = {252: "AXFR", 253: "MAILB", 254: "MAILA", 255: "Wildcard"}
RFC_OPCODES = {0: "Standard", 1: "Inverse", 2: "Status"}
RFC_RCODES = {0: "NoError", 1: "FormatError", 2: "ServerFailure", 3: "NameError", 4: "NotImplemented", 5: "Refused"}
RFC_MASKS = {"HEADER_MASK_QR": 0x80, "HEADER_MASK_OPCODE": 0x78, "HEADER_OFFSET_OPCODE": 3, "HEADER_MASK_AA": 0x04, "HEADER_MASK_TC": 0x02,
             "HEADER_MASK_RD": 0x01, "HEADER_MASK_RA": 0x80, "HEADER_MASK_RCODE": 0x0F, "HEADER_OFFSET_RCODE": 0}


def untry(e):
    """strip `?`: (Try::branch(X) as Continue).0 -> X ; also Option::ok_or(X, _) -> X"""
    while True:
        e = A.peel_refs(e)
        if e[0] == "field" and e[2] == "0" and e[1][0] == "downcast" and e[1][2] == "Continue" and A.peel_refs(e[1][1])[0] == "call" \
                and (A.peel_refs(e[1][1])[4] or "").endswith("Try::branch"):
            e = A.peel_refs(e[1][1])[2][0]
        elif e[0] == "call" and e[1].endswith("Option::<T>::ok_or") and e[2]:
            e = e[2][0]
        elif e[0] == "field" and e[2] == "0" and e[1][0] == "downcast" and e[1][2] in ("Some", "Ok") and A.peel_refs(e[1][1])[0] == "call":
            e = A.peel_refs(e[1][1])          # the payload of a primitive's Some(..): what `.ok_or(e)?` normalises to
        else:
            return e


def int_to_enum_table(prog, fn):
    """for `impl From<uN> for Enum`: ({value: variant}, default (variant, payload expr), scrutinee expr)"""
    r = A.Resolver(fn)
    c = A.Conds(fn, r)
    table, default, scrut = {}, None, None
    for b, e in A.return_exprs(fn, r):
        pe = A.peel(e)
        facts = c.facts_on_all_paths(b)
        eqs = [fc for fc in facts if fc[0] == "inteq"]
        nes = [fc for fc in facts if fc[0] == "intne"]
        if pe[0] != "agg":
            return None
        if eqs:
            scrut = eqs[-1][1]
            table[eqs[-1][2]] = (pe[2], pe)
        elif nes:
            scrut = nes[-1][1]
            default = (pe[2], pe)
    return table, default, scrut


def enum_to_int_table(prog, fn):
    """for `impl From<Enum> for uN`: ({variant: value}, {variant: payload-expr} for non-constant arms)"""
    r = A.Resolver(fn)
    c = A.Conds(fn, r)
    table, other = {}, {}
    for b, e in A.return_exprs(fn, r):
        pe = A.peel(e)
        vs = [fc[1] for fc in c.facts_on_all_paths(b) if fc[0] == "is" and A.peel(fc[2]) == ("param", 1)]
        if not vs:
            continue
        if pe[0] == "const":
            table[vs[-1]] = pe[2]
        else:
            other[vs[-1]] = pe
    return table, other


def _arm_blocks(fn, conds, variant, scrut_pred):
    """blocks dominated by the edge on which `scrutinee is variant`."""
    edges = conds.edges_where(lambda fc: fc[0] == "is" and fc[1] == variant and scrut_pred(fc[2]))
    out = set()
    for a, s in edges:
        for b in fn.reachable(s):
            if fn.edge_dominates(a, s, b):
                out.add(b)
    return out, edges


def match_join(fn, switch_block):
    """the block where the arms of the match at `switch_block` meet again: the first block every live arm reaches."""
    succs = [s for s in fn.succs(switch_block) if fn.term(s) and fn.term(s)["k"] != "unreachable"]
    if not succs:
        return None
    common = None
    for s in succs:
        r = fn.reachable(s)
        if not any(fn.term(x) and fn.term(x)["k"] == "return" for x in r):
            continue                      # an arm that never returns normally (diverges) does not constrain the join
        common = set(r) if common is None else common & r
    if not common:
        return None
    for j in sorted(common):
        if common <= fn.reachable(j):
            return j
    return None


def arm_region(fn, conds, variant, scrut_pred):
    """(exclusive blocks, region blocks, edges): `exclusive` = dominated by the `is variant` edge (where an or-pattern
    alternative binds its fields); `region` = everything run for this variant up to where the match's arms meet
    (so the shared body of merged `A {x} | B {x} => ..` arms belongs to the region of both A and B)."""
    excl, edges = _arm_blocks(fn, conds, variant, scrut_pred)
    region = set()
    for a, s in edges:
        j = match_join(fn, a)
        stop = fn.reachable(j) if j is not None else set()
        region |= {b for b in fn.reachable(s) if b not in stop}
    return excl, region, edges


def arm_value(fn, res, e, excl):
    """the value of `e` inside one arm: a binding introduced by an or-pattern (`A {f: x} | B {g: x}`) is a
    multi-definition local; pick the definition made in this variant's exclusive blocks."""
    pe = A.peel(e)
    if pe[0] == "phi" and len(pe) > 2:
        mine = [d for d in fn.defs().get(pe[2], []) if d[0] in excl and d[2] != "partial"]
        if len(mine) == 1:
            return A.peel(res._def_expr(mine[0], 0))
    return pe


def _order(fn, blocks):
    return sorted(blocks, key=lambda b: sum(1 for x in blocks if x != b and fn.dominates(x, b)))


def writer_layout(prog):
    """{variant: [(kind, field)]} from ResourceRecord::serialise"""
    fn = prog.fn(SER + "<impl dns_types::protocol::types::ResourceRecord>::serialise")
    r = A.Resolver(fn)
    c = A.Conds(fn, r)
    out = {}
    variants = [v["name"] for v in prog.adt(RTWD)["variants"]]
    for v in variants:
        excl, blocks, edges = arm_region(fn, c, v, lambda x: A.path_str(x) == "param1.rtype_with_data")
        seq = []
        fld = lambda x: A.last_field(arm_value(fn, r, x, excl))
        for b in _order(fn, [b for b in blocks if fn.term(b)["k"] == "call"]):
            t = fn.term(b)
            n = t.get("resolved") or t.get("callee") or ""
            e = r.call_expr(t, b)
            if n == SER + "<impl dns_types::protocol::types::DomainName>::serialise":
                comp = A.peel(e[2][2])
                seq.append(("name" if comp[0] == "const" and comp[2] is False else "name(compressed)", fld(e[2][0])))
            elif n == WB + "write_u16":
                seq.append(("u16", fld(e[2][1])))
            elif n == WB + "write_u32":
                seq.append(("u32", fld(e[2][1])))
            elif n == WB + "write_u8":
                seq.append(("u8", fld(e[2][1])))
            elif n == WB + "write_octets":
                a = A.peel_until_call(e[2][1], "octets")
                if a[0] == "call" and a[1].endswith("Ipv4Addr::octets"):
                    seq.append(("addr4", fld(a[2][0])))
                elif a[0] == "call" and a[1].endswith("Ipv6Addr::octets"):
                    seq.append(("addr16", fld(a[2][0])))
                else:
                    seq.append(("octets", fld(e[2][1])))
        out[v] = seq
    return out, fn


def reader_layout(prog):
    """{variant: [(kind, field)]} from ResourceRecord::deserialise (order = order of the read calls)"""
    fn = prog.fn(DES + "<impl dns_types::protocol::types::ResourceRecord>::deserialise")
    r = A.Resolver(fn)
    out = {}
    tags = {}
    for b, i, st in A.aggregates(fn, RTWD):
        e = r.rvalue(st["rv"], (b, i))
        items = []
        for fname, fe in e[3]:
            x = untry(fe)
            kind = None
            site = None
            if x[0] == "call":
                n = x[1]
                site = x[3][1]
                if n == DES + "<impl dns_types::protocol::types::DomainName>::deserialise":
                    kind = "name"
                elif n == CB + "next_u16":
                    kind = "u16"
                elif n == CB + "next_u32":
                    kind = "u32"
                elif n == CB + "next_u8":
                    kind = "u8"
                elif "deserialise::{closure#0}" in n or n.endswith("FnMut::call_mut") or n.endswith("FnOnce::call_once"):
                    kind = "octets"
                elif n.endswith("From<u32>>::from") or (n.endswith("::from") and "Ipv4Addr" in (x[4] or "") + n):
                    inner = untry(x[2][0])
                    if inner[0] == "call" and inner[1] == CB + "next_u32":
                        kind, site = "addr4", inner[3][1]
                elif n.endswith("Ipv6Addr::new"):
                    inners = [untry(a) for a in x[2]]
                    if len(inners) == 8 and all(a[0] == "call" and a[1] == CB + "next_u16" for a in inners):
                        order = [a[3][1] for a in inners]
                        if all(fn.dominates(order[k], order[k + 1]) for k in range(7)):
                            kind, site = "addr16", order[0]
            if kind is None and fname == "tag":
                tags[e[2]] = fe
                continue
            items.append((kind or "?:" + A.show(x)[:60], fname, site))
        ok_order = all(items[k][2] is not None and items[k + 1][2] is not None and fn.dominates(items[k][2], items[k + 1][2]) for k in range(len(items) - 1))
        seq = [(k, f) for k, f, _ in sorted(items, key=lambda it: sum(1 for o in items if o[2] is not None and it[2] is not None and o[2] != it[2] and fn.dominates(o[2], it[2])))]
        out[e[2]] = seq
    return out, tags, fn
