"""C16 — domain names are always well-formed and compared case-insensitively."""
from .. import analysis as A
from ..analysis import Call, Path, PathEnds, Param, Konst

T = "dns_types::protocol::types::"
DN = T + "DomainName"
LB = T + "Label"
WIRE_DN = "dns_types::protocol::deserialise::<impl dns_types::protocol::types::DomainName>::deserialise"
SER_DOM = "dns_types::zones::serialise::<impl dns_types::zones::types::Zone>::serialise_domain"
TRYFROM = "<dns_types::protocol::types::Label as std::convert::TryFrom<&[u8]>>::try_from"


def konst(prog, e):
    e = A.peel(e)
    return e[2] if e[0] == "const" else None


def run(ctx):
    prog = ctx.prog
    ctx.rule("C16.1", "who may construct DomainName / Label (constructors only; the serialiser's relative name never escapes)")
    ctx.rule("C16.2", "no store to / &mut borrow of DomainName.labels or .len outside the constructors")
    ctx.rule("C16.3", "63 / 255 limits dominate construction; a label after an empty label and a missing root label are rejected")
    ctx.rule("C16.4", "the recorded length is built only from the label count and the label lengths (wire: +1 per length octet, + label, + pointed-to name)")
    ctx.rule("C16.5", "label bytes pass through to_ascii_lowercase; Eq/Hash/Ord of Label and DomainName are derived (byte-wise on lower-cased bytes)")
    ctx.rule("C16.8", "text reader: from_dotted_string gives up (None) only for the stated reasons - a label that cannot be built (too long), an empty label that is not the last, or from_labels rejecting the whole - never on a shortcut test of the text")
    ctx.rule("C16.9", "text writer: to_dotted_string writes every octet of every label as that one character (nothing is escaped or dropped at this layer), labels separated by dots")
    ctx.rule("C16.6", "is_subdomain_of = label-wise suffix (slice::ends_with)")
    ctx.decline("dotted-text round trip for all strings (value property)")

    # ---------------------------------------------------------------- C16.1
    dn_sites = A.who_constructs(prog, DN)
    where = sorted({x[0].key for x in dn_sites})
    allowed = sorted([WIRE_DN, DN + "::from_labels", DN + "::root_domain", SER_DOM])
    ctx.check(where == allowed, "C16.1", "who-constructs(DomainName)", "root_domain, from_labels, wire decoder, serialise_domain (transient)",
              "DomainName constructed in %s" % [w for w in where if w not in allowed])
    lb_sites = A.who_constructs(prog, LB)
    where = sorted({x[0].key for x in lb_sites})
    ctx.check(where == sorted([TRYFROM, LB + "::new"]), "C16.1", "who-constructs(Label)", "Label::new and TryFrom<&[u8]> only",
              "Label constructed in %s" % where)
    fld = {x["name"]: x["vis"] for x in prog.adt(LB)["variants"][0]["fields"]}
    ctx.check(fld.get("octets") not in (None, "pub"), "C16.1", "Label.octets:private", "Label.octets is private (%s)" % fld.get("octets"), "Label.octets is public")
    sd = prog.fn(SER_DOM)
    sdr = A.Resolver(sd)
    for fn, b, i, st in dn_sites:
        if fn.key != SER_DOM:
            continue
        l = st["dst"]["l"]
        uses = []
        for bb, t in sd.calls():
            for a in t["args"]:
                pl = A.op_place(a)
                if pl is not None and A.is_plain_local(pl):
                    root = pl["l"]
                    s2 = sd.single_def(root)
                    if s2 and s2[2] == "assign" and sd.blocks[s2[0]]["stmts"][s2[1]]["rv"].get("place") == {"l": l}:
                        uses.append(t.get("callee"))
                    if root == l:
                        uses.append(t.get("callee"))
        others = [bb for bb, ii, s3 in sd.assigns() if s3["rv"]["k"] == "use" and A.op_place(s3["rv"]["op"]) == {"l": l}]
        ok = uses == [DN + "::to_dotted_string"] and not others
        ctx.check(ok, "C16.1", "serialise_domain:transient", "the relative name is only the receiver of to_dotted_string", "the unvalidated relative DomainName is used by %s" % uses, fn.loc(b, i))

    # ---------------------------------------------------------------- C16.2
    ws = A.who_writes(prog, DN, "labels") + A.who_writes(prog, DN, "len")
    bad = sorted({w[0].key for w in ws if w[0].key not in (WIRE_DN, DN + "::from_labels")})
    ctx.check(not bad, "C16.2", "who-writes(DomainName.labels|len)", "fields mutated only inside the wire decoder (taking the pointed-to labels)",
              "DomainName fields mutated in %s" % bad)

    # ---------------------------------------------------------------- C16.3
    ctx.check(A.mir.const_val(prog.const(T + "LABEL_MAX_LEN")) == 63 and A.mir.const_val(prog.const(T + "DOMAINNAME_MAX_LEN")) == 255, "C16.3", "limits:values",
              "LABEL_MAX_LEN = 63, DOMAINNAME_MAX_LEN = 255", "limits are %s / %s" % (prog.const(T + "LABEL_MAX_LEN"), prog.const(T + "DOMAINNAME_MAX_LEN")))
    def is_const(name):
        return lambda e: A.peel(e)[0] == "const" and A.peel(e)[3] is not None and A.peel(e)[3].get("uneval") == T + name
    tf = prog.fn(TRYFROM)
    tfr = A.Resolver(tf)
    tfc = A.Conds(tf, tfr)
    for b, i, st in A.aggregates(tf, LB):
        ok, _ = tfc.guarded(b, A.cmp_fact({"Le"}, Call("len", Param(1)), is_const("LABEL_MAX_LEN")))
        ctx.check(ok, "C16.3", "Label::try_from:limit", "Label built only if len <= LABEL_MAX_LEN", "a label longer than 63 octets can be constructed", tf.loc(b, i))
        e = tfr.rvalue(st["rv"], (b, i))
        oct_ = dict(e[3])["octets"]
        # every way the octets can have been produced goes through the lower-casing (not just one alternative of a merge)
        po = A.peel(oct_)
        alts_ = po[1] if po[0] == "phi" else [oct_]
        okc = all(bool(A.calls_in(a_, lambda n: n.endswith("to_ascii_lowercase"))) and any(A.peel(x) == ("param", 1) for x in A.walk(a_)) for a_ in alts_)
        ctx.check(okc, "C16.5", "Label::try_from:lowercase", "octets = to_ascii_lowercase(input)", "label octets are %s" % A.show(oct_), tf.loc(b, i))
    # the wire decoder's strictness guards (label <= 63, reserved length octets rejected, name <= 255) are the C16 limits for
    # names built from the wire (C03.6, decided here as well)
    from ..core import RuleAlias
    if not isinstance(ctx, RuleAlias):
        from . import C03
        C03.run(RuleAlias(ctx, {"C03.6": "C16.3"}))
    # ---- C16.8
    fd = prog.fn(DN + "::from_dotted_string")
    fdr = A.Resolver(fd)
    fdc = A.Conds(fd, fdr)
    def label_failed(fc):
        if fc[0] != "is" or fc[1] not in ("Err", "None"):
            return False
        return any(x[0] == "call" and (x[1].endswith("TryInto<U>>::try_into") or x[1].endswith("try_from") or x[1].endswith("Result::<T, E>::ok")) for x in A.walk(fc[2]))
    def blank_chunk(fc):
        return fc[0] == "call" and fc[1].endswith("<impl str>::is_empty") and fc[3] is True
    n8 = 0
    for b, e in A.return_exprs(fd, fdr):
        pe = A.peel(e)
        if not (pe[0] == "agg" and pe[2] == "None"):
            continue
        n8 += 1
        okr, _ = fdc.guarded(b, lambda fc: label_failed(fc) or blank_chunk(fc))
        ctx.check(okr, "C16.8", "from_dotted_string:none#%d" % n8, "None only for an unbuildable label or an interior empty label",
                  "from_dotted_string can return None without a label having failed", fd.loc(b))
    ctx.floor("C16.8", "None returns of from_dotted_string", n8, 1)
    splits = [fdr.call_expr(t, b) for b, t in A.call_blocks(fd, A.name_endswith("<impl str>::split"))]
    ctx.check(len(splits) == 1 and A.peel(splits[0][2][0]) == ("param", 1), "C16.8", "from_dotted_string:split-as-given", "the labels are the dot-separated pieces of the text as given (nothing trimmed first)",
              "the text is split as %s" % [A.show(x[2][0])[:60] for x in splits], fd.loc())
    # ---- C16.9
    td = prog.fn(DN + "::to_dotted_string")
    tdr = A.Resolver(td)
    inner = sorted(td.loops(), key=lambda x: len(x[1]))[:1]          # the per-octet loop is the innermost one
    ok9 = bool(inner)
    if ok9:
        h9, body9 = inner[0]
        pushes9 = [(b, tdr.call_expr(td.term(b), b)) for b in body9 if td.term(b)["k"] == "call" and (td.term(b).get("callee") or "").endswith("String::push")]
        others9 = [b for b in body9 if td.term(b)["k"] == "call" and ((td.term(b).get("callee") or "").endswith("String::push_str") or "fmt" in (td.term(b).get("callee") or ""))]
        def is_elem_char(v):
            v = A.peel(v)
            return v[0] == "cast" and A.iter_elem_source(A.peel(v[1])) is not None or (v[0] == "cast" and any(A.iter_elem_source(x) is not None for x in A.walk(v[1])))
        ok9 = len(pushes9) == 1 and is_elem_char(pushes9[0][1][2][1]) and not others9 and not td.has_cycle(removed_blocks=[pushes9[0][0]], within=body9)
    ctx.check(ok9, "C16.9", "to_dotted_string:octets-verbatim", "each octet is pushed as `octet as char`, on every iteration, and nothing else is written per octet",
              "to_dotted_string does not write every octet verbatim", td.loc())
    ln = prog.fn(LB + "::new")
    lnr = A.Resolver(ln)
    for b, i, st in A.aggregates(ln, LB):
        e = lnr.rvalue(st["rv"], (b, i))
        ctx.check(bool(Call("Bytes::new")(dict(e[3])["octets"])), "C16.5", "Label::new:empty", "Label::new() is the empty label", "Label::new builds %s" % A.show(e), ln.loc(b, i))
    fl = prog.fn(DN + "::from_labels")
    flr = A.Resolver(fl)
    flc = A.Conds(fl, flr)
    # the two registers by role: the bool that is set when the empty (root) label is met, and the usize stored as `len`
    def _one(xs):
        xs = sorted(set(x for x in xs if x is not None))
        return xs[0] if len(xs) == 1 else None
    blank = _one(l for l in range(len(fl.locals)) if fl.local_ty(l) == "bool" and fl.locals[l].get("user")
                 and len([d for d in fl.defs().get(l, []) if d[2] != "partial"]) >= 2)
    ln_ = _one(A.root_local(fl, o) for b, i, st in A.aggregates(fl, DN) for fname, o in zip(st["rv"].get("fields", []), st["rv"].get("ops", [])) if fname == "len")
    ctx.check(blank is not None and ln_ is not None, "C16.3", "from_labels:variables", "found the root-label flag and the length accumulator", "from_labels lost its root-label flag / length accumulator", fl.loc())
    for b, i, st in A.aggregates(fl, DN):
        ok1, _ = flc.guarded(b, lambda fc: fc[0] == "ltruth" and fc[1] == blank and fc[2] is True)
        ok2, _ = flc.guarded(b, A.cmp_fact({"Le"}, lambda e: True, is_const("DOMAINNAME_MAX_LEN")))
        e = flr.rvalue(st["rv"], (b, i))
        d = dict(e[3])
        ok3 = A.peel(d["labels"]) == ("param", 1)
        ctx.check(ok1 and ok2 and ok3, "C16.3", "from_labels:guards", "Some(name) only if a root label was seen and len <= 255; labels = the input",
                  "from_labels can build a name without the root label / over 255 octets", fl.loc(b, i))
        # the compared length is the stored length
        lenv = d["len"]
        okl = any(fc[0] == "cmp" and A.same(fc[2], lenv) for fc in flc.facts_on_all_paths(b) if fc[0] == "cmp")
        ctx.check(okl, "C16.3", "from_labels:checked-len-is-stored-len", "the length compared with the limit is the length stored", "a different length is stored than was checked", fl.loc(b, i))
    # a label following an empty label is rejected: inside the loop, blank_label true => return None
    loops = fl.loops()
    ok = False
    for a, s in flc.edges_where(lambda fc: fc[0] == "ltruth" and fc[1] == blank and fc[2] is True):
        if any(a in body for _, body in loops):
            reach = fl.reachable(s)
            nones = [b for b, e in A.return_exprs(fl, flr) if b in reach and A.peel(e)[0] == "agg" and A.peel(e)[2] == "None"]
            somes = [b for b, e in A.return_exprs(fl, flr) if b in reach and A.peel(e)[0] == "agg" and A.peel(e)[2] == "Some"]
            if nones and not somes:
                ok = True
    ctx.check(ok, "C16.3", "from_labels:nothing-after-root", "a label after the empty label => None", "an empty label in the middle of a name is accepted", fl.loc())
    # blank_label is only ever OR-ed with label.is_empty()
    for d in fl.defs().get(blank, []):
        e = A.peel(flr._def_expr(d, 0))
        if e[0] == "const":
            ctx.check(e[2] is False, "C16.3", "from_labels:blank-init", "blank_label starts false", "blank_label starts as %s" % e[2], fl.loc(d[0]))
        else:
            ok = e[0] == "bin" and e[1] == "BitOr" and bool(Call("Label::is_empty", Path("param1.[]"))(e[3]) or Call("Label::is_empty", Path("param1.[]"))(e[2]))
            ctx.check(ok, "C16.3", "from_labels:blank-update", "blank_label |= label.is_empty()", "blank_label updated as %s" % A.show(e), fl.loc(d[0]))
    empties = flc.edges_where(lambda fc: fc[0] == "call" and A.is_empty_name(fc[1]) and fc[3] is True and A.peel(fc[2][0]) == ("param", 1))
    ok = bool(empties) and all(not [b for b, e in A.return_exprs(fl, flr) if b in fl.reachable(s) and A.peel(e)[2] == "Some"] for a, s in empties)
    ctx.check(ok, "C16.3", "from_labels:empty-input", "no labels => None", "an empty label list yields a name", fl.loc())

    # ---------------------------------------------------------------- C16.4
    if ln_ is not None:
        kinds_fl = set()
        for d in fl.defs().get(ln_, []):
            e = A.peel(flr._def_expr(d, 0))
            kinds_fl.add("init" if e[0] == "call" else "step")
            if e[0] == "call":
                ctx.check(bool(Call("Vec::<T, A>::len", Param(1))(e)), "C16.4", "from_labels:len-init", "len starts as labels.len() (one length octet per label)",
                          "len initialised as %s" % A.show(e), fl.loc(d[0]))
            else:
                inner = A.peel(e[1]) if e[0] == "field" else e
                ok = inner[0] == "bin" and inner[1].startswith("Add") and A.peel(inner[3])[0] == "cast" and \
                    bool(Call("Label::len", Path("param1.[]"))(A.peel(inner[3])[1]))
                ctx.check(ok, "C16.4", "from_labels:len-step", "len += label.len() for each label of the input", "len updated as %s" % A.show(e)[:120], fl.loc(d[0]))
        ctx.check(kinds_fl == {"init", "step"}, "C16.4", "from_labels:len-accumulates", "len = number of labels + the sum of their lengths (both parts present)",
                  "the length of a name built from labels is computed from %s only" % sorted(kinds_fl), fl.loc())
    wd = prog.fn(WIRE_DN)
    wr = A.Resolver(wd)
    wc = A.Conds(wd, wr)
    wl = None
    for b_, i_, st_ in A.aggregates(wd, DN):
        for fname, o in zip(st_["rv"].get("fields", []), st_["rv"].get("ops", [])):
            if fname == "len":
                wl = A.root_local(wd, o)       # the accumulator stored as the name's `len`, whatever it is called
    kinds = set()
    if wl is not None:
        for d in wd.defs().get(wl, []):
            e = A.peel(wr._def_expr(d, 0))
            if e[0] == "const":
                ctx.check(e[2] == 0, "C16.4", "wire:len-init", "len starts at 0", "len starts at %s" % e[2], wd.loc(d[0]))
                continue
            inner = A.peel(e[1]) if e[0] == "field" else e
            inc = A.peel(inner[3]) if inner[0] == "bin" and inner[1].startswith("Add") else None
            kind = None
            if inc is not None:
                if inc[0] == "const" and inc[2] == 1:
                    kind = "length-octet"
                elif (inc[0] == "cast" and bool(Call("Label::len")(inc[1]))) or bool(Call("Label::len")(inc)):   # `as usize` or usize::from(..)
                    kind = "label"
                elif A.last_field(inc) == "len" and any(x[0] == "call" and x[1] == WIRE_DN for x in A.walk(inc)):
                    kind = "pointed-name"
            kinds.add(kind)
            ctx.check(kind is not None, "C16.4", "wire:len-step:%s" % kind, "len += %s" % kind, "len updated as %s" % A.show(e)[:120], wd.loc(d[0]))
    # "pointed-name" exists only while pointers are followed by a recursive call; a loop that reads the pointed-to labels itself needs none
    ctx.check({"length-octet", "label"} <= kinds <= {"length-octet", "label", "pointed-name"}, "C16.4", "wire:len-steps", "len grows by 1 per length octet and by the label length per label (plus the pointed-to name's len if it is decoded by a nested call)", "len increments: %s" % sorted(map(str, kinds)), wd.loc())
    for b, i, st in A.aggregates(wd, DN):
        ok, _ = wc.guarded(b, A.cmp_fact({"Le"}, lambda e: True, is_const("DOMAINNAME_MAX_LEN")))
        e = wr.rvalue(st["rv"], (b, i))
        ctx.check(ok, "C16.3", "wire:limit", "Ok(DomainName) only if len <= DOMAINNAME_MAX_LEN", "the wire decoder can build a name over 255 octets", wd.loc(b, i))
    # labels on the wire path come from Label::try_from / Label::new / the pointed-to name
    pushes = A.call_blocks(wd, A.name_endswith("Vec::<T, A>::push"))
    for n, (b, t) in enumerate(pushes):
        e = wr.call_expr(t, b)
        v = A.peel(e[2][1])
        ok = (v[0] == "call" and (v[1] == LB + "::new" or v[1].endswith("::unwrap") and bool(A.calls_in(v, lambda n_: n_.endswith("TryFrom>::try_from") or n_ == TRYFROM))))
        ctx.check(ok, "C16.4", "wire:label-source#%d" % n, "labels come from Label::new() / Label::try_from(..)", "a label is pushed from %s" % A.show(v), wd.loc(b))
    # the wire form ends a name with the zero-length label, and only with it: (1) a label read from the wire is pushed
    # only when its length octet is not 0, the empty label only when it is 0; (2) the decoding loop is left either right
    # after the root label, or because the length already exceeds the limit (the final test then fails), or to an error
    wloops = [(h_, bd_) for h_, bd_ in wd.loops() if any(wd.term(x)["k"] == "call" and (wd.term(x).get("callee") or "").endswith("next_u8") for x in bd_)]
    ctx.check(len(wloops) == 1, "C16.3", "wire:decode-loop", "one label loop in the wire decoder", "%d label loops" % len(wloops), wd.loc())
    root_pushes, body_pushes = [], []
    for b, t in pushes:
        v = A.peel(wr.call_expr(t, b)[2][1])
        (root_pushes if v[0] == "call" and v[1] == LB + "::new" else body_pushes).append(b)
    def size_is(fc, zero):
        """fact about the length octet read by next_u8: == 0 / != 0"""
        def is_size(x):
            return any(y[0] == "call" and y[1].endswith("next_u8") for y in A.walk(x))
        if fc[0] in ("inteq", "intne") and fc[2] == 0 and is_size(fc[1]):
            return (fc[0] == "inteq") == zero
        if fc[0] == "cmp":
            for op, x, y in ((fc[1], fc[2], fc[3]), (A.SWAP[fc[1]], fc[3], fc[2])):
                py = A.peel(y)
                if is_size(x) and py[0] == "const" and py[2] == 0:
                    return (op == "Eq") if zero else (op in ("Ne", "Gt"))
        return False
    for b in root_pushes:
        ctx.check(wc.guarded(b, lambda fc: size_is(fc, True))[0], "C16.3", "wire:root-iff-zero", "the empty label is pushed only for a zero length octet",
                  "the root label is recognised by something other than a zero length octet", wd.loc(b))
    for n, b in enumerate(body_pushes):
        ctx.check(wc.guarded(b, lambda fc: size_is(fc, False))[0], "C16.3", "wire:label-nonempty#%d" % n, "a label read from the wire is pushed only when its length octet is not 0",
                  "a zero-length label can be pushed in the middle of a name (the name does not end there)", wd.loc(b))
    ctx.check(bool(root_pushes) and bool(body_pushes), "C16.3", "wire:label-pushes", "found the root push and the label push", "label pushes not found", wd.loc())
    if len(wloops) == 1:
        h_, bd_ = wloops[0]
        oks_ = [b for b, e in A.return_exprs(wd, wr) if A.peel(e)[0] == "agg" and A.peel(e)[2] == "Ok"]
        def too_long(fc):
            if fc[0] != "cmp":
                return False
            for op, x, y in ((fc[1], fc[2], fc[3]), (A.SWAP[fc[1]], fc[3], fc[2])):
                if op == "Gt" and is_const("DOMAINNAME_MAX_LEN")(y):
                    return True
            return False
        n_exit = 0
        for a in sorted(bd_):
            for s_ in wd.succs(a):
                if s_ in bd_ or wd.term(s_)["k"] == "unreachable":
                    continue
                n_exit += 1
                after_root = any(a == rb or (wd.dominates(rb, a) and a in wd.reachable(rb, removed_blocks=[h_])) for rb in root_pushes) \
                    or not any(ob in wd.reachable(s_, removed_blocks=root_pushes) for ob in oks_)      # ... or the root label is pushed on the way out
                long_ = any(too_long(fc) for fc in wc.edge_facts(a, s_)) or wc.guarded(a, too_long)[0] and not after_root and False
                err_only = not any(ob in A.reachable_tagged(wd, s_) for ob in oks_)
                ctx.check(after_root or long_ or err_only, "C16.3", "wire:loop-exit#%d" % n_exit, "the loop is left after the root label, on overflow of the length limit, or to an error",
                          "the label loop can be left before the root label was read and still produce a name", wd.loc(a))
        ctx.floor("C16.3", "exits of the label loop", n_exit, 2)
    rd = prog.fn(DN + "::root_domain")
    rdr = A.Resolver(rd)
    for b, i, st in A.aggregates(rd, DN):
        e = rdr.rvalue(st["rv"], (b, i))
        d = dict(e[3])
        lab = A.peel(d["labels"])
        ok = konst(prog, d["len"]) == 1 and lab[0] == "call" and lab[1] == "vec!" and len(lab[2][0][1]) == 1 and bool(Call("Label::new")(lab[2][0][1][0]))
        ctx.check(ok, "C16.4", "root_domain", "root = one empty label, len 1", "root_domain builds %s" % A.show(e), rd.loc(b, i))

    # ---------------------------------------------------------------- C16.5
    need = ["std::cmp::PartialEq", "std::cmp::Eq", "std::hash::Hash", "std::cmp::Ord", "std::cmp::PartialOrd"]
    for ty in (LB, DN):
        for tr in need:
            im = [i for i in prog.impls if i["self"] == ty and i["trait"] == tr]
            ctx.check(len(im) == 1 and im[0]["derived"], "C16.5", "derived:%s:%s" % (A.short(ty), tr.rsplit("::", 1)[-1]), "single derived impl",
                      "%s for %s is %s" % (tr, ty, "hand-written" if im and not im[0]["derived"] else "missing/duplicated"))
    flds = [x["name"] for x in prog.adt(DN)["variants"][0]["fields"]]
    ctx.check(flds == ["labels", "len"], "C16.5", "DomainName:fields", "DomainName = {labels, len}: derived comparison is label-wise", "DomainName fields: %s" % flds)
    # ---------------------------------------------------------------- C16.6
    sub = prog.fn(DN + "::is_subdomain_of")
    sr = A.Resolver(sub)
    for b, e in A.return_exprs(sub, sr):
        ok = bool(Call("ends_with", Path("param1.labels"), Path("param2.labels"))(e))
        ctx.check(ok, "C16.6", "is_subdomain_of", "self.labels.ends_with(&other.labels)", "is_subdomain_of returns %s" % A.show(e), sub.loc(b))
