"""C04 — encoding then decoding a message returns the same message (structural clauses)."""
from .. import analysis as A
from .. import panics as P
from ..analysis import Call, Path, Param, Konst
from . import codec
from .codec import T, SER, DES, WB, CB

IMPL = lambda mod, ty, m: "%s<impl dns_types::protocol::types::%s>::%s" % (mod, ty, m)


def enum_tables(ctx, rule):
    """C04.1: the six integer<->enum tables are mutually inverse and match RFC 1035/3596/2782."""
    prog = ctx.prog
    specs = [("Opcode", "u8", codec.RFC_OPCODES, "Reserved", 15), ("Rcode", "u8", codec.RFC_RCODES, "Reserved", 15),
             ("RecordType", "u16", codec.RFC_TYPE_CODES, "Unknown", None), ("RecordClass", "u16", {1: "IN"}, "Unknown", None),
             ("QueryType", "u16", codec.RFC_QTYPE_CODES, "Record", None), ("QueryClass", "u16", {255: "Wildcard"}, "Record", None)]
    for ty, ity, rfc, catch, mask in specs:
        f = prog.fn("<%s%s as std::convert::From<%s>>::from" % (T, ty, ity))
        g = prog.fn("%s<impl std::convert::From<%s%s> for %s>::from" % (T, T, ty, ity))
        fwd = codec.int_to_enum_table(prog, f)
        bwd = codec.enum_to_int_table(prog, g)
        if fwd is None:
            ctx.bad(rule, "%s:from-int" % ty, "From<%s> for %s is not a constant match (unrecognised idiom)" % (ity, ty), f.loc())
            continue
        table, default, scrut = fwd
        got = {k: v[0] for k, v in table.items()}
        ctx.check(got == rfc, rule, "%s:codes" % ty, "%s code table = RFC (%d entries)" % (ty, len(rfc)), "%s decodes %s, RFC says %s" % (ty, got, rfc), f.loc())
        btab, bother = bwd
        inv = {v: k for k, v in btab.items()}
        ctx.check(inv == got, rule, "%s:inverse" % ty, "encoder table is the inverse of the decoder table", "%s encodes %s but decodes %s" % (ty, btab, got), g.loc())
        # scrutinee: the parameter (masked to 4 bits for the u8 pair)
        ps = A.peel(scrut) if scrut is not None else ("?",)
        if mask is None:
            ok = ps == ("param", 1)
        else:
            ok = ps[0] == "bin" and ps[1] == "BitAnd" and A.peel(ps[2]) == ("param", 1) and A.peel(ps[3])[2] == mask
        ctx.check(ok, rule, "%s:scrutinee" % ty, "matches on the %s" % ("input value" if mask is None else "input & 0x0F"), "%s matches on %s" % (ty, A.show(scrut) if scrut else "?"), f.loc())
        # catch-all wraps the value that was matched on / delegates; reverse arm returns it
        okc = default is not None and default[0] == catch
        payload = A.peel_refs(dict(default[1][3])["0"]) if okc else None
        if okc and catch in ("Reserved", "Unknown"):
            inner = A.peel(dict(payload[3])["0"]) if payload[0] == "agg" else None
            okc = inner is not None and A.strip_refs(inner) == A.strip_refs(scrut) and payload[1] == T + ty + catch
            rb = bother.get(catch)
            okr = rb is not None and A.path_str(rb) == "param1.<%s>.0.0" % catch
        elif okc:
            sub = {"QueryType": "RecordType", "QueryClass": "RecordClass"}[ty]
            okc = payload[0] == "call" and payload[1] == "<%s%s as std::convert::From<u16>>::from" % (T, sub) and A.peel(payload[2][0]) == ("param", 1)
            rb = bother.get(catch)
            okr = rb is not None and A.path_str(rb) == "param1.<Record>.0"  # `rtype.into()`: the inner type's own encoder
        else:
            okr = False
        ctx.check(okc and okr, rule, "%s:catch-all" % ty, "unlisted values are carried through unchanged in both directions",
                  "%s does not round-trip unlisted values (%s / %s)" % (ty, A.show(default[1]) if default else "?", {k: A.show(v) for k, v in bother.items()}), f.loc())
        vs = [v["name"] for v in prog.adt(T + ty)["variants"]]
        ctx.check(sorted(vs) == sorted(list(rfc.values()) + [catch]), rule, "%s:exhaustive" % ty, "every variant has a code", "%s variants %s vs table %s" % (ty, vs, sorted(rfc.values())), f.loc())
    # the private wrappers are only built in those catch-all arms
    for w, ty in (("OpcodeReserved", "Opcode"), ("RcodeReserved", "Rcode"), ("RecordTypeUnknown", "RecordType"), ("RecordClassUnknown", "RecordClass")):
        sites = sorted({x[0].key for x in A.who_constructs(prog, T + w)})
        ok = sites == ["<%s%s as std::convert::From<%s>>::from" % (T, ty, "u8" if "code" in w.lower() and ty in ("Opcode", "Rcode") else "u16")]
        fld = prog.adt(T + w)["variants"][0]["fields"][0]
        ctx.check(ok and fld["vis"] != "pub", rule, "who-constructs(%s)" % w, "only the decoder's catch-all arm; field private", "%s built in %s (vis %s)" % (w, sites, fld["vis"]))
    # the special query codes do not collide with record types
    ctx.check(not (set(codec.RFC_QTYPE_CODES) & set(codec.RFC_TYPE_CODES)), rule, "QueryType:disjoint", "252-255 are not record types", "code collision")
    # RecordTypeWithData::rtype: variant k -> RecordType k
    rt = prog.fn(T + "RecordTypeWithData::rtype")
    rr = A.Resolver(rt)
    rc = A.Conds(rt, rr)
    m = {}
    for b, e in A.return_exprs(rt, rr):
        vs = [fc[1] for fc in rc.facts_on_all_paths(b) if fc[0] == "is" and A.peel(fc[2]) == ("param", 1)]
        pe = A.peel(e)
        if vs and pe[0] == "agg":
            m[vs[-1]] = (pe[2], A.path_str(dict(pe[3])["0"]) if pe[2] == "Unknown" else None)
    vs = [v["name"] for v in prog.adt(codec.RTWD)["variants"]]
    ok = all(m.get(v) == (v, "param1.<Unknown>.tag" if v == "Unknown" else None) for v in vs)
    ctx.check(ok, rule, "RecordTypeWithData::rtype", "variant k carries type k; Unknown carries its tag", "rtype() table: %s" % m, rt.loc())


def header_maps(prog):
    """(writer map, reader map): field -> (octet#, mask, shift)"""
    hs = prog.fn(IMPL(SER, "Header", "serialise"))
    r = A.Resolver(hs)
    c = A.Conds(hs, r)
    writes = [(b, r.call_expr(t, b)) for b, t in A.call_blocks(hs, A.name_is(WB + "write_u8"))]
    writes.sort(key=lambda x: sum(1 for y in writes if hs.dominates(y[0], x[0])))
    wmap = {}
    for octet, (b, e) in enumerate(writes, 1):
        stack = [e[2][1]]
        while stack:
            x = A.peel(stack.pop())
            if x[0] == "bin" and x[1] == "BitOr":
                stack += [x[2], x[3]]
            elif x[0] == "phi" and len(x) > 2:
                l = x[2]
                field, mask = None, None
                for d in hs.defs().get(l, []):
                    v = A.peel(r._def_expr(d, 0))
                    if v[0] == "const" and v[2] not in (0, None):
                        mask = v[2]
                        fs = [A.last_field(fc[1]) for fc in c.facts_on_all_paths(d[0]) if fc[0] == "truth" and fc[2] is True and (A.path_str(fc[1]) or "").startswith("param1.")]
                        # the bit is set when that one flag is set - under no further condition on the header
                        field = fs[0] if len(fs) == 1 else ("?" + "&".join(str(x) for x in fs) if fs else None)
                    elif v[0] == "const" and v[2] == 0:
                        pass
                wmap[field] = (octet, mask, None)
            elif x[0] == "bin" and x[1] == "BitAnd":
                mask = A.peel(x[2])[2] if A.peel(x[2])[0] == "const" else A.peel(x[3])[2]
                sh = A.peel(x[3]) if A.peel(x[2])[0] == "const" else A.peel(x[2])
                if sh[0] == "bin" and sh[1] == "Shl":
                    fld = A.last_field(sh[2])
                    conv = bool(A.calls_in(sh[2], lambda n: n.endswith("for u8>::from") or n.endswith("Into<U>>::into")))
                    wmap[fld if conv else None] = (octet, mask, A.peel(sh[3])[2])
            else:
                wmap["?" + A.show(x)[:40]] = (octet, None, None)
    hd = prog.fn(IMPL(DES, "Header", "deserialise"))
    dr = A.Resolver(hd)
    u8s = [b for b, t in A.call_blocks(hd, A.name_is(CB + "next_u8"))]
    u8s.sort(key=lambda x: sum(1 for y in u8s if hd.dominates(y, x)))
    rmap = {}
    for b, i, st in A.aggregates(hd, T + "Header"):
        e = dr.rvalue(st["rv"], (b, i))
        for k, v in e[3]:
            x = A.peel_refs(v)
            if k == "id":
                src = codec.untry(x)
                rmap[k] = ("u16", src[3][1] if src[0] == "call" and src[1] == CB + "next_u16" else None)
                continue
            shift = None
            if x[0] == "call" and x[1].endswith("From<u8>>::from"):
                x = A.peel_refs(x[2][0])
                if x[0] == "bin" and x[1] == "Shr":
                    shift = A.peel(x[3])[2]
                    x = A.peel_refs(x[2])
            elif x[0] == "bin" and x[1] == "Ne" and A.peel(x[3])[2] == 0:
                x = A.peel_refs(x[2])
            if x[0] == "bin" and x[1] == "BitAnd":
                src = codec.untry(x[2])
                mask = A.peel(x[3])[2]
                octet = u8s.index(src[3][1]) + 1 if src[0] == "call" and src[1] == CB + "next_u8" and src[3][1] in u8s else None
                rmap[k] = (octet, mask, shift)
            else:
                rmap[k] = ("?", A.show(v)[:60], None)
    return wmap, rmap, hs, hd


def run(ctx):
    prog = ctx.prog
    ctx.rule("C04.1", "the six integer<->enum tables are mutually inverse, match the RFC code points and carry unlisted values through")
    ctx.rule("C04.2", "reader and writer agree field by field: per RDATA variant, header, question, RR prefix (and with the RFC layout table)")
    ctx.rule("C04.3", "header masks/offsets equal RFC 1035 4.1.1; the writer ORs exactly the bits the reader tests for the same field")
    ctx.rule("C04.4", "RDLENGTH is back-patched with (bytes written after the placeholder) through usize_to_u16, big-endian, error propagated")
    ctx.rule("C04.5", "a compression pointer is only recorded for offsets < 2^14")
    ctx.rule("C04.6", "name_pointers is written only by memoise_name, called before the name's labels are written; a pointer ends the name")
    ctx.rule("C04.8", "encoder-side constructors and the decoder agree on the name length limit (len <= DOMAINNAME_MAX_LEN)")
    ctx.rule("C04.7", "section counts go through usize_to_u16 and its error is propagated, not truncated")
    ctx.decline("equality decode(encode(m)) == m for every message value; agreement with an independent decoder")

    enum_tables(ctx, "C04.1")

    # ---------------------------------------------------------------- C04.2
    w, wfn = codec.writer_layout(prog)
    rd, tags, rfn = codec.reader_layout(prog)
    ctx.floor("C04.2", "RDATA variants with a writer arm", len([v for v in w if w[v]]), 19, exact=True)
    for v in sorted(codec.RFC_RDATA):
        ok = w.get(v) == rd.get(v) == codec.RFC_RDATA[v]
        ctx.check(ok, "C04.2", "rdata:" + v, "writer = reader = RFC: %s" % codec.RFC_RDATA[v],
                  "RDATA layout of %s: writer %s, reader %s, RFC %s" % (v, w.get(v), rd.get(v), codec.RFC_RDATA[v]), wfn.loc())
    tg = tags.get("Unknown")
    ctx.check(tg is not None and A.show(tg).endswith("as Unknown).0") and "RecordType>::deserialise" in A.show(tg), "C04.2", "rdata:Unknown:tag",
              "Unknown keeps the type code that was read", "Unknown tag is %s" % (A.show(tg) if tg else "?"), rfn.loc())
    # the reader's arm is selected by the type that was read; the writer emits rtype() of the data
    rr_ = A.Resolver(rfn)
    rc_ = A.Conds(rfn, rr_)
    for b, i, st in A.aggregates(rfn, codec.RTWD):
        v = st["rv"]["variant"]
        vs = [fc[1] for fc in rc_.facts_on_all_paths(b) if fc[0] == "is" and "RecordType>::deserialise" in A.show(fc[2])]
        ctx.check(vs[-1:] == [v], "C04.2", "reader:arm:" + v, "type code %s selects the %s layout" % (v, v), "reader builds %s in the arm for type %s" % (v, vs), rfn.loc(b, i))
    wr = A.Resolver(wfn)
    def seq_calls(fn, res, names):
        out = []
        for b, t in fn.calls():
            n = t.get("resolved") or t.get("callee") or ""
            if n in names:
                out.append((b, n, res.call_expr(t, b)))
        out.sort(key=lambda x: sum(1 for y in out if y[0] != x[0] and fn.dominates(y[0], x[0])))
        return out
    pre_w = seq_calls(wfn, wr, {IMPL(SER, "DomainName", "serialise"), IMPL(SER, "RecordType", "serialise"), IMPL(SER, "RecordClass", "serialise"), WB + "write_u32", WB + "write_u16", WB + "index"})
    arms = set().union(*[codec._arm_blocks(wfn, A.Conds(wfn, wr), v, lambda x: A.path_str(x) == "param1.rtype_with_data")[0] for v in codec.RFC_RDATA])
    pre = [(n.rsplit("::", 1)[-1] if "WritableBuffer" in n else n.split("types::")[-1].split(">")[0], A.path_str(e[2][0]) if "impl" in n else A.path_str(e[2][1]) if len(e[2]) > 1 else None, e)
           for b, n, e in pre_w if b not in arms]
    want_w = [("DomainName", "param1.name"), ("RecordType", None), ("RecordClass", "param1.rclass"), ("write_u32", "param1.ttl"), ("index", None), ("write_u16", None)]
    got_w = [(a, b_) for a, b_, _ in pre[:6]]
    ok = [g[0] for g in got_w] == [x[0] for x in want_w] and got_w[0][1] == "param1.name" and got_w[2][1] == "param1.rclass" and got_w[3][1] == "param1.ttl"
    ok = ok and bool(Call("RecordTypeWithData::rtype", Path("param1.rtype_with_data"))(pre[1][2][2][0])) and A.peel(pre[0][2][2][2])[2] is True
    ctx.check(ok, "C04.2", "rr-prefix:writer", "NAME(compressed) TYPE=rtype() CLASS TTL RDLENGTH-placeholder", "RR prefix written as %s" % got_w, wfn.loc())
    pre_r = seq_calls(rfn, rr_, {IMPL(DES, "DomainName", "deserialise"), IMPL(DES, "RecordType", "deserialise"), IMPL(DES, "RecordClass", "deserialise"), CB + "next_u32", CB + "next_u16"})
    got_r = [n.split("::")[-1] if "ConsumableBuffer" in n else n.split("types::")[-1].split(">")[0] for b, n, e in pre_r[:5]]
    ctx.check(got_r == ["DomainName", "RecordType", "RecordClass", "next_u32", "next_u16"], "C04.2", "rr-prefix:reader", "NAME TYPE CLASS TTL(u32) RDLENGTH(u16)",
              "RR prefix read as %s" % got_r, rfn.loc())
    for b, i, st in A.aggregates(rfn, T + "ResourceRecord"):
        d = dict(rr_.rvalue(st["rv"], (b, i))[3])
        srcs = {k: codec.untry(v) for k, v in d.items()}
        ok = srcs["name"][0] == "call" and srcs["name"][3][1] == pre_r[0][0] and srcs["rclass"][0] == "call" and srcs["rclass"][3][1] == pre_r[2][0] \
            and srcs["ttl"][0] == "call" and srcs["ttl"][3][1] == pre_r[3][0]
        ctx.check(ok, "C04.2", "rr-prefix:reader-fields", "name/class/ttl fields take the 1st/3rd/4th value read", "record fields are assigned from other reads", rfn.loc(b, i))
    # question
    qs = prog.fn(IMPL(SER, "Question", "serialise"))
    qsr = A.Resolver(qs)
    sq = [(n.split("types::")[-1].split(">")[0], A.path_str(e[2][0])) for b, n, e in seq_calls(qs, qsr, {IMPL(SER, "DomainName", "serialise"), IMPL(SER, "QueryType", "serialise"), IMPL(SER, "QueryClass", "serialise")})]
    ctx.check(sq == [("DomainName", "param1.name"), ("QueryType", "param1.qtype"), ("QueryClass", "param1.qclass")], "C04.2", "question:writer", "QNAME QTYPE QCLASS", "question written as %s" % sq, qs.loc())
    qd = prog.fn(IMPL(DES, "Question", "deserialise"))
    qdr = A.Resolver(qd)
    sqr = seq_calls(qd, qdr, {IMPL(DES, "DomainName", "deserialise"), IMPL(DES, "QueryType", "deserialise"), IMPL(DES, "QueryClass", "deserialise")})
    okq = [n.split("types::")[-1].split(">")[0] for b, n, e in sqr] == ["DomainName", "QueryType", "QueryClass"]
    for b, i, st in A.aggregates(qd, T + "Question"):
        d = {k: codec.untry(v) for k, v in qdr.rvalue(st["rv"], (b, i))[3]}
        okq = okq and [d[k][3][1] for k in ("name", "qtype", "qclass")] == [x[0] for x in sqr]
    ctx.check(okq, "C04.2", "question:reader", "QNAME QTYPE QCLASS assigned in that order", "question read in another order", qd.loc())
    for ty in ("QueryType", "QueryClass", "RecordType", "RecordClass"):
        sf = prog.fn(IMPL(SER, ty, "serialise"))
        sfr = A.Resolver(sf)
        ws = [sfr.call_expr(t, b) for b, t in A.call_blocks(sf, A.name_is(WB + "write_u16"))]
        okw = len(ws) == 1 and A.peel(ws[0][2][1]) == ("param", 1) and "for u16>::from" in A.show(ws[0][2][1]) or (len(ws) == 1 and bool(A.calls_in(ws[0][2][1], lambda n: n.endswith("for u16>::from") or n.endswith("Into<U>>::into"))))
        df = prog.fn(IMPL(DES, ty, "deserialise"))
        dfr = A.Resolver(df)
        rets = [A.peel_refs(e) for b, e in A.return_exprs(df, dfr) if A.peel(e)[0] == "agg" and A.peel(e)[2] == "Ok"]
        okr = len(rets) == 1
        if okr:
            v = A.peel_refs(dict(rets[0][3])["0"])
            okr = v[0] == "call" and v[1] == "<%s%s as std::convert::From<u16>>::from" % (T, ty) and codec.untry(v[2][0])[1] == CB + "next_u16"
        ctx.check(okw and okr, "C04.2", "u16-code:" + ty, "written as u16::from(self), read as %s::from(next_u16)" % ty, "%s code is not a plain big-endian u16 both ways" % ty, sf.loc())
    # primitives are big-endian on both sides
    for nm, width in (("next_u16", 2), ("next_u32", 4)):
        pf = prog.fn(CB + nm)
        pr = A.Resolver(pf)
        rets = [A.peel(e) for b, e in A.return_exprs(pf, pr) if A.peel(e)[0] == "agg" and A.peel(e)[2] == "Some"]
        ok = len(rets) == 1
        if ok:
            v = A.peel(dict(rets[0][3])["0"])
            ok = v[0] == "call" and v[1].endswith("::from_be_bytes") and A.peel(v[2][0])[0] == "array" and len(A.peel(v[2][0])[1]) == width
            if ok:
                idx = []
                for el in A.peel(v[2][0])[1]:
                    el = A.peel(el)
                    off = None
                    if el[0] == "index" and A.path_str(el[1]) == "param1.octets":
                        ie = A.peel(el[2])
                        if A.path_str(ie) == "param1.position":
                            off = 0
                        elif ie[0] == "field" and A.peel(ie[1])[0] == "bin" and A.peel(ie[1])[1].startswith("Add") and A.path_str(A.peel(ie[1])[2]) == "param1.position":
                            off = A.peel(A.peel(ie[1])[3])[2]
                        elif ie[0] == "bin" and ie[1].startswith("Add") and A.path_str(ie[2]) == "param1.position":
                            off = A.peel(ie[3])[2]
                    elif el[0] == "index" and A.peel(el[2])[0] == "const":
                        # octets[k] of `self.take(width)?`: take returns &self.octets[self.position..self.position + n] (derived summary)
                        src = codec.untry(el[1])
                        P.set_program(prog)
                        if src[0] == "call" and src[1] == CB + "take" and A.peel(src[2][0]) == ("param", 1) and A.peel(src[2][1])[0] == "const" and A.peel(src[2][1])[2] == width \
                                and P.slice_len_summary(CB + "take") == ("param", 2) and P._SLICE_START.get(CB + "take") == {("param1.octets", "param1.position")}:
                            off = A.peel(el[2])[2]
                    idx.append(off)
                ok = idx == list(range(width))
        ctx.check(ok, "C04.2", "primitive:" + nm, "from_be_bytes([octets[pos], .. octets[pos+%d]])" % (width - 1), "%s does not read %d consecutive big-endian octets" % (nm, width), pf.loc())
    # the cursor advances by exactly the octets consumed (directly, or by delegating to take(n), which advances by n)
    for nm, width in (("next_u8", 1), ("next_u16", 2), ("next_u32", 4), ("take", "param2")):
        pf = prog.fn(CB + nm)
        pr = A.Resolver(pf)
        stores = [(b, i, st) for b, i, kind, st in A.field_writes(pf, DES + "ConsumableBuffer", "position") if kind == "store"]
        adv = []
        for b, i, st in stores:
            ar = A.arith(pr.rvalue(st["rv"], (b, i)))
            if ar is not None and ar[1] == "Add" and A.path_str(ar[2]) == "param1.position":
                inc = A.peel(ar[3])
                adv.append(inc[2] if inc[0] == "const" else A.path_str(inc))
            else:
                adv.append("?")
        via_take = [A.peel(pr.call_expr(t, b)[2][1]) for b, t in pf.calls() if (t.get("callee") or "") == CB + "take"] if nm != "take" else []
        ok = (adv == [width] and not via_take) or (not adv and len(via_take) == 1 and via_take[0][0] == "const" and via_take[0][2] == width)
        ctx.check(ok, "C04.2", "primitive:%s:advance" % nm, "position += %s (exactly what was consumed)" % width,
                  "%s advances the cursor by %s (take: %s), expected %s" % (nm, adv, [A.show(x) for x in via_take], width), pf.loc())
    # ... and succeed exactly when that many octets remain: Some(..) behind `len >= position + n` (or `len > position + n - 1`),
    # nothing stricter (a u16 in the last two octets of a message - every plain query ends with one - must be readable)
    for nm, width in (("next_u8", 1), ("next_u16", 2), ("next_u32", 4), ("take", None)):
        pf = prog.fn(CB + nm)
        pr = A.Resolver(pf)
        pc = A.Conds(pf, pr)
        if any((t.get("callee") or "") == CB + "take" for b, t in pf.calls()) and nm != "take":
            continue        # delegates to take(n): the advance rule above ties n to the width, take's own bound is checked below
        somes = [b for b, e in A.return_exprs(pf, pr) if A.peel(e)[0] == "agg" and A.peel(e)[2] == "Some"]
        need = None
        for b in somes:
            for fc in pc.facts_on_all_paths(b):
                if fc[0] != "cmp":
                    continue
                for op, x, y in ((fc[1], fc[2], fc[3]), (A.SWAP[fc[1]], fc[3], fc[2])):
                    if op not in ("Gt", "Ge"):
                        continue
                    # any arrangement of `len`, `position` and the count around the comparison: x - y >= 0 (or > 0)
                    dlin = P.sub(P.lin(x), P.lin(y))
                    co = dict(dlin[0])
                    if co.pop("len(param1.octets)", None) == 1 and co.pop("param1.position", None) == -1:
                        extra = -dlin[1] + (1 if op == "Gt" else 0)          # smallest number of remaining octets that satisfies the guard
                        need = (extra, tuple(sorted((k, -v) for k, v in co.items())))
        want = (width, ()) if width is not None else (0, (("param2", 1),))
        ok = need == want or (need is None and not somes and False)
        # `octets.get(position)?` needs no explicit comparison
        if need is None and nm == "next_u8" and any((t.get("callee") or "").endswith("<impl [T]>::get") for b, t in pf.calls()):
            ok = True
        ctx.check(ok, "C04.2", "primitive:%s:bound" % nm, "succeeds exactly when %s octet(s) remain" % (width if width is not None else "n"),
                  "%s succeeds only if %s octets remain beyond the position (expected %s)" % (nm, need, want), pf.loc())
    for nm in ("write_u16", "write_u32"):
        pf = prog.fn(WB + nm)
        pr = A.Resolver(pf)
        ws = [pr.call_expr(t, b) for b, t in A.call_blocks(pf, A.name_is(WB + "write_octets"))]
        ok = len(ws) == 1 and bool(A.calls_in(ws[0][2][1], lambda n: n.endswith("::to_be_bytes"))) and any(A.peel(x) == ("param", 2) for x in A.walk(ws[0][2][1]))
        ctx.check(ok, "C04.2", "primitive:" + nm, "write_octets(&value.to_be_bytes())", "%s is not big-endian" % nm, pf.loc())

    # the decoder rejects the fixed-layout part only when a read runs out ("from 12 bytes": a bare header decodes) - C03.6
    from ..core import RuleAlias
    if not isinstance(ctx, RuleAlias):
        from . import C03
        C03.run(RuleAlias(ctx, {"C03.6": "C04.2"}))

    # ---------------------------------------------------------------- C04.3
    for name, val in codec.RFC_MASKS.items():
        got = A.mir.const_val(prog.const(T + name))
        ctx.check(got == val, "C04.3", "const:" + name, "%s = %#x" % (name, val), "%s = %s, RFC value %#x" % (name, got, val))
    wmap, rmap, hs, hd = header_maps(prog)
    rfc = {"is_response": (1, 0x80, None), "opcode": (1, 0x78, 3), "is_authoritative": (1, 0x04, None), "is_truncated": (1, 0x02, None),
           "recursion_desired": (1, 0x01, None), "recursion_available": (2, 0x80, None), "rcode": (2, 0x0F, 0)}
    ctx.check(wmap == rfc, "C04.3", "header:writer-bits", "writer: %s" % rfc, "header bits written: %s" % wmap, hs.loc())
    rm = {k: v for k, v in rmap.items() if k != "id"}
    ctx.check(rm == rfc, "C04.3", "header:reader-bits", "reader tests the same bits", "header bits read: %s" % rm, hd.loc())
    hsr = A.Resolver(hs)
    ids = [hsr.call_expr(t, b) for b, t in A.call_blocks(hs, A.name_is(WB + "write_u16"))]
    w8 = [b for b, t in A.call_blocks(hs, A.name_is(WB + "write_u8"))]
    idb = [b for b, t in A.call_blocks(hs, A.name_is(WB + "write_u16"))]
    ctx.check(len(ids) == 1 and A.path_str(ids[0][2][1]) == "param1.id" and all(hs.dominates(idb[0], x) for x in w8) and rmap.get("id", (None, None))[0] == "u16",
              "C04.3", "header:id-first", "ID written and read first as a u16", "header ID handling changed", hs.loc())

    # ---------------------------------------------------------------- C04.4
    stores = [(b, i, st) for b, i, st in wfn.assigns() if st["dst"].get("p") and any(isinstance(x, dict) and "index" in x for x in st["dst"]["p"])]
    idx_calls = [(b, wr.call_expr(t, b)) for b, t in A.call_blocks(wfn, A.name_is(WB + "index"))]
    placeholder = [(b, wr.call_expr(t, b)) for b, t in A.call_blocks(wfn, A.name_is(WB + "write_u16")) if A.peel(wr.call_expr(t, b)[2][1])[2] == 0 and b not in arms]
    ok = len(placeholder) == 1 and len(idx_calls) == 2
    u2 = [(b, wr.call_expr(t, b)) for b, t in A.call_blocks(wfn, A.name_is(SER + "usize_to_u16"))]
    ok = ok and len(u2) == 1
    if ok:
        first_idx = [b for b, e in idx_calls if wfn.dominates(b, placeholder[0][0])]
        ok = len(first_idx) == 1 and not any(t_["k"] == "call" and (t_.get("callee") or "").startswith(WB + "write") for b_ in wfn.reachable(first_idx[0]) if b_ != first_idx[0]
                                             and wfn.dominates(b_, placeholder[0][0]) and b_ != placeholder[0][0] for t_ in [wfn.term(b_)])
        arg = A.peel(u2[0][1][2][0])
        # index() - rdlength_index - 2
        def flat(e):
            e = A.peel(e)
            if e[0] == "field" and e[2] == "0" and A.peel(e[1])[0] == "bin":
                e = A.peel(e[1])
            return e
        a1 = flat(arg)
        ok2 = a1[0] == "bin" and a1[1].startswith("Sub") and A.peel(a1[3])[2] == 2
        a2 = flat(a1[2]) if ok2 else None
        ok2 = ok2 and a2[0] == "bin" and a2[1].startswith("Sub") and A.peel(a2[2])[0] == "call" and A.peel(a2[2])[1] == WB + "index" and A.peel(a2[2])[3][1] != first_idx[0] \
            and A.peel(a2[3])[0] == "call" and A.peel(a2[3])[3] == (wfn.key, first_idx[0])
        ctx.check(ok and ok2, "C04.4", "rdlength:value", "RDLENGTH = index() - rdlength_index - 2 through usize_to_u16", "RDLENGTH computed as %s" % A.show(arg)[:160], wfn.loc(u2[0][0]))
        bytes_ = {}
        for b, i, st in stores:
            v = A.peel(wr.rvalue(st["rv"], (b, i)))
            ie = A.peel(wr.local([x for x in st["dst"]["p"] if isinstance(x, dict) and "index" in x][0]["index"], (b, i)))
            off = 0 if (ie[0] == "call" and ie[3] == (wfn.key, first_idx[0])) else (A.peel(flat(ie)[3])[2] if flat(ie)[0] == "bin" and flat(ie)[1].startswith("Add") else "?")
            which = v[2][2] if v[0] == "index" and A.peel(v[2])[0] == "const" else (A.peel(v[2])[2] if v[0] == "index" else "?")
            src = A.peel(v[1]) if v[0] == "index" else ("?",)
            bytes_[off] = (which, src[0] == "call" and src[1].endswith("u16>::to_be_bytes") and any(x[0] == "call" and x[3] == (wfn.key, u2[0][0]) for x in A.walk(src)))
        ctx.check(bytes_ == {0: (0, True), 1: (1, True)}, "C04.4", "rdlength:patch", "octets[rdlength_index] = hi, [rdlength_index+1] = lo of to_be_bytes", "RDLENGTH patched as %s" % bytes_, wfn.loc())
        # error propagated
        errs = [b for b, e in A.return_exprs(wfn, wr) if A.peel(e)[0] != "agg" or A.peel(e)[2] != "Ok"]
        ctx.check(bool(errs), "C04.4", "rdlength:error-propagated", "an RDATA longer than 65535 bytes is an error", "oversized RDATA is silently truncated", wfn.loc())
    else:
        ctx.bad("C04.4", "rdlength:shape", "RDLENGTH placeholder / index() / usize_to_u16 not found in the expected shape", wfn.loc())

    # ---------------------------------------------------------------- C04.5 / C04.6
    mn = prog.fn(WB + "memoise_name")
    mr = A.Resolver(mn)
    mc = A.Conds(mn, mr)
    ins = A.call_blocks(mn, A.name_endswith("HashMap::<K, V, S, A>::insert"))
    ctx.floor("C04.5", "name_pointers.insert", len(ins), 1, exact=True)
    for b, t in ins:
        e = mr.call_expr(t, b)
        val = A.peel(e[2][2])
        idxs = [x for x in A.walk(val) if x[0] == "call" and x[1] == WB + "index"]
        def bounded(fc):
            if fc[0] != "cmp":
                return False
            for op, x, y in ((fc[1], fc[2], fc[3]), (A.SWAP[fc[1]], fc[3], fc[2])):
                yv = A.peel(y)
                if yv[0] == "const" and isinstance(yv[2], int) and any(z[0] == "call" and z[1] == WB + "index" for z in A.walk(x)):
                    if (op == "Lt" and yv[2] <= 0x4000) or (op == "Le" and yv[2] <= 0x3FFF):
                        return True
            return False
        ok, _ = mc.guarded(b, bounded)
        ctx.check(ok and bool(idxs), "C04.5", "memoise_name:14-bit", "pointer recorded only for index() < 0x4000",
                  "a name written at offset >= 16384 is memoised: its 14-bit pointer wraps to another offset", mn.loc(b))
        shape = val[0] == "call" and val[1].endswith("u16>::from_be_bytes")
        arr = A.peel(val[2][0]) if shape else None
        shape = shape and arr[0] == "array" and len(arr[1]) == 2
        hi = A.peel(arr[1][0]) if shape else None
        shape = shape and hi[0] == "bin" and hi[1] == "BitOr" and A.peel(hi[3])[2] == 0xC0
        ctx.check(shape and A.path_str(e[2][0]) == "param1.name_pointers" and A.path_str(e[2][1]) == "param2", "C04.5", "memoise_name:pointer-value",
                  "name -> 0xC000 | index()", "pointer value is %s" % A.show(val)[:120], mn.loc(b))
        g1, _ = mc.guarded(b, lambda fc: fc[0] == "call" and fc[1].endswith("contains_key") and fc[3] is False)
        ctx.check(g1, "C04.6", "memoise_name:first-occurrence", "only the first occurrence of a name is recorded", "a later occurrence overwrites the pointer", mn.loc(b))
    ws = sorted({w_[0].key for w_ in A.who_writes(prog, SER + "WritableBuffer", "name_pointers") if w_[3] in ("store", "mutref")})
    ctx.check(ws == [WB + "memoise_name"], "C04.6", "who-writes(name_pointers)", "only memoise_name", "name_pointers written in %s" % ws)
    ds = prog.fn(IMPL(SER, "DomainName", "serialise"))
    dr = A.Resolver(ds)
    dc = A.Conds(ds, dr)
    memo = A.call_blocks(ds, A.name_is(WB + "memoise_name"))
    labels = [b for b, t in ds.calls() if (t.get("callee") or "") in (WB + "write_u8", WB + "write_octets")]
    no_memo = not A.who_calls(prog, WB + "memoise_name")  # nothing is ever memoised: no pointer can be wrong
    ctx.check(no_memo or (len(memo) == 1 and all(ds.dominates(memo[0][0], x) for x in labels) and A.peel(dr.call_expr(memo[0][1], memo[0][0])[2][1]) == ("param", 1)), "C04.6",
              "DomainName::serialise:memoise-before-labels", "memoise_name(self) before any label byte", "the name is memoised after (part of) it was written", ds.loc())
    ptr = [(b, dr.call_expr(t, b)) for b, t in A.call_blocks(ds, A.name_is(WB + "write_u16"))]
    ctx.floor("C04.6", "pointer emission", len(ptr), 1, exact=True)
    for b, e in ptr:
        v = A.peel(e[2][1])
        ok = v[0] == "field" and v[1][0] == "downcast" and v[1][2] == "Some" and A.peel(v[1][1])[0] == "call" and A.peel(v[1][1])[1] == WB + "name_pointer" \
            and A.peel(A.peel(v[1][1])[2][1]) == ("param", 1)
        g, _ = dc.guarded(b, lambda fc: fc[0] == "truth" and A.peel(fc[1]) == ("param", 3) and fc[2] is True)
        after = [x for x in ds.reachable(b) if x in labels or x in [m[0] for m in memo]]
        ctx.check(ok and g and not after, "C04.6", "DomainName::serialise:pointer", "pointer = name_pointer(self), only when compress, and ends the name",
                  "pointer emission changed (value %s, labels after pointer: %s)" % (A.show(v)[:80], bool(after)), ds.loc(b))
    lw = [(b, dr.call_expr(t, b)) for b, t in ds.calls() if (t.get("callee") or "") in (WB + "write_u8", WB + "write_octets")]
    okl = len(lw) == 2 and any(bool(Call("Label::len", Path("param1.labels.[]"))(e[2][1])) for b, e in lw) and any(bool(Call("Label::octets", Path("param1.labels.[]"))(e[2][1])) for b, e in lw)
    okl = okl and ds.dominates([b for b, e in lw if "Label::len" in A.show(e[2][1])][0], [b for b, e in lw if "Label::octets" in A.show(e[2][1])][0]) if okl else False
    ctx.check(okl, "C04.2", "name:writer", "each label: length octet then octets, in label order (root label = 0)", "labels are written differently", ds.loc())
    np_ = prog.fn(WB + "name_pointer")
    npr = A.Resolver(np_)
    rets = [A.peel(e) for b, e in A.return_exprs(np_, npr)]
    is_get = lambda x: x[0] == "call" and x[1].endswith("HashMap::<K, V, S, A>::get") and A.path_str(x[2][0]) == "param1.name_pointers" and A.peel(x[2][1]) == ("param", 2)
    def from_get(x):
        # the look-up itself (through .copied()), or Some(*hit) / None spelt out as a match on it
        if is_get(x):
            return True
        if x[0] == "agg" and x[2] == "None":
            return None
        if x[0] == "agg" and x[2] == "Some":
            v = A.peel(dict(x[3])["0"])
            return v[0] == "field" and v[1][0] == "downcast" and v[1][2] == "Some" and is_get(A.peel(v[1][1]))
        return False
    verdicts = [from_get(x) for x in rets]
    ctx.check(bool(rets) and all(v is not False for v in verdicts) and any(v is True for v in verdicts), "C04.6", "name_pointer", "name_pointers.get(name)",
              "name_pointer returns %s" % [A.show(x) for x in rets], np_.loc())

    # ---------------------------------------------------------------- C04.7
    ms = prog.fn(IMPL(SER, "Message", "serialise"))
    msr = A.Resolver(ms)
    cnt = [(b, msr.call_expr(t, b)) for b, t in A.call_blocks(ms, A.name_is(SER + "usize_to_u16"))]
    fields = sorted(A.path_str(A.peel(e[2][0])[2][0]) if A.peel(e[2][0])[0] == "call" else None for b, e in cnt)
    ctx.check(fields == ["param1.additional", "param1.answers", "param1.authority", "param1.questions"], "C04.7", "counts:sources", "QD/AN/NS/AR counts = len() of the four sections via usize_to_u16",
              "counts computed from %s" % fields, ms.loc())
    wr16 = [(b, msr.call_expr(t, b)) for b, t in A.call_blocks(ms, A.name_is(WB + "write_u16"))]
    order = []
    for b, e in sorted(wr16, key=lambda x: sum(1 for y in wr16 if ms.dominates(y[0], x[0]))):
        src = codec.untry(e[2][1])
        order.append(A.last_field(A.peel(src[2][0])[2][0]) if src[0] == "call" and src[1] == SER + "usize_to_u16" and A.peel(src[2][0])[0] == "call" else "?")
    ctx.check(order == ["questions", "answers", "authority", "additional"], "C04.7", "counts:order", "QDCOUNT ANCOUNT NSCOUNT ARCOUNT", "counts written in order %s" % order, ms.loc())
    hdr = A.call_blocks(ms, A.name_is(IMPL(SER, "Header", "serialise")))
    ctx.check(len(hdr) == 1 and all(ms.dominates(hdr[0][0], b) for b, e in wr16), "C04.7", "message:header-first", "header before the counts", "header is not written first", ms.loc())
    u = prog.fn(SER + "usize_to_u16")
    ur = A.Resolver(u)
    rets = A.return_exprs(u, ur)
    def lossless(e):
        """a Result whose Ok payload can only be the checked conversion of the parameter"""
        pe = A.peel(e)
        while pe[0] == "call" and pe[1].endswith("Result::<T, E>::map_err") and pe[2]:
            pe = A.peel(pe[2][0])                       # map_err keeps the Ok payload
        if pe[0] == "call" and (pe[1].endswith("::try_from") or (pe[4] or "").endswith("TryInto::try_into")) and pe[2] and A.peel(pe[2][0]) == ("param", 1):
            return "conv"
        if pe[0] == "agg" and pe[2] == "Ok":
            v = A.peel(dict(pe[3])["0"])
            inner = [x for x in A.walk(v) if x[0] == "call" and (x[1].endswith("::try_from") or (x[4] or "").endswith("TryInto::try_into"))]
            if v[0] == "field" and v[1][0] == "downcast" and v[1][2] == "Ok" and inner and not any(x[0] == "cast" for x in A.walk(v)):
                return "ok"
        if pe[0] == "agg" and pe[2] == "Err":
            return "err"
        return None
    kinds = [lossless(e) for b, e in rets]
    casts = [st for b, i, st in u.assigns() if st["rv"]["k"] == "cast" and st["rv"].get("ty") in ("u16", "u8")]
    ok = None not in kinds and ("conv" in kinds or ("ok" in kinds and "err" in kinds)) and not casts
    ctx.check(ok, "C04.7", "usize_to_u16", "the count is converted with a checked u16::try_from (Ok only when it fits), never truncated", "usize_to_u16 returns %s" % [A.show(e)[:60] for b, e in rets], u.loc())
    # section loops: each section serialised in order with the element serialiser; reader symmetrical
    md = prog.fn(IMPL(DES, "Message", "deserialise"))
    mdr = A.Resolver(md)
    cnts = [b for b, t in A.call_blocks(md, A.name_is(CB + "next_u16"))]
    cnts.sort(key=lambda x: sum(1 for y in cnts if md.dominates(y, x)))
    for b, i, st in A.aggregates(md, T + "Message"):
        d = dict(mdr.rvalue(st["rv"], (b, i))[3])
        pushes = {}
        for pb, pt in A.call_blocks(md, A.name_endswith("Vec::<T, A>::push")):
            pe = mdr.call_expr(pt, pb)
            vec = A.peel(pe[2][0])
            elem = codec.untry(pe[2][1])
            loop = [bd for hd_, bd in md.loops() if pb in bd]
            rng = None
            for bb in (min(loop, key=len) if loop else []):
                t = md.term(bb)
                if t["k"] == "call" and (t.get("resolved") or "").endswith("Range<A>>::next"):
                    it = A.peel(mdr.call_expr(t, bb)[2][0])
                    if it[0] == "agg" and it[1] == "std::ops::Range":
                        end = codec.untry(dict(it[3])["end"])
                        rng = cnts.index(end[3][1]) if end[0] == "call" and end[1] == CB + "next_u16" and end[3][1] in cnts else None
            pushes[A.strip_refs(vec)] = (elem[1].split("types::")[-1].split(">")[0] if elem[0] == "call" else "?", rng)
        m = {}
        for k in ("questions", "answers", "authority", "additional"):
            m[k] = pushes.get(A.strip_refs(A.peel(d[k])))
        want = {"questions": ("Question", 0), "answers": ("ResourceRecord", 1), "authority": ("ResourceRecord", 2), "additional": ("ResourceRecord", 3)}
        ctx.check(m == want, "C04.7", "message:reader-sections", "section k holds count_k elements decoded with its element decoder", "reader sections: %s" % m, md.loc(b, i))
    # writer side: every element of every section is handed to its serialiser, sections in RFC order
    msr_ = A.Resolver(ms)
    secs = []
    for b, t in ms.calls():
        n = t.get("resolved") or t.get("callee") or ""
        if n in (IMPL(SER, "Question", "serialise"), IMPL(SER, "ResourceRecord", "serialise")):
            e = msr_.call_expr(t, b)
            src = A.iter_elem_source(e[2][0])
            secs.append((b, A.last_field(src) if src is not None else None, n.split("types::")[-1].split(">")[0]))
    secs.sort(key=lambda x: sum(1 for y in secs if ms.dominates(y[0], x[0]) and y[0] != x[0]))
    got = [(f, k) for b, f, k in secs]
    ctx.check(got == [("questions", "Question"), ("answers", "ResourceRecord"), ("authority", "ResourceRecord"), ("additional", "ResourceRecord")],
              "C04.7", "message:writer-sections", "each element of questions / answers / authority / additional is serialised, in that order",
              "writer sections: %s" % got, ms.loc())
    # the decoder accepts exactly the names the constructors (and hence the encoder) can hold: both sides test
    # `len <= DOMAINNAME_MAX_LEN` - a stricter decoder would reject a message this very code has produced
    DN_ = T + "DomainName"
    lim = lambda x: A.peel(x)[0] == "const" and (A.peel(x)[3] or {}).get("uneval") == T + "DOMAINNAME_MAX_LEN"
    for key, what in ((IMPL(DES, "DomainName", "deserialise"), "wire decoder"), (DN_ + "::from_labels", "from_labels")):
        g = prog.fn(key)
        gr = A.Resolver(g)
        gc = A.Conds(g, gr)
        aggs = list(A.aggregates(g, DN_))
        okl = bool(aggs) and all(gc.guarded(b, A.cmp_fact({"Le"}, lambda e: True, lim))[0] for b, i, st in aggs)
        ctx.check(okl, "C04.8", "name-limit:%s" % what.replace(" ", "-"), "%s accepts a name iff len <= DOMAINNAME_MAX_LEN" % what,
                  "%s does not accept exactly the names of up to DOMAINNAME_MAX_LEN octets (encoder and decoder disagree on a 255-octet name)" % what, g.loc())

