"""C11 — a zone file means what RFC 1035 section 5 says it means (structural clauses)."""
from .. import analysis as A
from ..analysis import Call, Path, Param, Konst
from . import strpred
from . import C13

T = "dns_types::protocol::types::"
Z = "dns_types::zones::types::"
ZD = "dns_types::zones::deserialise::"
ZONE_DES = ZD + "<impl dns_types::zones::types::Zone>::deserialise"
ERR = ZD + "Error"


def err_returns(fn, res):
    """{block: error variant} for `return Err(Error::V ..)`"""
    out = {}
    for b, e in A.return_exprs(fn, res):
        pe = A.peel(e)
        if pe[0] == "agg" and pe[2] == "Err":
            v = A.peel(dict(pe[3])["0"])
            if v[0] == "agg" and v[1] == ERR:
                out[b] = v[2]
    return out


def run(ctx):
    prog = ctx.prog
    ctx.rule("C11.1", "the stated rejections exist and dominate loading: $INCLUDE, second SOA, wildcard SOA, name outside the apex, no origin, no TTL / owner to inherit, class other than IN")
    ctx.rule("C11.2", "the previous owner (with its wildcard-ness) and TTL are updated from every record parsed, before any early return for that entry")
    ctx.rule("C11.3", "name dispatch: @ -> origin, trailing dot -> absolute, otherwise relative to the origin; * / *. prefix -> wildcard")
    ctx.rule("C11.4", "a SOA makes the zone authoritative at its owner; both insert paths clamp the TTL to max(soa.minimum, ttl)")
    ctx.rule("C11.5", "no parser error is discarded outside the documented back-tracking helper")
    ctx.rule("C11.6", "tokeniser character classes vs writer escape classes (shared with C13.1); an escape is read as backslash-DDD = the octet DDD, backslash-X = X (shared with C13.2)")
    ctx.rule("C11.7", "record forms: the type may be preceded by 0..3 fields and each form is tried for every line long enough for it; a leading field is a TTL exactly when it is all digits, otherwise a name")
    ctx.rule("C11.8", "parentheses: `(` at the start of a token opens a continuation, `)` closes it, and a newline ends the entry in every unquoted state exactly when no parenthesis is open (tabulated from the tokeniser's MIR)")
    ctx.rule("C11.9", "every RDATA form the writer prints has a parser arm with the same fields in the same order (C13.4, decided here as well: the fields of a record are read into the places they denote)")
    ctx.decline("that parsing yields exactly the denoted records for every rendering (value property)")

    zd = prog.fn(ZONE_DES)
    r = A.Resolver(zd)
    c = A.Conds(zd, r)
    errs = err_returns(zd, r)
    ev = set(errs.values())
    ctx.check({"IncludeNotSupported", "MultipleSOA", "WildcardSOA", "NotSubdomainOfApex"} <= ev, "C11.1", "Zone::deserialise:error-set", "the four whole-file rejections are present",
              "Zone::deserialise returns only %s" % sorted(ev), zd.loc())
    inserts = [b for b, t in A.call_blocks(zd, A.name_is(Z + "Zone::insert", Z + "Zone::insert_wildcard"))]
    ctx.floor("C11.1", "record insertions", len(inserts), 2, exact=True)
    # $INCLUDE arm always errors
    inc = c.edges_where(lambda fc: fc[0] == "is" and fc[1] == "Include")
    ok = bool(inc) and all(all(x in errs and errs[x] == "IncludeNotSupported" for x in A.returns(zd) if x in zd.reachable(s)) or
                           ([errs.get(bb) for bb in errs if bb in zd.reachable(s)] and not [i for i in inserts if i in _reach_noloop(zd, s)]) for a, s in inc)
    inc_err = [b for b, v in errs.items() if v == "IncludeNotSupported"]
    ok = bool(inc) and bool(inc_err) and all(inc_err[0] in zd.reachable(s) and _only_exit(zd, s, inc_err[0]) for a, s in inc)
    ctx.check(ok, "C11.1", "reject:$INCLUDE", "an $INCLUDE entry always ends in Err(IncludeNotSupported)", "$INCLUDE is not rejected", zd.loc())
    # second SOA
    ms = [b for b, v in errs.items() if v == "MultipleSOA"]
    ok = False
    for b in ms:
        g1, _ = c.guarded(b, lambda fc: fc[0] == "is" and fc[1] == "SOA")
        g2, _ = c.guarded(b, lambda fc: fc[0] == "call" and fc[1].endswith("is_some") and fc[3] is True)
        ok = g1 and g2
    soa_store = [(b, i) for b, i, st in A.aggregates(zd, Z + "SOA")]
    okd = bool(ms) and all(c.guarded(b, lambda fc: fc[0] == "call" and fc[1].endswith("is_some") and fc[3] is False)[0] for b, i in soa_store)
    ctx.check(ok and okd, "C11.1", "reject:second-SOA", "a SOA is stored only if none was seen; otherwise Err(MultipleSOA)", "a second SOA is not rejected", zd.loc())
    ws = [b for b, v in errs.items() if v == "WildcardSOA"]
    okw = False
    for b in ws:
        g1, _ = c.guarded(b, lambda fc: fc[0] == "is" and fc[1] == "WildcardRR")
        g2, _ = c.guarded(b, lambda fc: fc[0] == "cmp" and fc[1] == "Eq" and any(A.peel(x)[0] == "agg" and A.peel(x)[2] == "SOA" for x in (fc[2], fc[3])))
        okw = g1 and g2
    wpush = [b for b, t in A.call_blocks(zd, A.name_endswith("Vec::<T, A>::push")) if c.guarded(b, lambda fc: fc[0] == "is" and fc[1] == "WildcardRR")[0]]
    okw = okw and all(c.guarded(b, lambda fc: fc[0] == "cmp" and fc[1] == "Ne" and any(A.peel(x)[0] == "agg" and A.peel(x)[2] == "SOA" for x in (fc[2], fc[3])))[0] for b in wpush) and bool(wpush)
    ctx.check(okw, "C11.1", "reject:wildcard-SOA", "a wildcard SOA is Err(WildcardSOA); wildcard records are collected only if not SOA", "a wildcard SOA is not rejected", zd.loc())
    for b, t in A.call_blocks(zd, A.name_is(Z + "Zone::insert", Z + "Zone::insert_wildcard")):
        e = r.call_expr(t, b)
        name = e[2][1]
        g, _ = c.guarded(b, lambda fc, name=name: fc[0] == "call" and fc[1] == T + "DomainName::is_subdomain_of" and fc[3] is True and A.same(fc[2][0], name)
                         and bool(Call("Zone::get_apex")(fc[2][1])))
        ctx.check(g, "C11.1", "reject:outside-apex@%s" % A.short(e[1]), "inserted only if rr.name.is_subdomain_of(zone.get_apex())", "records outside the apex are inserted", zd.loc(b))
    ne = [b for b, v in errs.items() if v == "NotSubdomainOfApex"]
    ctx.floor("C11.1", "NotSubdomainOfApex returns", len(ne), 2, exact=True)
    # parse errors propagate: the `?` on parse_entry
    pe_calls = A.call_blocks(zd, A.name_endswith("deserialise::parse_entry"))
    ctx.floor("C11.5", "parse_entry call", len(pe_calls), 1, exact=True)
    for b, t in pe_calls:
        brk = c.edges_where(lambda fc, b=b: fc[0] == "is" and fc[1] == "Break" and any(x[0] == "call" and x[3] == (zd.key, b) for x in A.walk(fc[2])))
        ok = bool(brk) and all(not [i for i in inserts if i in zd.reachable(s)] and any(x in zd.reachable(s) for x in A.returns(zd)) for a, s in brk)
        ctx.check(ok, "C11.5", "Zone::deserialise:propagates-parse-error", "an entry error ends the load (no record is inserted afterwards)", "parse errors do not abort the load", zd.loc(b))

    # ---------------------------------------------------------------- C11.2
    # the loop-carried state (current origin, previous owner, previous TTL): the variables handed to parse_entry
    names = {}
    if len(pe_calls) == 1:
        roots_ = [_arg_root(zd, a) for a in pe_calls[0][1]["args"][:3]]
        if len(roots_) == 3 and None not in roots_ and len(set(roots_)) == 3:
            names = {"origin": roots_[0], "previous_domain": roots_[1], "previous_ttl": roots_[2]}
    pd, pt = names.get("previous_domain"), names.get("previous_ttl")
    ctx.check(pd is not None and pt is not None, "C11.2", "inherit:variables", "found previous_domain / previous_ttl", "inheritance state variables missing", zd.loc())
    if pd is not None and pt is not None:
        for arm, wild in (("RR", "Normal"), ("WildcardRR", "Wildcard")):
            edges = c.edges_where(lambda fc, arm=arm: fc[0] == "is" and fc[1] == arm)
            ctx.floor("C11.2", "%s arm" % arm, len(edges), 1)
            dstores = [d for d in zd.defs().get(pd, []) if d[2] == "assign" and c.guarded(d[0], lambda fc, arm=arm: fc[0] == "is" and fc[1] == arm)[0]]
            tstores = [d for d in zd.defs().get(pt, []) if d[2] == "assign" and c.guarded(d[0], lambda fc, arm=arm: fc[0] == "is" and fc[1] == arm)[0]]
            okv = False
            for d in dstores:
                e = A.peel(r._def_expr(d, 0))
                if e[0] == "agg" and e[2] == "Some":
                    mw = A.peel(dict(e[3])["0"])
                    okv = mw[0] == "agg" and mw[2] == wild and A.last_field(dict(mw[3])["name"]) == "name"
            okt = False
            for d in tstores:
                e = A.peel(r._def_expr(d, 0))
                if e[0] == "agg" and e[2] == "Some":
                    okt = A.last_field(dict(e[3])["0"]) == "ttl"
            # before any early return of the arm
            arm_errs = [b for b in errs if c.guarded(b, lambda fc, arm=arm: fc[0] == "is" and fc[1] == arm)[0]]
            first = all(any(zd.dominates(d[0], eb) for d in dstores) and any(zd.dominates(d[0], eb) for d in tstores) for eb in arm_errs)
            ctx.check(okv and okt and first and bool(dstores) and bool(tstores), "C11.2", "inherit:%s" % arm,
                      "previous_domain = Some(%s{name}) and previous_ttl = Some(ttl) first thing in the arm" % wild,
                      "owner/TTL inheritance state is not updated (correctly) for %s entries" % arm, zd.loc())
    # parse_entry hands the state to parse_rr
    pe = prog.find("zones::deserialise::parse_entry")
    per = A.Resolver(pe)
    for b, t in A.call_blocks(pe, A.name_endswith("deserialise::parse_rr")):
        e = per.call_expr(t, b)
        ok = [A.peel(x) for x in e[2][:3]] == [("param", 1), ("param", 2), ("param", 3)]
        ctx.check(ok, "C11.2", "parse_entry->parse_rr", "origin / previous owner / previous TTL are passed through", "parse_rr gets %s" % [A.show(x) for x in e[2][:3]], pe.loc(b))
    for b, t in pe_calls:
        e = r.call_expr(t, b)
        roots = [_arg_root(zd, a) for a in t["args"][:3]]
        ok = roots == [names.get("origin"), pd, pt] and all(len([d for d in zd.defs().get(x, []) if d[2] != "partial"]) >= 2 for x in roots if x is not None)   # each is re-assigned in the loop
        ctx.check(ok, "C11.2", "Zone::deserialise->parse_entry", "the loop passes its origin / previous_domain / previous_ttl", "parse_entry gets %s" % [A.show(x)[:40] for x in e[2][:3]], zd.loc(b))
    # parse_rr: missing owner / TTL
    prr = prog.find("zones::deserialise::parse_rr")
    prrr = A.Resolver(prr)
    prc = A.Conds(prr, prrr)
    perrs = err_returns(prr, prrr)
    n_dom = sum(1 for v in perrs.values() if v == "MissingDomainName")
    n_ttl = sum(1 for v in perrs.values() if v == "MissingTTL")
    ctx.check(n_dom >= 5 and n_ttl >= 4, "C11.1", "reject:nothing-to-inherit", "%d MissingDomainName and %d MissingTTL exits" % (n_dom, n_ttl), "missing-owner / missing-TTL rejections: %d / %d" % (n_dom, n_ttl), prr.loc())
    for b, v in perrs.items():
        if v == "MissingDomainName":
            g, _ = prc.guarded(b, lambda fc: fc[0] == "is" and fc[1] == "None" and A.peel(fc[2]) == ("param", 2))
            ctx.check(g, "C11.1", "reject:no-owner@%s" % prr.loc(b).split(":")[-1], "MissingDomainName exactly when previous_domain is None", "MissingDomainName not tied to previous_domain", prr.loc(b))
        if v == "MissingTTL":
            g, _ = prc.guarded(b, lambda fc: fc[0] == "is" and fc[1] == "None" and A.peel(fc[2]) == ("param", 3))
            g2, _ = prc.guarded(b, lambda fc: fc[0] == "cmp" and fc[1] == "Ne" and any(A.peel(x)[0] == "agg" and A.peel(x)[2] == "SOA" for x in (fc[2], fc[3])))
            ctx.check(g and g2, "C11.1", "reject:no-ttl@%s" % prr.loc(b).split(":")[-1], "MissingTTL exactly when previous_ttl is None and the record is not a SOA", "MissingTTL not tied to previous_ttl / SOA exemption", prr.loc(b))
    # every use of an inherited value is on the Some edge
    torr = A.call_blocks(prr, A.name_endswith("deserialise::to_rr"))
    ctx.floor("C11.2", "to_rr call sites in parse_rr", len(torr), 4)
    classes = set()
    for b, t in prr.calls():
        if (t.get("callee") or "").endswith("PartialEq::eq") or "PartialEq" in (t.get("resolved") or ""):
            e = prrr.call_expr(t, b)
            for x in e[2]:
                px = A.peel(x)
                if px[0] == "const" and isinstance(px[2], str):
                    classes.add(px[2])
    ctx.check(classes == {"IN"}, "C11.1", "reject:class-not-IN", "the only class literal accepted is \"IN\"", "class literals compared: %s" % sorted(classes), prr.loc())
    unexpected = [b for b, v in perrs.items() if v == "Unexpected"]
    ctx.check(len(unexpected) >= 1, "C11.1", "reject:class-mismatch", "a 5-field record without IN in either class position is an error", "no error for a non-IN class", prr.loc())

    # ---------------------------------------------------------------- C11.7
    tp = [(b, t) for b, t in prr.calls() if (t.get("callee") or "").endswith("deserialise::try_parse_rtype_with_data")]
    forms = {}
    def toks_len(x):
        px = A.peel(x)
        return px[0] == "call" and px[1].endswith("::len") and px[2] and A.path_str(px[2][0]) == "param4"
    def len_fact_ok(fc, n):
        if fc[0] == "call" and fc[1].endswith("::is_empty") and fc[2] and A.path_str(fc[2][0]) == "param4":
            return (n == 0) == fc[3]
        if fc[0] == "cmp":
            for op, x, y in ((fc[1], fc[2], fc[3]), (A.SWAP[fc[1]], fc[3], fc[2])):
                py = A.peel(y)
                if toks_len(x) and py[0] == "const" and isinstance(py[2], int):
                    k = py[2]
                    return {"Eq": n == k, "Ne": n != k, "Lt": n < k, "Le": n <= k, "Gt": n > k, "Ge": n >= k}[op]
        return None
    for b, t in tp:
        e = prrr.call_expr(t, b)
        sl = A.peel_until_call(e[2][1], "index")
        k = None
        if sl[0] == "call" and sl[1].endswith("::index") and A.path_str(sl[2][0]) == "param4":
            rng = A.peel(sl[2][1])
            if rng[0] == "agg" and rng[1] == "std::ops::RangeFrom":
                st_ = A.peel(dict(rng[3])["start"])
                k = st_[2] if st_[0] == "const" else None
        facts = prc.facts_on_all_paths(b)
        least = [n for n in range(0, 8) if all(len_fact_ok(fc, n) is not False for fc in facts)]
        forms[k] = least[0] if least else None
    ctx.check(forms == {0: 1, 1: 2, 2: 3, 3: 4}, "C11.7", "parse_rr:forms", "the type is looked for at token 0, 1, 2 and 3, each as soon as the line has that many tokens + 1",
              "record forms tried (first type token -> least line length): %s" % forms, prr.loc())
    # TTL or name?  tokens[0] is read as a TTL only if every character is a digit, as a name only after a non-digit was seen
    def tok0(x):
        return (A.path_str(x) or "").startswith("param4.[0]") or "index(param4, 0)" in (A.path_str(x) or "") or \
            any(y[0] == "call" and y[1].endswith("::index") and A.path_str(y[2][0]) == "param4" and A.peel(y[2][1])[0] == "const" and A.peel(y[2][1])[2] == 0 for y in A.walk(x))
    def non_digit(fc):
        if fc[0] != "call" or not fc[1].endswith("char>::is_ascii_digit") or fc[3] is not False or not fc[2]:
            return False
        src = A.iter_elem_source(fc[2][0])
        return src is not None and tok0(src)
    nd_edges = prc.edges_where(non_digit)
    n_amb = 0
    for b, t in prr.calls():
        n_ = t.get("callee") or ""
        if n_.endswith("deserialise::parse_u32") and tok0(prrr.call_expr(t, b)[2][0]):
            n_amb += 1
            ctx.check(A.never_after(prr, nd_edges, b), "C11.7", "parse_rr:ttl-iff-digits#%d" % n_amb, "token 0 is read as a TTL only if all its characters are digits",
                      "token 0 can be read as a TTL although it contains a non-digit (a name such as `host1` would be rejected)", prr.loc(b))
    # the class token is skipped, never parsed: a token that compared equal to "IN" is not handed to the name / TTL parsers
    def tok_index(x):
        for y in A.walk(x):
            if y[0] == "call" and y[1].endswith("::index") and A.path_str(y[2][0]) == "param4" and A.peel(y[2][1])[0] == "const":
                return A.peel(y[2][1])[2]
        return None
    n_cls = 0
    for b, t in prr.calls():
        n_ = t.get("callee") or ""
        if n_.endswith("deserialise::parse_u32") or n_.endswith("deserialise::parse_domain_or_wildcard"):
            arg = prrr.call_expr(t, b)[2][-1]
            k = tok_index(arg)
            if k is None:
                continue
            def is_class(fc, k=k):
                if fc[0] != "cmp" or fc[1] != "Eq":
                    return False
                for x, y in ((fc[2], fc[3]), (fc[3], fc[2])):
                    py = A.peel(y)
                    if py[0] == "const" and py[2] == "IN" and tok_index(x) == k:
                        return True
                return False
            n_cls += 1
            ctx.check(not prc.guarded(b, is_class)[0], "C11.7", "parse_rr:class-not-parsed@%d#%d" % (k, n_cls), "a token equal to \"IN\" is the class, it is not parsed as a name or TTL",
                      "token %d is handed to %s in the branch where it equals \"IN\"" % (k, A.short(n_)), prr.loc(b))
    ctx.floor("C11.7", "name / TTL parses of a positional token", n_cls, 6)
    ctx.floor("C11.7", "places where token 0 is read as a TTL", n_amb, 2)
    ctx.floor("C11.7", "per-character digit tests of token 0", len(nd_edges), 2)

    # ---------------------------------------------------------------- C11.3
    pdm = prog.find("zones::deserialise::parse_domain")
    pdr = A.Resolver(pdm)
    pdc = A.Conds(pdm, pdr)
    derrs = err_returns(pdm, pdr)
    is_s = lambda x: A.peel(x) == ("param", 2)
    kinds = {}
    for b, kind, v in strpred.option_sources(pdm, pdr):
        if kind != "ok":
            continue
        src = None
        if v == ("param", 1) or (v[0] == "call" and v[1].endswith("Option::<T>::cloned") and False):
            src = "origin"
        elif v[0] == "call":
            src = v[1].split("::")[-1]
        elif A.peel(v) == ("param", 1):
            src = "origin"
        at = strpred.guarded(pdc, b, is_s, lambda nf: nf == ("eq", "@", True))
        kinds[src] = (b, at)
    ok = set(kinds) == {"origin", "from_dotted_string", "from_relative_dotted_string"} and kinds["origin"][1] and not kinds["from_dotted_string"][1]
    ctx.check(ok, "C11.3", "parse_domain:dispatch", "@ -> origin.clone(); trailing dot -> from_dotted_string; else from_relative_dotted_string(origin, ..)", "parse_domain dispatch: %s" % {k: v[1] for k, v in kinds.items()}, pdm.loc())
    if "from_dotted_string" in kinds:
        g = strpred.guarded(pdc, kinds["from_dotted_string"][0], is_s, lambda nf: nf == ("last", ".", True))
        ctx.check(g, "C11.3", "parse_domain:absolute-iff-trailing-dot", "absolute parsing only when the last character is '.'", "absolute parsing not tied to a trailing dot", pdm.loc(kinds["from_dotted_string"][0]))
    if "from_relative_dotted_string" in kinds:
        # (an empty text has no last character at all: that edge states the same thing)
        g = strpred.guarded(pdc, kinds["from_relative_dotted_string"][0], is_s, lambda nf: nf in (("last", ".", False), ("empty", True)))
        ctx.check(g, "C11.3", "parse_domain:relative-iff-no-trailing-dot", "relative parsing only when the last character is not '.'", "a name with a trailing dot can be parsed as relative", pdm.loc(kinds["from_relative_dotted_string"][0]))
    eo = [b for b, v in derrs.items() if v == "ExpectedOrigin"]
    ok = len(eo) >= 2 and all(pdc.guarded(b, lambda fc: fc[0] == "is" and fc[1] == "None" and A.peel(fc[2]) == ("param", 1))[0] for b in eo)
    ctx.check(ok, "C11.1", "reject:no-origin", "@ and relative names without an origin are Err(ExpectedOrigin)", "relative names without origin are not rejected", pdm.loc())
    # every Ok is behind "all ASCII" (the non-ASCII edge leads to the error only)
    oks_ = [b for b, kind, v in strpred.option_sources(pdm, pdr) if kind == "ok"]
    na = all(strpred.ascii_required(pdm, pdc, is_s, b) for b in oks_) and bool(oks_)
    ctx.check(na, "C11.3", "parse_domain:ascii-only", "every successful parse is behind the all-ASCII test", "non-ASCII names are not rejected", pdm.loc())
    pw = prog.find("zones::deserialise::parse_domain_or_wildcard")
    pwr = A.Resolver(pw)
    pwc = A.Conds(pw, pwr)
    woks = {}
    for b, i, st in A.aggregates(pw, ZD + "MaybeWildcard"):
        e = pwr.rvalue(st["rv"], (b, i))
        nm = A.peel(dict(e[3])["name"])
        star = strpred.guarded(pwc, b, is_s, lambda nf: nf == ("eq", "*", True))
        pre = strpred.guarded(pwc, b, is_s, lambda nf: nf in (("char", 0, "*", True), ("prefix", "*.", True), ("prefix", "*", True)))
        woks.setdefault(e[2], []).append((star, pre, A.show(nm)[:60]))
    ok = any(s for s, p_, n in woks.get("Wildcard", [])) and any(p_ and not s for s, p_, n in woks.get("Wildcard", [])) and len(woks.get("Normal", [])) == 1 and not any(s or p_ for s, p_, n in woks.get("Normal", []))
    ctx.check(ok, "C11.3", "wildcard:dispatch", "`*` -> Wildcard(origin); `*.rest` -> Wildcard(parse(rest)); anything else -> Normal", "wildcard dispatch: %s" % woks, pw.loc())
    werrs = err_returns(pw, pwr)
    ctx.check("ExpectedOrigin" in werrs.values(), "C11.1", "reject:wildcard-no-origin", "`*` without an origin is rejected", "`*` without origin accepted", pw.loc())
    po = prog.find("zones::deserialise::parse_origin")
    por = A.Resolver(po)
    oka = [A.peel(dict(A.peel(e)[3])["0"]) for b, e in A.return_exprs(po, por) if A.peel(e)[0] == "agg" and A.peel(e)[2] == "Ok"]
    ok = len(oka) == 1 and oka[0][0] == "agg" and oka[0][2] == "Origin" and bool(A.calls_in(dict(oka[0][3])["name"], lambda n: n.endswith("deserialise::parse_domain")))
    ctx.check(ok, "C11.3", "$ORIGIN:parsed-as-domain", "$ORIGIN <name> -> Entry::Origin{parse_domain(origin, name)}", "$ORIGIN handled as %s" % [A.show(x)[:80] for x in oka], po.loc())
    # the loop applies it
    ostore = [d for d in zd.defs().get(names.get("origin", -1), []) if d[2] == "assign"]
    ok = any(A.peel(r._def_expr(d, 0))[0] == "agg" and A.peel(r._def_expr(d, 0))[2] == "Some" and c.guarded(d[0], lambda fc: fc[0] == "is" and fc[1] == "Origin")[0] for d in ostore)
    ctx.check(ok, "C11.3", "$ORIGIN:applied", "an Origin entry replaces the current origin", "$ORIGIN entries are ignored", zd.loc())

    # ---------------------------------------------------------------- C11.4
    news = A.call_blocks(zd, A.name_is(Z + "Zone::new"))
    ctx.floor("C11.4", "Zone::new in the loader", len(news), 1, exact=True)
    for b, t in news:
        e = r.call_expr(t, b)
        apex, soa = A.peel(e[2][0]), A.peel(e[2][1])
        ok = soa[0] == "agg" and soa[2] == "Some" and A.path_str(apex, open_root=True).endswith(".0.0") and A.path_str(dict(soa[3])["0"], open_root=True).endswith(".0.1")
        g, _ = c.guarded(b, lambda fc: fc[0] == "is" and fc[1] == "Some")
        ctx.check(ok and g, "C11.4", "soa=>authoritative-apex", "with a SOA: Zone::new(SOA owner, Some(soa))", "Zone::new called with (%s, %s)" % (A.show(apex)[:60], A.show(soa)[:60]), zd.loc(b))
    # ... and the apex recorded with the SOA is the SOA record's own owner name (not the origin in force, not a constant)
    for b, t in news:
        apex = A.deep_payload(r.call_expr(t, b)[2][0])
        ps = A.path_str(apex, open_root=True) or ""
        ok_owner = A.peel(apex)[0] != "call" and ps.endswith(".rr.name") or (A.last_field(apex) == "name" and not any(x[0] == "call" and (x[1].endswith("::unwrap_or") or x[1].endswith("::unwrap_or_else")) for x in A.walk(apex)))
        ctx.check(bool(ok_owner), "C11.4", "soa=>apex-is-owner", "the apex is the SOA record's owner name", "the apex recorded with the SOA is %s" % A.show(apex)[:120], zd.loc(b))
    for b, i in soa_store:
        e = r.rvalue(zd.blocks[b]["stmts"][i]["rv"], (b, i))
        ok = all(A.last_field(v) == k for k, v in e[3])
        ctx.check(ok, "C11.4", "soa:fields", "SOA fields copied one to one from the record", "SOA fields permuted: %s" % {k: A.last_field(v) for k, v in e[3]}, zd.loc(b, i))
    defaults = A.call_blocks(zd, lambda n: n.endswith("Zone as std::default::Default>::default"))
    ctx.check(len(defaults) == 1, "C11.4", "no-soa=>root-zone", "without a SOA the records go to the default (non-authoritative root) zone", "no default zone for SOA-less files", zd.loc())
    for key in (Z + "Zone::insert", Z + "Zone::insert_wildcard"):
        f = prog.fn(key)
        fr = A.Resolver(f)
        tgt = Z + ("ZoneRecords::insert" if key.endswith("::insert") else "ZoneRecords::insert_wildcard")
        for b, t in A.call_blocks(f, A.name_is(tgt)):
            e = fr.call_expr(t, b)
            ok = bool(Call("Zone::actual_ttl", Param(1), Param(4))(e[2][3])) and A.peel(e[2][2]) == ("param", 3)
            ctx.check(ok, "C11.4", "clamp@%s" % A.short(key), "stored TTL = self.actual_ttl(ttl)", "TTL stored as %s" % A.show(e[2][3])[:80], f.loc(b))
    at = prog.fn(Z + "Zone::actual_ttl")
    atr = A.Resolver(at)
    atc = A.Conds(at, atr)
    vals = {}
    for b, e in A.return_exprs(at, atr):
        some = [fc[0] for fc in atc.facts_on_all_paths(b) if fc[0] in ("is", "isnot") and fc[1] == "Some"]
        vals["some" if some == ["is"] else "none"] = A.peel(e)
    ok = vals.get("none") == ("param", 2) and vals.get("some", ("?",))[0] == "call" and vals["some"][1].endswith("cmp::max") and \
        {A.path_str(x, open_root=True) for x in vals["some"][2]} == {"param2", "param1.soa.<Some>.0.minimum"}
    ctx.check(ok, "C11.4", "actual_ttl", "Some(soa) => max(soa.minimum, ttl); None => ttl", "actual_ttl returns %s" % {k: A.show(v) for k, v in vals.items()}, at.loc())

    # ---------------------------------------------------------------- C11.5
    fns = [f for f in prog.family(ZONE_DES)]
    keys = prog.reachable_fns([ZONE_DES])
    n_try = 0
    for k in sorted(keys):
        for f in prog.family(k):
            if not f.file.endswith("zones/deserialise.rs") or f.derived:
                continue
            fr = A.Resolver(f)
            for b, t in f.calls():
                callee = t.get("resolved") or t.get("callee") or ""
                if callee.startswith(ZD) and callee in prog.fns and prog.fns[callee].local_ty(0).startswith("std::result::Result<") and "deserialise::Error" in prog.fns[callee].local_ty(0):
                    n_try += 1
                    dst = t["dst"]
                    # how is the Result consumed?
                    uses = _uses_of(f, dst)
                    allowed = f.key.endswith("try_parse_rtype_with_data")
                    bad = [u for u in uses if u in ("ok", "unwrap_or", "unwrap_or_default", "unwrap_or_else", "is_ok", "is_err", "drop")]
                    ctx.check(not bad or allowed, "C11.5", "err-prop:%s<-%s@%s" % (A.short(callee), A.short(f.key), f.loc(b).split(":")[-1]),
                              "Result of %s is propagated / matched" % A.short(callee), "parser error of %s is discarded via %s" % (A.short(callee), bad), f.loc(b))
    ctx.floor("C11.5", "fallible parser calls examined", n_try, 12)

    # parse_entry hands its state on unchanged: every entry parser gets the origin in force (and parse_rr the inherited
    # owner and TTL) - a directive is resolved against the same origin as a record
    pe_ = prog.find("zones::deserialise::parse_entry")
    per_ = A.Resolver(pe_)
    n_disp = 0
    for b, t in pe_.calls():
        n_ = (t.get("callee") or "").rsplit("::", 1)[-1]
        if n_ not in ("parse_origin", "parse_include", "parse_rr") or not (t.get("callee") or "").startswith("dns_types::zones::deserialise::"):
            continue
        n_disp += 1
        e = per_.call_expr(t, b)
        want = [("param", 1)] + ([("param", 2), ("param", 3)] if n_ == "parse_rr" else [])
        got = [A.peel(a) for a in e[2][:len(want)]]
        ctx.check(got == want, "C11.3", "parse_entry:passes-state:" + n_, "%s(origin%s, tokens)" % (n_, ", previous owner, previous TTL" if n_ == "parse_rr" else ""),
                  "%s is called with %s" % (n_, [A.show(a)[:40] for a in e[2][:len(want)]]), pe_.loc(b))
    ctx.floor("C11.3", "entry parsers called from parse_entry", n_disp, 3)

    # ---------------------------------------------------------------- C11.6
    C13.escape_rules(ctx, "C11.6")
    C13.escape_reader_rules(ctx, "C11.6")

    # ---------------------------------------------------------------- C11.9
    from ..core import RuleAlias
    if not isinstance(ctx, RuleAlias):
        C13.run(RuleAlias(ctx, {"C13.4": "C11.9"}))

    # ---------------------------------------------------------------- C11.8
    from . import zonetext
    tt, tfn, states = zonetext.tokeniser_table(prog)
    tfl = zonetext.tokeniser_flags(prog)
    ctx.check(tfl[("Initial", 40, False)] == {True} and all(o[0] == "special" for o in tt[("Initial", 40, False)]), "C11.8", "paren:open", "`(` outside parentheses opens a continuation",
              "`(` leaves the continuation flag as %s" % sorted(map(str, tfl[("Initial", 40, False)])), tfn.loc())
    ctx.check(tfl[("Initial", 41, True)] == {False} and all(o[0] == "special" for o in tt[("Initial", 41, True)]), "C11.8", "paren:close", "`)` inside parentheses closes the continuation",
              "`)` leaves the continuation flag as %s" % sorted(map(str, tfl[("Initial", 41, True)])), tfn.loc())
    unq = [st for st in states if st != "QuotedString"]
    ends_out = [st for st in unq if tt[(st, 10, False)] != {("end-of-entry",)}]
    ends_in = [st for st in unq if any(o[0] in ("end-of-entry", "error") for o in tt[(st, 10, True)]) or tfl[(st, 10, True)] != {None}]
    ctx.check(not ends_out, "C11.8", "newline:ends-entry", "outside parentheses a newline ends the entry", "a newline outside parentheses does not end the entry in state(s) %s" % ends_out, tfn.loc())
    ctx.check(not ends_in, "C11.8", "newline:continues-in-parens", "inside parentheses a newline is white space (the entry goes on, the parenthesis stays open)",
              "a newline inside parentheses ends the entry / closes the parenthesis in state(s) %s" % ends_in, tfn.loc())
    # nothing but the two parenthesis transitions touches the flag
    others = sorted({(st, ch) for (st, ch, lc), v in tfl.items() if v != {None} and not (st == "Initial" and ((ch == 40 and not lc) or (ch == 41 and lc)))})
    ctx.check(not others, "C11.8", "paren:flag-owners", "only `(` and `)` at the start of a token change the continuation flag",
              "the continuation flag is also changed by %s" % [(st, chr(ch)) for st, ch in others[:6]], tfn.loc())


def _reach_noloop(fn, s):
    return fn.reachable(s)


def _only_exit(fn, s, target):
    """every return reachable from s without passing back through a loop header is `target`"""
    hdrs = {h for h, _ in fn.loops()}
    reach = fn.reachable(s, removed_blocks=hdrs)
    rets = [b for b in A.returns(fn) if b in reach]
    errs = [b for b, e in A.return_exprs(fn) if b in reach]
    return bool(errs) and all(b == target for b in errs)


def _uses_of(fn, place):
    """names of the calls that consume a local (looking through moves)."""
    out = []
    locals_ = {place["l"]}
    changed = True
    while changed:
        changed = False
        for b, i, st in fn.assigns():
            rv = st["rv"]
            if rv["k"] == "use":
                p = A.op_place(rv["op"])
                if p is not None and A.is_plain_local(p) and p["l"] in locals_ and A.is_plain_local(st["dst"]) and st["dst"]["l"] not in locals_:
                    locals_.add(st["dst"]["l"])
                    changed = True
            if rv["k"] == "ref" and A.is_plain_local(rv["place"]) and rv["place"]["l"] in locals_ and st["dst"]["l"] not in locals_:
                locals_.add(st["dst"]["l"])
                changed = True
    for b, t in fn.calls():
        for a in t["args"]:
            p = A.op_place(a)
            if p is not None and p["l"] in locals_:
                out.append((t.get("callee") or "").split("::")[-1])
    return out


def _arg_root(fn, op):
    """the user variable an argument is (a view of): through moves, refs and Option::as_ref."""
    p = A.op_place(op)
    seen = set()
    while p is not None and p["l"] not in seen:
        l = p["l"]
        seen.add(l)
        if fn.locals[l]["user"]:
            return l
        ds = [d for d in fn.defs().get(l, []) if d[2] != "partial"]
        if len(ds) != 1:
            return l
        d = ds[0]
        if d[2] == "assign":
            rv = fn.blocks[d[0]]["stmts"][d[1]]["rv"]
            p = rv.get("place") if rv["k"] == "ref" else A.op_place(rv.get("op", {}))
        elif d[2] == "call":
            t = fn.blocks[d[0]]["term"]
            if (t.get("callee") or "").endswith("as_ref") and t["args"]:
                p = A.op_place(t["args"][0])
            else:
                return l
        else:
            return l
    return None
