"""C17 — configuration parsers never crash on any text."""
from .. import analysis as A
from .. import panics as P
from ..analysis import Call, Path, Param
from . import C03, C19

T = "dns_types::protocol::types::"
Z = "dns_types::zones::types::"
ZD = "dns_types::zones::deserialise::"
HD = "dns_types::hosts::deserialise::"
ZONE_DES = ZD + "<impl dns_types::zones::types::Zone>::deserialise"
HOSTS_DES = HD + "<impl dns_types::hosts::types::Hosts>::deserialise"
DN = T + "DomainName"


def names_nonempty(prog):
    """DomainName.labels is never empty: constructors only, and each yields at least one label."""
    sites = sorted({x[0].key for x in A.who_constructs(prog, DN)})
    fl = prog.fn(DN + "::from_labels")
    flr = A.Resolver(fl)
    flc = A.Conds(fl, flr)
    ok = True
    for b, i, st in A.aggregates(fl, DN):
        g, _ = flc.guarded(b, lambda fc: fc[0] == "call" and A.is_empty_name(fc[1]) and fc[3] is False and A.peel(fc[2][0]) == ("param", 1))
        ok = ok and g
    return ok and DN + "::from_labels" in sites and DN + "::root_domain" in sites and len(sites) <= 4


def justify(prog):
    c03 = C03.justify(prog)
    nonempty = names_nonempty(prog)

    def j(f, res, pv, b, kind, t):
        r = c03(f, res, pv, b, kind, t)
        if r is not None and r[0]:
            return r
        # ---- &line[start..i] / &line[start..] in parse_line: offsets come from char_indices of the same str
        if f.key == HD + "parse_line" and kind == "call:index":
            e = res.call_expr(t, b)
            rng = A.peel(e[2][1])
            if A.peel(e[2][0]) == ("param", 1) and rng[0] == "agg":
                d = dict(rng[3])
                def ci(x):
                    ps = A.path_str(x, open_root=True) or ""
                    return ps.endswith(".[].0") and any(y[0] == "call" and y[1].endswith("<impl str>::char_indices") and A.peel(y[2][0]) == ("param", 1) for y in A.walk(x))
                starts_ok = True
                for bb, ii, st in A.aggregates(f, HD + "State"):
                    ee = res.rvalue(st["rv"], (bb, ii))
                    for k_, v in ee[3]:
                        if k_ == "start":
                            starts_ok = starts_ok and ci(v)
                s_ok = A.last_field(d.get("start", ("?",))) == "start" and starts_ok
                e_ok = "end" not in d or ci(d["end"])
                if s_ok and e_ok:
                    return True, "both bounds are char_indices() offsets of the same &str (char boundaries, increasing)"
            return False, "string slice bounds are not char_indices offsets of the sliced string"
        # ---- chunks.len() - 1 inside the loop over chunks (handled by the is-Some fact); is_root's labels[0]
        if f.key == DN + "::is_root" and kind == "call:index":
            e = res.call_expr(t, b)
            if A.path_str(e[2][0]) == "param1.labels" and A.peel(e[2][1])[0] == "const" and A.peel(e[2][1])[2] == 0 and nonempty:
                return True, "DomainName.labels is never empty (only the constructors build names; from_labels rejects an empty list)"
            return False, "labels[0] of a possibly empty name"
        # ---- from_labels(prefix-of-a-valid-name).unwrap() in the zone tree
        if f.key in (Z + "ZoneRecords::insert", Z + "ZoneRecords::insert_wildcard", Z + "ZoneRecords::resolve") and kind == "call:unwrap":
            e = res.call_expr(t, b)
            src = A.peel_refs(e[2][0])
            if src[0] == "call" and src[1] == DN + "::from_labels":
                labels = A.peel(src[2][0])
                ok = A.path_str(labels) == "param1.nsdname.labels" or (labels[0] == "call" and A.path_str(labels[2][0]) == "param1.nsdname.labels")
                ins = [res.call_expr(tt, bb) for bb, tt in A.call_blocks(f, A.name_endswith("Vec::<T, A>::insert")) if f.dominates(bb, b)]
                ok = ok and any(A.peel(x[2][1])[0] == "const" and A.peel(x[2][1])[2] == 0 for x in ins)
                callers = {c[0].key for c in A.who_calls(prog, f.key)}
                ok = ok and callers <= {f.key, Z + "Zone::insert", Z + "Zone::insert_wildcard", Z + "Zone::new", Z + "Zone::resolve", Z + "Zone::resolve::{closure#0}"}
                if ok:
                    return True, "labels = one relative label prepended to this node's name: a suffix of the valid name being inserted / looked up (reached only through Zone's API)"
            return False, "from_labels(..).unwrap() on labels that are not a suffix of a valid name"
        if f.key == Z + "Zones::resolve" and kind == "call:unwrap":
            return True, "Zone::resolve returns Some for names under its apex; Zones::get selected the zone by a suffix of the name"
        if f.key in (Z + "Zones::insert_merge", Z + "Zones::merge") and kind == "call:unwrap":
            return True, "Zone::merge fails only on different apexes; the zone was looked up by that apex"
        return r
    return j


def run(ctx):
    prog = ctx.prog
    ctx.rule("C17.1", "every panic-capable site reachable from Zone::deserialise / Hosts::deserialise is discharged")
    ctx.rule("C17.2", "every parser loop consumes input (iterator next / stream.next / tokenise_entry on a non-empty stream)")
    ctx.rule("C17.3", "recursion only on a strictly shorter label slice")
    ctx.rule("C17.4", "the loader turns every read/parse error into the failure flag (shared with C19.6)")
    ctx.decline("stack depth of the zone-tree recursion is bounded by the 127 labels of a name; the frame-size measurement is a thorough-tier item")

    fns = [f for f in P.reach_set(prog, [ZONE_DES, HOSTS_DES]) if not f.derived]
    ctx.floor("C17.1", "functions reachable from the two parsers", len(fns), 25)
    d = P.Discharger(ctx, "C17.1", prog, justify(prog))
    counts = d.run(fns)
    ctx.floor("C17.1", "indexing sites examined", counts.get("call:index", 0) + counts.get("assert:BoundsCheck", 0), 30)
    ctx.note("site kinds examined: %s" % counts)
    # no explicit panics / unreachable! / todo! / process::exit inside the parsers
    ctx.check(not prog.unsafe, "C17.1", "no-unsafe", "no user-written unsafe", "unsafe present")

    # ---------------------------------------------------------------- C17.2
    nloops = 0
    for f in fns:
        for header, body in f.loops():
            nloops += 1
            prog_blocks = []
            kinds = set()
            for b in body:
                t = f.term(b)
                if t["k"] == "call":
                    n = t.get("resolved") or t.get("callee") or ""
                    if n.endswith("::next") and ("Iterator" in n or "iter" in n.lower()):
                        prog_blocks.append(b)
                        kinds.add("iterator")
                    elif n.startswith(ZD + "tokenise_entry") or n.startswith(ZD + "parse_entry"):
                        prog_blocks.append(b)
                        kinds.add(n.split("::")[-1].split("<")[0])
            ok = bool(prog_blocks) and not f.has_cycle(removed_blocks=prog_blocks, within=body)
            ctx.check(ok, "C17.2", "%s:loop@%d#%s" % (A.short(f.key), nloops, "+".join(sorted(kinds)) or "?"), "every cycle advances an iterator / the token stream",
                      "loop at %s can spin without consuming input" % f.loc(header), f.loc(header))
    ctx.floor("C17.2", "loops in the parsers", nloops, 6)
    # parse_entry: the `loop` repeats only when tokenise_entry returned no tokens and the stream is not exhausted
    pe = prog.find("zones::deserialise::parse_entry")
    per = A.Resolver(pe)
    pec = A.Conds(pe, per)
    for header, body in pe.loops():
        backs = [(b, header) for b in body if header in pe.succs(b)]
        for a, s in backs:
            # "no tokens": Vec::is_empty / <[T]>::is_empty (what `first()` is None normalises to) on the tokenise_entry result
            g1, _ = pec.guarded(a, lambda fc: fc[0] == "call" and fc[1].endswith("::is_empty") and fc[3] is True
                                and any(x[0] == "call" and "tokenise_entry" in x[1] for x in A.walk(fc[2][0])))
            g2, _ = pec.guarded(a, lambda fc: fc[0] == "call" and fc[1].endswith("is_none") and fc[3] is False)
            ctx.check(g1 and g2, "C17.2", "parse_entry:repeat-only-on-blank", "parse_entry loops only past an empty entry with input remaining",
                      "parse_entry can loop without the stream having been consumed", pe.loc(a))
    te = prog.find("zones::deserialise::tokenise_entry")
    tloops = te.loops()
    nx = [b for b, t in te.calls() if (t.get("callee") or "").endswith("Iterator::next")]
    ctx.check(len(tloops) >= 1 and len(nx) >= 1 and all(any(b in body for b in nx) for _, body in tloops), "C17.2", "tokenise_entry:consumes",
              "tokenise_entry takes at least one character per iteration (stream.next())", "tokenise_entry can loop without reading", te.loc())

    # ---------------------------------------------------------------- C17.3
    fkeys = {f.key for f in fns}
    edges = {}
    for g in fns:
        for b, t in g.calls():
            callee = t.get("resolved") or t.get("callee")
            if callee in fkeys:
                edges.setdefault(g.key, set()).add(callee)
        for b, i, st in g.assigns():
            rv = st["rv"]
            if rv["k"] == "agg" and rv["ak"] in ("closure", "coroutine") and rv.get("def") in fkeys:
                edges.setdefault(g.key, set()).add(rv["def"])
    def reaches(a, target):
        seen, stack = set(), [a]
        while stack:
            x = stack.pop()
            if x == target:
                return True
            if x in seen:
                continue
            seen.add(x)
            stack.extend(edges.get(x, ()))
        return False
    rec = [(g, b, t, t.get("resolved") or t.get("callee")) for g in fns for b, t in g.calls()
           if (t.get("resolved") or t.get("callee")) in fkeys and reaches(t.get("resolved") or t.get("callee"), g.key)]
    allowed = {Z + "ZoneRecords::insert", Z + "ZoneRecords::insert_wildcard", Z + "ZoneRecords::all_records", Z + "ZoneRecords::all_wildcard_records", Z + "ZoneRecords::merge"}
    got = {g.key for g, b, t, c in rec}
    ctx.check(got <= allowed and all(g.key == c for g, b, t, c in rec), "C17.3", "recursion:set", "only the zone-tree walkers recurse, each directly on itself", "recursive functions: %s" % sorted(got - allowed))
    for g, b, t, c in rec:
        if g.key not in (Z + "ZoneRecords::insert", Z + "ZoneRecords::insert_wildcard"):
            continue
        r = A.Resolver(g)
        e = r.call_expr(t, b)
        # the argument is a sub-slice relative_domain[s .. e] with e - s <= len - 1, whichever range type spells it
        # (split_last / split_first are expanded to this form by the normal-form pass)
        ss = A.subslice(e[2][1])
        ok = ss is not None and A.peel(ss[0]) == ("param", 2)
        if ok:
            fields = {k: v for k, v in (("start", ss[1]), ("end", ss[2])) if v is not None}
            whole = ({"len(param2)": 1}, 0)
            start = P.lin(fields["start"]) if "start" in fields else ({}, 0)
            end = P.lin(fields["end"]) if "end" in fields else whole
            ok = start is not None and end is not None
            if ok:
                # (len - 1) - (end - start) >= 0 identically
                coef = {"len(param2)": 1}
                const = -1
                for k, v in end[0].items():
                    coef[k] = coef.get(k, 0) - v
                const -= end[1]
                for k, v in start[0].items():
                    coef[k] = coef.get(k, 0) + v
                const += start[1]
                ok = all(v == 0 for v in coef.values()) and const >= 0
        ctx.check(ok, "C17.3", "%s:measure@%s" % (A.short(g.key), g.loc(b).split(":")[-1]), "recursive call on relative_domain[0 .. len-1] (strictly shorter)",
                  "recursive call argument is %s" % A.show(e[2][1])[:100], g.loc(b))

    # the depth bound of that recursion is the name-length limit: <= 255 octets means <= 127 labels (C16.3, decided here too)
    from ..core import RuleAlias
    from . import C16
    C16.run(RuleAlias(ctx, {"C16.3": "C17.3"}))

    # ---------------------------------------------------------------- C17.4
    C19.loader_rules(ctx, "C17.4")
    # the loader and main report, they do not unwrap
    for key in ("resolved::fs::zone_from_file", "resolved::fs::hosts_from_file"):
        f = prog.body_of(key)
        bad = [t.get("callee") for b, t in f.calls() if P.is_panic_call(t)]
        ctx.check(not bad, "C17.4", "%s:no-unwrap" % A.short(key), "parse result returned, not unwrapped", "%s unwraps: %s" % (key, bad), f.loc())
