"""C01 — local zone and hosts data always win over cache and upstream."""
from .. import analysis as A
from ..analysis import Call, Path, PathEnds
from . import cluster

T = "dns_types::protocol::types::"
Z = "dns_types::zones::types::"
LOCAL = cluster.LOCAL
REC = cluster.REC
FWD = cluster.FWD
RR_ = "dns_resolver::util::types::ResolvedRecord"
LRR = "dns_resolver::local::LocalResolutionResult"
CGET = "dns_resolver::cache::SharedCache::get"
NSM = "dns_resolver::util::nameserver::"
UPSTREAM = {NSM + "query_nameserver", REC + "resolve_combined_recursive", REC + "candidate_nameservers", REC + "resolve_hostname_to_ip",
            REC + "resolve_with_nameserver_response", REC + "resolve_recursive_notimeout", FWD + "resolve_forwarding_notimeout"}


def is_soa_probe(x):
    x = A.peel(x)
    return x[0] == "call" and x[1] in (Z + "Zone::soa_rr", Z + "Zone::get_soa")


def _kept_rule(ctx):
    prog = ctx.prog
    bad = []
    n = 0
    for key in ("dns_resolver::recursive::resolve_recursive_notimeout", "dns_resolver::recursive::resolve_with_nameserver_response",
                "dns_resolver::forwarding::resolve_forwarding_notimeout", "dns_resolver::recursive::resolve_combined_recursive", "dns_resolver::local::resolve_local"):
        f = prog.body_of(key)
        n += 1
        for b, t in f.calls():
            nm = t.get("resolved") or t.get("callee") or ""
            tl = nm.rsplit("::", 1)[-1].split("<")[0]
            emptying = (nm.startswith("std::mem::") and tl in ("take", "replace", "swap")) or \
                ("Vec" in nm and tl in ("clear", "drain", "truncate", "retain", "split_off", "remove", "swap_remove", "pop"))
            if not emptying:
                continue
            tys = " ".join(f.local_ty(A.op_place(a)["l"]) for a in t["args"] if A.op_place(a) is not None)
            if "Vec<dns_types::protocol::types::ResourceRecord>" in tys:
                bad.append((A.short(key), tl, f.loc(b)))
    ctx.check(not bad, "C01.9", "local-records-kept", "no record list is emptied / moved out of in the resolver cluster (%d functions)" % n,
              "a record list is emptied by %s" % [(k, op) for k, op, _ in bad], bad[0][2] if bad else None)


def run(ctx):
    prog = ctx.prog
    _kept_rule(ctx)
    from ..core import RuleAlias
    if not isinstance(ctx, RuleAlias):
        from . import C09
        C09.run(RuleAlias(ctx, {"C09.8": "C01.10", "C09.5": "C01.10"}))
        from . import C12, C02
        C12.run(RuleAlias(ctx, {"C12.1": "C01.11", "C12.2": "C01.11"}))
        C02.run(RuleAlias(ctx, {"C02.1": "C01.11", "C02.3": "C01.11"}))
    ctx.rule("C01.1", "resolve_local: from 'a zone was found' every path to a cache read crosses a 'zone is not authoritative' edge")
    ctx.rule("C01.2", "resolve_local: a non-authoritative zone answer reaches the cache only for ANY questions or an empty answer; otherwise exactly the zone's records are returned")
    ctx.rule("C01.3", "prioritising_merge drops new records whose (name, type) is already present; every call passes local data first and cache/upstream data second")
    ctx.rule("C01.4", "Zones::get tries suffixes from the full name outwards and returns the first (longest) match")
    ctx.rule("C01.5", "recursive/forwarding resolvers return the local result as soon as it is Done: no upstream call reachable from that edge")
    ctx.rule("C01.6", "AuthoritativeNameError is built only from an authoritative zone's NameError; the NXDOMAIN rcode only from AuthoritativeNameError")
    ctx.rule("C01.7", "Authoritative results are built only in local.rs from the zone's own SOA; recursive/forwarding build only NonAuthoritative; AA set only in the authoritative arms")
    ctx.rule("C01.8", "names the zone owns are never answered with a referral built from the apex node's own NS records (shared with C02.5)")
    ctx.rule("C01.9", "the records found locally stay in the list they are merged from: in the recursive / forwarding resolvers no Vec<ResourceRecord> is emptied or moved out of (mem::take / replace / swap, clear, drain, truncate) - ORIGIN does not see such writes, so they are looked for explicitly")
    ctx.rule("C01.10", "the server keeps what the resolver marked authoritative: sections, AA and RCODE per result variant; SERVFAIL only for a reply with nothing in answer and authority (the rules of C09.8, decided here as well)")
    ctx.rule("C01.11", "what local data supplies is what the files define: merged zones keep every record of every file (C12.1, C12.2) and a zone hands its records out under the question's name (C02.1, C02.3) - so that the merge by (name, type) can keep upstream records out; the transport rewrites nothing of the reply but TC (C09.5, under C01.10)")
    ctx.decline("equality of the answer with an oracle for every zone set x cache x upstream")
    from . import C02
    C02.apex_rules(ctx, "C01.8")

    f = prog.fn(LOCAL)
    r = A.Resolver(f)
    c = A.Conds(f, r)
    gets = A.call_blocks(f, A.name_is(CGET))
    ctx.floor("C01.1", "cache reads in resolve_local", len(gets), 2)
    zone_found = c.edges_where(lambda fc: fc[0] == "is" and fc[1] == "Some" and A.peel(fc[2])[0] == "call" and A.peel(fc[2])[1] == Z + "Zones::resolve")
    ctx.floor("C01.1", "'zone found' edges", len(zone_found), 1, exact=True)
    nonauth = c.edges_where(lambda fc: (fc[0] == "is" and fc[1] == "None" and is_soa_probe(fc[2]))
                            or (fc[0] == "call" and fc[1] == Z + "Zone::is_authoritative" and fc[3] is False))
    ctx.floor("C01.1", "'zone is not authoritative' edges", len(nonauth), 3)
    for a, s in zone_found:
        for gb, gt in gets:
            ok = gb not in f.reachable(s, removed_edges=nonauth)
            ctx.check(ok, "C01.1", "resolve_local:auth-before-cache@get#%d" % gets.index((gb, gt)),
                      "with a zone selected, the cache is read only after `zone.soa_rr()` was None",
                      "the cache can be read for a name owned by an authoritative zone", f.loc(gb))
    # the soa probe is on the zone that was selected
    for a, s in nonauth:
        for fc in c.edge_facts(a, s):
            if fc[0] == "is" and is_soa_probe(fc[2]):
                zone = A.peel(fc[2])[2][0]
                ok = any(x[0] == "call" and x[1] == Z + "Zones::resolve" for x in A.walk(zone))
                ctx.check(ok, "C01.1", "resolve_local:soa-of-selected-zone@%s" % f.loc(a).split(":")[-1], "soa_rr() is asked of the zone Zones::resolve selected",
                          "authority is decided from %s, not the selected zone" % A.show(zone), f.loc(a))

    # ---------------------------------------------------------------- C01.2
    ans_edges = c.edges_where(lambda fc: fc[0] == "is" and fc[1] == "Answer")
    ctx.floor("C01.2", "ZoneResult::Answer arm", len(ans_edges), 1, exact=True)
    def wild(x):
        x = A.peel(x)
        return x[0] == "agg" and x[1] == T + "QueryType" and x[2] == "Wildcard"
    fall = c.edges_where(lambda fc: A.cmp_fact({"Eq"}, Path("param2.qtype"), wild)(fc)
                         or (fc[0] == "call" and A.is_empty_name(fc[1]) and fc[3] is True and A.last_field(fc[2][0]) == "rrs"))
    for a, s in ans_edges:
        for gb, gt in gets:
            ok = gb not in f.reachable(s, removed_edges=fall)
            ctx.check(ok, "C01.2", "resolve_local:nonauth-hit-returns@get#%d" % gets.index((gb, gt)),
                      "after a zone answer the cache is consulted only if qtype == ANY or the answer is empty",
                      "records of a non-authoritative zone can be mixed with cached records for a non-ANY question", f.loc(gb))
    # ... and only a non-empty one is final: an empty answer of a non-authoritative zone (a hosts / hints entry of the other
    # address family) must fall through to the cache, which may hold what was asked
    for b, i, st in A.aggregates(f, RR_, "NonAuthoritative"):
        e = r.rvalue(st["rv"], (b, i))
        src = A.peel(dict(e[3])["rrs"])
        if src[0] == "field" and src[1][0] == "downcast" and src[1][2] == "Answer":
            okn, _ = c.guarded(b, lambda fc: fc[0] == "call" and A.is_empty_name(fc[1]) and fc[3] is False and A.last_field(fc[2][0]) == "rrs")
            ctx.check(okn, "C01.2", "resolve_local:nonauth-final-only-if-nonempty", "a non-authoritative zone answer ends the look-up only when it holds records",
                      "an empty answer of a non-authoritative zone is returned as final (the cache is never asked)", f.loc(b, i))
    # what is returned early is the zone's answer itself
    for b, i, st in A.aggregates(f, RR_):
        e = r.rvalue(st["rv"], (b, i))
        d = dict(e[3])
        if "rrs" in d and A.path_str(d["rrs"]) is None and A.last_field(d["rrs"]) == "rrs":
            src = A.peel(d["rrs"])
            if src[0] == "field" and src[1][0] == "downcast" and src[1][2] == "Answer":
                ctx.ok("C01.2", "resolve_local:returns-zone-answer:%s" % e[2], "early return carries ZoneResult::Answer.rrs unchanged", f.loc(b, i))

    # ---------------------------------------------------------------- C01.3
    pm = prog.fn("dns_resolver::util::types::prioritising_merge")
    pr = A.Resolver(pm)
    pc = A.Conds(pm, pr)
    pushes = A.call_blocks(pm, A.name_endswith("Vec::<T, A>::push"))
    ctx.floor("C01.3", "push in prioritising_merge", len(pushes), 1, exact=True)
    for b, t in pushes:
        e = pr.call_expr(t, b)
        elem = A.path_str(e[2][1])
        def pred(fc, elem=elem):
            if not (fc[0] == "call" and fc[1].endswith("HashSet::<T, S, A>::contains") and fc[3] is False):
                return False
            key = A.peel(fc[2][1])
            if key[0] != "tuple" or len(key[1]) != 2:
                return False
            return A.path_str(key[1][0]) == elem + ".name" and bool(Call("RecordTypeWithData::rtype", Path(elem + ".rtype_with_data"))(key[1][1]))
        ok, _ = pc.guarded(b, pred)
        ctx.check(ok and A.path_str(e[2][0]) == "param1" and elem == "param2.[]", "C01.3", "prioritising_merge:push-guard",
                  "priority.push(rr) only if !seen.contains((rr.name, rr.rtype()))", "a new record is added although its (name, type) may already be present", pm.loc(b))
    ins = A.call_blocks(pm, A.name_endswith("HashSet::<T, S, A>::insert"))
    ctx.floor("C01.3", "seen.insert in prioritising_merge", len(ins), 1)
    for b, t in ins:
        e = pr.call_expr(t, b)
        key = A.peel(e[2][1])
        ok = key[0] == "tuple" and A.path_str(key[1][0]) == "param1.[].name" and bool(Call("RecordTypeWithData::rtype", Path("param1.[].rtype_with_data"))(key[1][1]))
        ok = ok and all(pm.dominates(b, pb) or True for pb, _ in pushes)
        ctx.check(ok, "C01.3", "prioritising_merge:seen-from-priority", "seen = {(name, type) of every priority record}",
                  "the seen-set is filled from %s" % A.show(e[2][1]), pm.loc(b))
        # the fill loop finishes before the merge loop starts
        for pb, _ in pushes:
            ctx.check(b not in pm.reachable(pb), "C01.3", "prioritising_merge:fill-before-merge", "seen is complete before the first push",
                      "seen is still being filled while records are merged", pm.loc(b))
    sites = A.who_calls(prog, "dns_resolver::util::types::prioritising_merge")
    ctx.floor("C01.3", "prioritising_merge call sites", len(sites), 6, exact=True)
    external = lambda x: x[0] == "call" and x[1] in (CGET, NSM + "query_nameserver") or (x[0] == "upvar" and x[1] == "nameserver_response") \
        or (x[0] == "call" and x[1] == REC + "get_record")
    for n, (fn, b, t) in enumerate(sites):
        rr = A.Resolver(fn)
        e = rr.call_expr(t, b)
        prio, new = e[2][0], e[2][1]
        p_ext = [x for x in A.walk(prio) if external(x)]
        n_ext = [x for x in A.walk(new) if external(x)]
        p_local = A.path_str(prio) == "^combined_rrs" or any(x[0] == "call" and x[1] in (Z + "Zones::resolve", LOCAL) for x in A.walk(prio))
        ctx.check(not p_ext and p_local and bool(n_ext), "C01.3", "merge-roles@%s#%d" % (A.short(fn.root_key), n),
                  "prioritising_merge(local records, cache/upstream records)",
                  "prioritising_merge(%s, %s): local data is not the priority side" % (A.show(prio)[:90], A.show(new)[:90]), fn.loc(b))

    # ---------------------------------------------------------------- C01.4
    for key, label_path in ((Z + "Zones::get", "param2.labels"), (REC + "candidate_nameservers", "param2.labels")):
        g = prog.fn(key)
        gr = A.Resolver(g)
        gc = A.Conds(g, gr)
        idxs = [(b, t) for b, t in g.calls() if (t.get("callee") or "").endswith("ops::Index::index")]
        okshape = False
        for b, t in idxs:
            e = gr.call_expr(t, b)
            rng = A.peel(e[2][1])
            if A.path_str(e[2][0]) == label_path and rng[0] == "agg" and rng[1] == "std::ops::RangeFrom":
                coll = A.ascending_index_of(dict(rng[3])["start"])      # `for i in 0..labels.len()` or `labels.iter().enumerate()`
                if coll is not None and A.path_str(coll) == label_path:
                    okshape = True
        ctx.check(okshape, "C01.4", "%s:suffix-order" % A.short(key), "candidates are labels[i..] for i = 0, 1, .. (longest suffix first)",
                  "zone/nameserver candidates are not enumerated from the longest suffix", g.loc())
        # the first hit ends the search: once the look-up for a candidate succeeded, the loop is not re-entered
        loop_blocks = set().union(*[body for _, body in g.loops()]) if g.loops() else set()
        if key.endswith("Zones::get"):
            hit = gc.edges_where(lambda fc: fc[0] == "is" and fc[1] == "Some" and A.peel(fc[2])[0] == "call" and A.peel(fc[2])[1].endswith("HashMap::<K, V, S, A>::get")
                                 and A.path_str(A.peel(fc[2])[2][0]) == "param1.zones")
            hit = [(a, s_) for a, s_ in hit if a in loop_blocks]
            ok = bool(hit) and all(not (A.reachable_tagged(g, s_) & {h_ for h_, _ in g.loops()}) for a, s_ in hit)
        else:
            somes = [b for b, e in A.return_exprs(g, gr) if A.peel(e)[0] == "agg" and A.peel(e)[2] == "Some"]
            ok = bool(somes) and all(not (g.reachable(b) & loop_blocks - {b}) for b in somes)
        ctx.check(ok, "C01.4", "%s:first-hit-returns" % A.short(key), "the first match leaves the loop",
                  "a match does not end the search (a shorter suffix could override it)", g.loc())
    zg = prog.fn(Z + "Zones::get")
    zgr = A.Resolver(zg)
    for b, e in A.return_exprs(zg, zgr):
        pe = A.peel(e)
        if pe[0] == "agg" and pe[2] == "Some":
            src = A.peel(dict(pe[3])["0"])
            ok = src[0] == "field" and src[1][0] == "downcast" and A.peel(src[1][1])[0] == "call" and A.peel(src[1][1])[1].endswith("HashMap::<K, V, S, A>::get") \
                and A.path_str(A.peel(src[1][1])[2][0]) == "param1.zones"
            ctx.check(ok, "C01.4", "Zones::get:lookup", "returns self.zones[candidate]", "returns %s" % A.show(e), zg.loc(b))
    zr_ = prog.fn(Z + "Zones::resolve")
    zrr = A.Resolver(zr_)
    zcalls = A.call_blocks(zr_, A.name_is(Z + "Zones::get"))
    ctx.check(len(zcalls) == 1, "C01.4", "Zones::resolve:uses-get", "Zones::resolve selects the zone through Zones::get", "Zones::resolve does not use Zones::get", zr_.loc())

    # ---------------------------------------------------------------- C01.5
    for root in (REC + "resolve_recursive_notimeout", FWD + "resolve_forwarding_notimeout"):
        g = prog.body_of(root)
        gr = A.Resolver(g)
        gc = A.Conds(g, gr)
        def is_lead(x):
            x = A.peel(x)
            return x[0] == "call" and x[1] == LOCAL and A.path_str(x[2][1]) == "^question"
        done = gc.edges_where(lambda fc: fc[0] == "is" and fc[1] == "Done" and any(is_lead(y) for y in A.walk(fc[2])))
        ctx.floor("C01.5", "Done edge in %s" % A.short(root), len(done), 1)
        ups = [(b, t) for b, t in g.calls() if (t.get("resolved") or t.get("callee")) in UPSTREAM]
        ctx.floor("C01.5", "upstream-reaching calls in %s" % A.short(root), len(ups), 1)
        for a, s in done:
            reach = g.reachable(s)
            bad = [b for b, t in ups if b in reach]
            ctx.check(not bad, "C01.5", "%s:done-shortcircuit" % A.short(root), "no upstream call reachable once local resolution is Done",
                      "after a Done local result the resolver can still go upstream (%s)" % [g.loc(b) for b in bad], g.loc(a))
            rets = [(b, e) for b, e in A.return_exprs(g, gr) if b in reach]
            okr = bool(rets) and all(A.peel(e)[0] == "agg" and A.peel(e)[2] == "Ok" and A.last_field(dict(A.peel(e)[3])["0"]) == "resolved" for b, e in rets)
            ctx.check(okr, "C01.5", "%s:done-returns-resolved" % A.short(root), "returns Ok(resolved) unchanged", "Done result is not returned as is", g.loc(a))
    top = prog.body_of("dns_resolver::resolve")
    tr = A.Resolver(top)
    tc = A.Conds(top, tr)
    lc_calls = A.call_blocks(top, A.name_is(LOCAL))
    ctx.floor("C01.5", "resolve_local call in resolve()", len(lc_calls), 1, exact=True)
    for b, t in lc_calls:
        others = [bb for bb, tt in top.calls() if (tt.get("resolved") or tt.get("callee")) in (REC + "resolve_recursive", FWD + "resolve_forwarding")]
        ok = all(bb not in top.reachable(b) and b not in top.reachable(bb) for bb in others)
        ctx.check(ok, "C01.5", "resolve:nonrecursive-is-local-only", "the non-recursive arm calls only resolve_local", "the non-recursive arm can reach an upstream resolver", top.loc(b))

    # ---------------------------------------------------------------- C01.6
    ane = A.who_constructs(prog, RR_, "AuthoritativeNameError")
    ctx.floor("C01.6", "AuthoritativeNameError constructions", len(ane), 1, exact=True)
    for fn, b, i, st in ane:
        ok_fn = fn.key == LOCAL
        cc = c if fn.key == LOCAL else A.Conds(fn)
        ok1, _ = cc.guarded(b, lambda fc: fc[0] == "is" and fc[1] == "NameError")
        ok2, _ = cc.guarded(b, lambda fc: fc[0] == "is" and fc[1] == "Some" and is_soa_probe(fc[2]))
        e = (r if fn.key == LOCAL else A.Resolver(fn)).rvalue(st["rv"], (b, i))
        soa = A.peel(dict(e[3])["soa_rr"])
        ok3 = soa[0] == "field" and soa[1][0] == "downcast" and is_soa_probe(soa[1][1])
        ctx.check(ok_fn and ok1 and ok2 and ok3, "C01.6", "who-constructs(AuthoritativeNameError)", "only for ZoneResult::NameError of a zone with a SOA, carrying that SOA",
                  "a name error can be produced without an authoritative zone's NameError", fn.loc(b, i))
    main = [fn for fn in prog.fns.values() if fn.target == "resolved.bin"]
    stores = []
    for fn in main:
        rr = None
        for b, i, kind, st in A.field_writes(fn, T + "Header", "rcode"):
            if kind != "store":
                continue
            rr = rr or A.Resolver(fn)
            e = A.peel(rr.rvalue(st["rv"], (b, i)))
            if e[0] == "agg" and e[2] == "NameError":
                stores.append((fn, b, i))
    ctx.floor("C01.6", "stores of Rcode::NameError in the server", len(stores), 1, exact=True)
    for fn, b, i in stores:
        ok, _ = A.Conds(fn).guarded(b, lambda fc: fc[0] == "is" and fc[1] == "AuthoritativeNameError")
        ctx.check(ok, "C01.6", "server:nxdomain-only-from-authoritative", "rcode = NameError only in the AuthoritativeNameError arm",
                  "NXDOMAIN can be sent without an AuthoritativeNameError", fn.loc(b, i))
    lib_ne = [x for x in A.who_constructs(prog, T + "Rcode", "NameError") if x[0].target in ("resolved.bin", "resolved.lib")]
    ctx.check(len(lib_ne) == 1, "C01.6", "server:one-nxdomain-site", "Rcode::NameError is built once in the server", "Rcode::NameError built at %d sites" % len(lib_ne))

    # ---------------------------------------------------------------- C01.7
    auth = A.who_constructs(prog, RR_, "Authoritative")
    ctx.floor("C01.7", "ResolvedRecord::Authoritative constructions", len(auth), 4)
    for n, (fn, b, i, st) in enumerate(auth):
        ok_file = fn.file.endswith("dns-resolver/src/local.rs")
        rr = A.Resolver(fn)
        e = rr.rvalue(st["rv"], (b, i))
        soa = A.peel(dict(e[3])["soa_rr"])
        how = None
        if soa[0] == "field" and soa[1][0] == "downcast":
            base = A.peel(soa[1][1])
            if is_soa_probe(base):
                how = "zone.soa_rr()"
            elif soa[1][2] in ("Authoritative", "AuthoritativeNameError") and soa[2] == "soa_rr":
                how = "nested authoritative result"
            elif soa[1][2] == "Some" and A.last_field(base) == "soa_rr":
                how = "delegation soa_rr"
        ctx.check(ok_file and how is not None, "C01.7", "authoritative#%d@%s" % (n, A.short(fn.key)), "soa_rr from %s" % how,
                  "Authoritative result built outside local.rs or with soa %s" % A.show(soa), fn.loc(b, i))
    for fn, b, i, st in A.who_constructs(prog, RR_):
        if fn.file.endswith("recursive.rs") or fn.file.endswith("forwarding.rs"):
            ctx.check(st["rv"]["variant"] == "NonAuthoritative", "C01.7", "nonauth-only@%s:%s" % (A.short(fn.root_key), st["rv"]["variant"]),
                      "recursive/forwarding build only NonAuthoritative", "%s built in %s" % (st["rv"]["variant"], fn.file), fn.loc(b, i))
    aa = []
    for fn in main:
        rr = None
        for b, i, kind, st in A.field_writes(fn, T + "Header", "is_authoritative"):
            if kind == "store":
                rr = rr or A.Resolver(fn)
                v = A.peel(rr.rvalue(st["rv"], (b, i)))
                if v[0] == "const" and v[2] in (True, 1):
                    aa.append((fn, b, i))
                elif v[0] != "const":
                    ctx.bad("C01.7", "server:aa-store-nonconst", "is_authoritative set from %s" % A.show(v), fn.loc(b, i))
    ctx.floor("C01.7", "AA = true stores in the server", len(aa), 2, exact=True)
    for fn, b, i in aa:
        ok, _ = A.Conds(fn).guarded(b, lambda fc: fc[0] == "is" and fc[1] in ("Authoritative", "AuthoritativeNameError"))
        ctx.check(ok, "C01.7", "server:aa-only-authoritative@%s" % fn.loc(b, i).split(":")[-1], "AA set only in an authoritative arm",
                  "AA can be set for a non-authoritative result", fn.loc(b, i))
