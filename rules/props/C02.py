"""C02 — zone lookup follows the standard authoritative-server algorithm (structural clauses)."""
from .. import analysis as A
from ..analysis import Call, Path, PathEnds, Param

T = "dns_types::protocol::types::"
Z = "dns_types::zones::types::"
RR = T + "ResourceRecord"
HELPER = Z + "zone_result_helper"
ZRR = Z + "ZoneRecords::resolve"


def map_closure_owner(prog, fn, res, e):
    """For a Vec built as `for zr in X { v.push(zr.to_rr(owner)) }` - which is also what
    `X.iter().map(|zr| zr.to_rr(owner)).collect()` is after normalisation - return (X, owner)."""
    fills = A.collection_fills(fn, res, e)
    if not fills or len(fills) != 1:
        return None
    b, args = fills[0]
    v = A.peel(args[0])
    if not (v[0] == "call" and v[1] == Z + "ZoneRecord::to_rr" and len(v[2]) == 2):
        return None
    zr, owner = v[2]
    src = A.iter_elem_source(zr)
    if src is None:
        return None
    return src, owner


def run(ctx):
    prog = ctx.prog
    QV_ALL = [v["name"] for v in prog.adt(T + "QueryType")["variants"]]
    ctx.rule("C02.1", "records leave the zone only through to_rr, which copies data and TTL; owner = query name for answers/CNAME, the delegating node's name for referrals")
    ctx.rule("C02.2", "zone_result_helper: referral (NS present, qtype != NS, node may delegate) before CNAME (qtype matches neither CNAME nor ANY) before answer")
    ctx.rule("C02.3", "answer arm per query type: ANY -> all record sets, Record(t) -> the set of t, anything else -> empty")
    ctx.rule("C02.4", "descent: child by last relative label and recurse on the shorter slice; wildcard only if no child; name error only if neither child, wildcard nor delegation")
    ctx.rule("C02.5", "a Delegation is never built from the records of the apex node")
    ctx.decline("correctness of the answer for every zone shape (which records a given zone holds is a run-time value)")

    # ---------------------------------------------------------------- C02.1
    f = prog.fn(Z + "ZoneRecord::to_rr")
    r = A.Resolver(f)
    aggs = list(A.aggregates(f, RR))
    ctx.floor("C02.1", "ResourceRecord in ZoneRecord::to_rr", len(aggs), 1, exact=True)
    for b, i, st in aggs:
        d = dict(r.rvalue(st["rv"], (b, i))[3])
        ok = A.path_str(d["name"]) == "param2" and A.path_str(d["rtype_with_data"]) == "param1.rtype_with_data" \
            and A.path_str(d["ttl"]) == "param1.ttl" and A.peel(d["rclass"])[0] == "agg" and A.peel(d["rclass"])[2] == "IN"
        ctx.check(ok, "C02.1", "ZoneRecord::to_rr", "{name: owner.clone(), data: self.data.clone(), ttl: self.ttl, class: IN}",
                  "to_rr builds %s" % {k: A.show(v) for k, v in d.items()}, f.loc(b, i))
    f = prog.fn(Z + "SOA::to_rr")
    r = A.Resolver(f)
    for b, i, st in A.aggregates(f, RR):
        d = dict(r.rvalue(st["rv"], (b, i))[3])
        ok = A.path_str(d["name"]) == "param2" and A.path_str(d["ttl"]) == "param1.minimum" and \
            bool(Call("SOA::to_rdata", Param(1))(d["rtype_with_data"]))
        ctx.check(ok, "C02.1", "SOA::to_rr", "{name: apex, data: to_rdata(), ttl: minimum}", "SOA::to_rr builds %s" % {k: A.show(v) for k, v in d.items()}, f.loc(b, i))
    f = prog.fn(Z + "SOA::to_rdata")
    r = A.Resolver(f)
    for b, i, st in A.aggregates(f, T + "RecordTypeWithData", "SOA"):
        d = dict(r.rvalue(st["rv"], (b, i))[3])
        ok = all(A.path_str(v) == "param1." + k for k, v in d.items()) and len(d) == 7
        ctx.check(ok, "C02.1", "SOA::to_rdata", "field-for-field copy", "SOA::to_rdata builds %s" % {k: A.show(v) for k, v in d.items()}, f.loc(b, i))
    cons = [x for x in A.who_constructs(prog, RR) if x[0].file.endswith("zones/types.rs")]
    where = sorted({x[0].key for x in cons})
    ctx.check(where == [Z + "SOA::to_rr", Z + "ZoneRecord::to_rr"], "C02.1", "who-constructs(ResourceRecord)@zones/types.rs",
              "only the two to_rr converters", "ResourceRecord built in %s" % where)

    h = prog.fn(HELPER)
    hr = A.Resolver(h)
    hc = A.Conds(h, hr)
    zr = prog.fn(ZRR)
    zrr = A.Resolver(zr)
    zc = A.Conds(zr, zrr)
    results = []
    for fn, res in ((h, hr), (zr, zrr)):
        for b, i, st in A.aggregates(fn, Z + "ZoneResult"):
            results.append((fn, res, b, i, st, res.rvalue(st["rv"], (b, i))))
    ctx.floor("C02.1", "ZoneResult constructions", len(results), 4)
    for fn, res, b, i, st, e in results:
        var = e[2]
        d = dict(e[3])
        name_owner = "param1" if fn is h else "param2"
        if var == "Delegation":
            mo = map_closure_owner(prog, fn, res, d["ns_rrs"])
            want = "param4" if fn is h else "param1.nsdname"
            ok = mo is not None and A.path_str(mo[1]) == want
            src_ok = mo is not None and any(x[0] == "call" and x[1].endswith("HashMap::<K, V, S, A>::get") and A.peel(x[2][1])[0] == "agg" and A.peel(x[2][1])[2] == "NS"
                                           for x in A.walk(mo[0]))
            ctx.check(ok and src_ok, "C02.1", "%s:Delegation:records" % A.short(fn.key), "ns_rrs = NS set of the node, owner = the node's name",
                      "referral records built from %s with owner %s" % (A.show(mo[0])[:80] if mo else "?", A.show(mo[1]) if mo and mo[1] else "?"), fn.loc(b, i))
        elif var == "CNAME":
            rr = A.peel(d["rr"])
            ok = rr[0] == "call" and rr[1] == Z + "ZoneRecord::to_rr" and A.path_str(rr[2][1]) == name_owner
            idx0 = any(x[0] == "call" and x[1].endswith("HashMap::<K, V, S, A>::get") and A.peel(x[2][1])[0] == "agg" and A.peel(x[2][1])[2] == "CNAME"
                       for x in A.walk(rr))
            tgt = A.path_str(d["cname"])
            ctx.check(ok and idx0 and A.last_field(d["cname"]) == "cname" and any(y == rr for y in A.walk(A.peel(d["cname"]))) , "C02.1",
                      "%s:CNAME:record" % A.short(fn.key), "rr = records[CNAME][..].to_rr(query name), cname = that record's target",
                      "CNAME result built as rr=%s cname=%s" % (A.show(rr)[:100], A.show(d["cname"])[:100]), fn.loc(b, i))
        elif var == "Answer":
            pass  # C02.3
    # "of the asked type": RecordType::matches - ANY matches everything, a concrete type only itself, AXFR/MAILA/MAILB nothing
    mt = prog.fn(T + "RecordType::matches")
    mtr = A.Resolver(mt)
    mtc = A.Conds(mt, mtr)
    tab = {}
    for b_, e_ in A.return_exprs(mt, mtr):
        pv = A.possible_variants(mt, mtc, lambda x: A.peel(x) == ("param", 2), QV_ALL, b_)
        pe_ = A.peel(e_)
        if pe_[0] == "const":
            val = pe_[2]
        elif pe_[0] == "call" and (pe_[4] or pe_[1]).endswith("PartialEq::eq") and {A.path_str(pe_[2][0]), A.path_str(pe_[2][1])} == {"param2.<Record>.0", "param1"}:
            val = "eq"
        else:
            val = A.show(pe_)[:60]
        for v in pv:
            tab[v] = val
    want_tab = {v: False for v in QV_ALL}
    want_tab.update({"Wildcard": True, "Record": "eq"})
    ctx.check(tab == want_tab, "C02.3", "RecordType::matches:table", "ANY -> true; a type -> equal to it; other query types -> false", "RecordType::matches table is %s" % tab, mt.loc())

    # ---------------------------------------------------------------- C02.2
    deleg = [(b, i) for fn, _, b, i, _, e in results if fn is h and e[2] == "Delegation"]
    cname = [(b, i) for fn, _, b, i, _, e in results if fn is h and e[2] == "CNAME"]
    answers = [(b, i, e) for fn, _, b, i, _, e in results if fn is h and e[2] == "Answer"]
    ctx.floor("C02.2", "Delegation in zone_result_helper", len(deleg), 1, exact=True)
    ctx.floor("C02.2", "CNAME in zone_result_helper", len(cname), 1, exact=True)
    ctx.floor("C02.3", "Answer constructions in zone_result_helper", len(answers), 1)
    def get_of(variant):
        return lambda fc: fc[0] == "is" and fc[1] == "Some" and A.peel(fc[2])[0] == "call" and A.peel(fc[2])[1].endswith("HashMap::<K, V, S, A>::get") \
            and A.path_str(A.peel(fc[2])[2][0]) == "param3" and A.peel(A.peel(fc[2])[2][1])[0] == "agg" and A.peel(A.peel(fc[2])[2][1])[2] == variant
    def nonempty(fc):
        if fc[0] == "call" and (fc[1].endswith("Vec::<T, A>::is_empty") or fc[1].endswith("<impl [T]>::is_empty")) and fc[3] is False:
            return True            # (`first()` / `last()` / `split_last()` normalise to the slice form)
        # `zrs.first()` is Some / `zrs.get(0)` is Some: the set is not empty either
        if fc[0] == "is" and fc[1] == "Some":
            pe = A.peel(fc[2])
            return pe[0] == "call" and (pe[1].endswith("<impl [T]>::first") or pe[1].endswith("<impl [T]>::last"))
        return False
    def ns_q(x):
        x = A.peel(x)
        return x[0] == "agg" and x[2] == "Record" and A.peel(dict(x[3])["0"])[2] == "NS"
    for b, i in deleg:
        oks = [hc.guarded(b, get_of("NS"))[0], hc.guarded(b, nonempty)[0],
               hc.guarded(b, A.cmp_fact({"Ne"}, ns_q, Path("param2")))[0],
               hc.guarded(b, lambda fc: fc[0] == "truth" and A.peel(fc[1]) == ("param", 5) and fc[2] is True)[0]]
        ctx.check(all(oks), "C02.2", "helper:delegation-guards", "Delegation iff may_delegate && qtype != NS && non-empty NS set",
                  "Delegation guards missing (NS-present, non-empty, qtype != NS, may_delegate) = %s" % oks, h.loc(b, i))
    # ... and conversely: an Answer is built only where no CNAME applies - behind `CNAME.matches(qtype)`, a missing CNAME
    # set or an empty one (no further condition lets a question slip past an alias the name has)
    cname_absent = lambda fc: (fc[0] == "is" and fc[1] == "None" and A.peel(fc[2])[0] == "call" and A.peel(fc[2])[1].endswith("HashMap::<K, V, S, A>::get")
                               and A.path_str(A.peel(fc[2])[2][0]) == "param3" and A.peel(A.peel(fc[2])[2][1])[0] == "agg" and A.peel(A.peel(fc[2])[2][1])[2] == "CNAME")
    cname_empty = lambda fc: fc[0] == "call" and (fc[1].endswith("Vec::<T, A>::is_empty") or fc[1].endswith("<impl [T]>::is_empty")) and fc[3] is True \
        and any(x[0] == "call" and x[1].endswith("HashMap::<K, V, S, A>::get") and A.peel(x[2][1])[0] == "agg" and A.peel(x[2][1])[2] == "CNAME" for x in A.walk(fc[2][0]))
    cname_asked = lambda fc: fc[0] == "call" and fc[1] == T + "RecordType::matches" and fc[3] is True and A.peel(fc[2][0])[2] == "CNAME" and A.peel(fc[2][1]) == ("param", 2)
    for n_, (fn_, _k, b, i, _x, e_) in enumerate([r_ for r_ in results if r_[0] is h and r_[5][2] == "Answer"]):
        okc, _ = hc.guarded(b, lambda fc: cname_absent(fc) or cname_empty(fc) or cname_asked(fc))
        ctx.check(okc, "C02.2", "helper:answer-only-without-cname#%d" % n_, "an Answer only if CNAME / ANY was asked or the name has no CNAME",
                  "an Answer can be returned for a name that has a CNAME although neither CNAME nor ANY was asked", h.loc(b, i))
    for b, i in cname:
        oks = [hc.guarded(b, get_of("CNAME"))[0], hc.guarded(b, nonempty)[0],
               hc.guarded(b, lambda fc: fc[0] == "call" and fc[1] == T + "RecordType::matches" and fc[3] is False and A.peel(fc[2][0])[2] == "CNAME" and A.peel(fc[2][1]) == ("param", 2))[0]]
        ctx.check(all(oks), "C02.2", "helper:cname-guards", "CNAME iff !CNAME.matches(qtype) && non-empty CNAME set",
                  "CNAME guards missing (present, non-empty, !matches) = %s" % oks, h.loc(b, i))
    gets = {}
    for b, t in A.call_blocks(h, A.name_endswith("HashMap::<K, V, S, A>::get")):
        k = A.peel(hr.call_expr(t, b)[2][1])
        if k[0] == "agg":
            gets[k[2]] = b
    if "NS" in gets and "CNAME" in gets:
        ok = gets["NS"] not in h.reachable(gets["CNAME"]) and all(gets["CNAME"] not in h.reachable(ab) for ab, _, _ in answers)
        ctx.check(ok, "C02.2", "helper:precedence", "NS lookup, then CNAME lookup, then the answer", "lookup order is not NS -> CNAME -> answer", h.loc())
    else:
        ctx.bad("C02.2", "helper:precedence", "NS / CNAME lookups not found", h.loc())

    # ---------------------------------------------------------------- C02.3
    # what the answer's record list holds, per query-type class - whichever way the three cases are written
    # (three `Answer {..}` constructions, or one construction fed by a `match`, loops or iterator chains)
    QV = [v["name"] for v in prog.adt(T + "QueryType")["variants"]]
    def content_of(vec_e, depth=0):
        """{(source, owner path)} of the `zr.to_rr(owner)` records a freshly created Vec receives; source = 'values' (every
        record set of the node) or 'get:<key path>' (one record set)"""
        out = set()
        fills = A.collection_fills(h, hr, vec_e) or []
        for fb, args in fills:
            v = A.peel(args[0])
            if v[0] == "call" and v[1] == Z + "ZoneRecord::to_rr" and len(v[2]) == 2:
                src = A.iter_elem_source(v[2][0])
                kinds = set()
                for x in A.walk(src if src is not None else v[2][0]):
                    if x[0] == "call" and x[1].endswith("HashMap::<K, V, S, A>::values") and A.path_str(x[2][0]) == "param3":
                        kinds.add("values")
                    if x[0] == "call" and x[1].endswith("HashMap::<K, V, S, A>::get") and A.path_str(x[2][0]) == "param3":
                        kinds.add("get:%s" % A.path_str(x[2][1]))
                out.add((",".join(sorted(kinds)) or "?", A.path_str(v[2][1])))
            else:
                out.add(("?" + A.show(v)[:40], None))
        site = A.fresh_collection_site(vec_e)
        if site is not None and depth < 2:
            for ab, at in A.vec_tail_appends(h):
                ae = hr.call_expr(at, ab)
                if A.fresh_collection_site(ae[2][0]) == site:
                    out |= content_of(ae[2][1], depth + 1)          # rrs.append(&mut inner): what inner holds
        return out
    leaves = []
    for b, i, e in answers:
        st_ = h.blocks[b]["stmts"][i]
        op = dict(zip(st_["rv"].get("fields", []), st_["rv"].get("ops", []))).get("rrs")
        l_ = A.root_local(h, op) if op is not None else None
        srcs = []
        if l_ is not None:
            for d in h.defs().get(l_, []):
                if d[2] != "partial":
                    srcs.extend(A.value_sources(h, hr, d))
        if not srcs:
            srcs = [(b, dict(e[3])["rrs"])]
        for sb, se in srcs:
            pe = A.peel(A.deep_payload(se))
            alts = pe[1] if pe[0] == "phi" else [pe]
            for a in alts:
                site = A.fresh_collection_site(a)
                lb = site[1] if site is not None and site[0] == h.key else sb
                leaves.append((lb, a, (b, i)))
    arms = {}
    for lb, a, (b, i) in leaves:
        pv = A.possible_variants(h, hc, lambda x: A.peel(x) == ("param", 2), QV, lb)
        cls = "Wildcard" if pv == ["Wildcard"] else ("Record" if pv == ["Record"] else ("other" if pv and "Wildcard" not in pv and "Record" not in pv else "mixed:%s" % pv))
        cont = content_of(a) if A.fresh_collection_site(a) is not None else {("?" + A.show(a)[:40], None)}
        arms.setdefault(cls, []).append((cont, lb, (b, i)))
    okw = bool(arms.get("Wildcard")) and all(c == {("values", "param1")} for c, _, _ in arms.get("Wildcard", []))
    ctx.check(okw, "C02.3", "helper:answer:ANY", "all record sets of the node, owner = query name", "ANY answer is built from %s" % [sorted(map(str, c)) for c, _, _ in arms.get("Wildcard", [])], h.loc())
    rec_c = [c for c, _, _ in arms.get("Record", [])]
    okr = bool(rec_c) and all(c in (set(), {("get:param2.<Record>.0", "param1")}) for c in rec_c) and any(c for c in rec_c)
    ctx.check(okr, "C02.3", "helper:answer:Record", "records[qtype's record type], owner = query name, else empty", "typed answer is built from %s" % [sorted(map(str, c)) for c in rec_c], h.loc())
    oko = bool(arms.get("other")) and all(not c for c, _, _ in arms.get("other", []))
    ctx.check(oko, "C02.3", "helper:answer:other", "AXFR/MAILA/MAILB -> empty answer", "other query types answer %s" % [sorted(map(str, c)) for c, _, _ in arms.get("other", [])], h.loc())
    ctx.check(set(arms) == {"Wildcard", "Record", "other"}, "C02.3", "helper:answer:arms", "three answer classes (ANY, typed, other)", "answer classes found: %s" % sorted(arms), h.loc())

    # ---------------------------------------------------------------- C02.4
    rec = A.call_blocks(zr, A.name_is(ZRR))
    ctx.floor("C02.4", "recursive descent call", len(rec), 1, exact=True)
    child_some = lambda fc: fc[0] == "is" and fc[1] == "Some" and A.peel(fc[2])[0] == "call" and A.peel(fc[2])[1].endswith("HashMap::<K, V, S, A>::get") \
        and A.path_str(A.peel(fc[2])[2][0]) == "param1.children"
    child_none = lambda fc: fc[0] == "is" and fc[1] == "None" and A.peel(fc[2])[0] == "call" and A.path_str(A.peel(fc[2])[2][0]) == "param1.children"
    def last_label(x):
        x = A.peel(x)
        if x[0] != "index" or A.path_str(x[1]) != "param4":
            return False
        i = A.arith(x[2])
        return i is not None and i[1] == "Sub" and bool(Call("len", Param(4))(i[2])) and A.peel(i[3])[2] == 1
    for b, t in rec:
        e = zrr.call_expr(t, b)
        if len(e[2]) != 5:
            ctx.bad("C02.5", "descent:no-apex-flag", "ZoneRecords::resolve has no 'at apex' argument: a referral can be built from the apex node's own NS records", zr.loc(b))
            continue
        child, name, qtype, rel, apex = [A.deep_payload(x) for x in e[2]]
        pc = A.peel(child)
        ok_child = pc[0] == "field" and pc[1][0] == "downcast" and pc[1][2] == "Some" and A.peel(pc[1][1])[0] == "call" \
            and A.path_str(A.peel(pc[1][1])[2][0]) == "param1.children" and last_label(A.peel(pc[1][1])[2][1])
        ss = A.subslice(rel)
        ok_rel = ss is not None and A.path_str(ss[0]) == "param4" and (ss[1] is None or A.peel(ss[1])[2] == 0)
        ok_rest = A.peel(name) == ("param", 2) and A.peel(qtype) == ("param", 3) and A.peel(apex)[0] == "const" and A.peel(apex)[2] in (False, 0)
        end = A.arith(ss[2]) if ok_rel and ss[2] is not None else None
        ok_end = ok_rel and end is not None and end[1] == "Sub"
        ctx.check(ok_child and ok_rel and ok_end and ok_rest, "C02.4", "descent:recursive-call", "children[relative[len-1]].resolve(name, qtype, &relative[0..len-1], false)",
                  "recursive descent is called with (%s)" % ", ".join(A.show(x)[:70] for x in e[2]), zr.loc(b))
        okg, _ = zc.guarded(b, child_some)
        ctx.check(okg, "C02.4", "descent:recurse-on-child", "recursion only into an existing child", "recursion without a child lookup hit", zr.loc(b))
    wild = [b for b in zr.live_blocks() for st in zr.stmts(b) if st["k"] == "assign" and st["rv"]["k"] == "discr" and
            A.path_str(zrr.place(st["rv"]["place"], (b, 0))) == "param1.wildcards"]
    ctx.floor("C02.4", "wildcard test", len(wild), 1)
    for b in wild:
        okw, _ = zc.guarded(b, child_none)
        ctx.check(okw, "C02.4", "descent:wildcard-only-without-child", "wildcards consulted only if no child matched", "wildcards can shadow an existing child", zr.loc(b))
    ne = [(b, i) for fn, _, b, i, _, e in results if fn is zr and e[2] == "NameError"]
    ctx.floor("C02.4", "NameError constructions", len(ne), 1)
    wild_none = lambda fc: fc[0] == "is" and fc[1] == "None" and A.path_str(fc[2]) == "param1.wildcards"
    for n, (b, i) in enumerate(ne):
        ok1, _ = zc.guarded(b, child_none)
        ok2, _ = zc.guarded(b, wild_none)
        ok3, _ = zc.guarded(b, lambda fc: fc[0] == "call" and fc[1].endswith("is_empty") and "slice" in fc[1] and fc[3] is False and A.peel(fc[2][0]) == ("param", 4))
        ctx.check(ok1 and ok2 and ok3, "C02.4", "descent:name-error#%d" % n, "NameError only if labels remain, no child and no wildcard",
                  "NameError reachable although a child / wildcard / exact match exists", zr.loc(b, i))
    helper_calls = A.call_blocks(zr, A.name_is(HELPER))
    ctx.floor("C02.4", "zone_result_helper calls", len(helper_calls), 2, exact=True)
    for b, t in helper_calls:
        e = zrr.call_expr(t, b)
        recs = A.path_str(e[2][2])
        # the records handed out are owned by the name that was asked for (also when a wildcard is expanded), and the
        # delegation point is this node
        ctx.check(A.peel(e[2][0]) == ("param", 2) and A.peel(e[2][1]) == ("param", 3) and (A.path_str(e[2][3]) == "param1.nsdname" or recs != "param1.this"), "C02.1",
                  "helper-call:owner@%s" % ("this" if recs == "param1.this" else "wildcard"), "zone_result_helper(query name, qtype, records, this node's name, ..)",
                  "zone_result_helper is called with name=%s qtype=%s node=%s" % (A.show(e[2][0])[:40], A.show(e[2][1])[:30], A.show(e[2][3])[:40]), zr.loc(b))
        if recs == "param1.this":
            okx, _ = zc.guarded(b, lambda fc: fc[0] == "call" and fc[1].endswith("is_empty") and fc[3] is True and A.peel(fc[2][0]) == ("param", 4))
            ctx.check(okx and A.path_str(e[2][3]) == "param1.nsdname", "C02.4", "descent:exact-match", "own records used only when no label remains",
                      "node records used although labels remain", zr.loc(b))
        else:
            okx, _ = zc.guarded(b, lambda fc: fc[0] == "is" and fc[1] == "Some" and A.path_str(fc[2]) == "param1.wildcards")
            okc, _ = zc.guarded(b, child_none)
            ctx.check(okx and okc and recs == "param1.wildcards.<Some>.0", "C02.4", "descent:wildcard-match", "wildcard set used for a non-existent child",
                      "wildcard branch passes %s" % A.show(e[2][2]), zr.loc(b))
    # Zone::relative_domain / Zone::resolve
    rd = prog.fn(Z + "Zone::relative_domain")
    rdr = A.Resolver(rd)
    rdc = A.Conds(rd, rdr)
    for b, e in A.return_exprs(rd, rdr):
        pe = A.peel(e)
        if pe[0] == "agg" and pe[2] == "Some":
            ok, _ = rdc.guarded(b, lambda fc: fc[0] == "call" and fc[1] == T + "DomainName::is_subdomain_of" and fc[3] is True and A.peel(fc[2][0]) == ("param", 2)
                                and A.path_str(fc[2][1]) == "param1.apex")
            ss = A.subslice(dict(pe[3])["0"])
            shape = ss is not None and A.path_str(ss[0]) == "param2.labels" and (ss[1] is None or A.peel(ss[1])[2] == 0)
            end = A.arith(ss[2]) if shape and ss[2] is not None else None
            ok_end = shape and end is not None and end[1] == "Sub" \
                and bool(Call("len", Path("param2.labels"))(end[2])) and bool(Call("len", Path("param1.apex.labels"))(end[3]))
            ctx.check(ok and ok_end, "C02.4", "relative_domain", "labels[0 .. len(name) - len(apex)] under is_subdomain_of(apex)",
                      "relative_domain returns %s" % A.show(e)[:150], rd.loc(b))
    apex_rules(ctx, "C02.5")


def apex_rules(ctx, rule):
    """no referral is built from the apex node's own NS records (shared: C02.5, C01.8)."""
    prog = ctx.prog
    h = prog.fn(HELPER)
    hr = A.Resolver(h)
    hc = A.Conds(h, hr)
    zr = prog.fn(ZRR)
    zrr = A.Resolver(zr)
    zc = A.Conds(zr, zrr)
    results = []
    for fn, res in ((h, hr), (zr, zrr)):
        for b, i, st in A.aggregates(fn, Z + "ZoneResult"):
            results.append((fn, res, b, i, st, res.rvalue(st["rv"], (b, i))))
    helper_calls = A.call_blocks(zr, A.name_is(HELPER))
    zres = prog.fn(Z + "Zone::resolve")
    # `relative_domain(name).map(|relative| self.records.resolve(..))`: after normalisation the call sits in
    # Zone::resolve itself; a closure that was not spliced is looked at as well
    clos = prog.family(Z + "Zone::resolve")
    ok = False
    for cf in clos:
        cr = A.Resolver(cf)
        for b, t in A.call_blocks(cf, A.name_is(ZRR)):
            e = cr.call_expr(t, b)
            if len(e[2]) != 5:
                continue
            ap = A.peel(e[2][4])
            rel = A.peel(e[2][3])
            rel_ok = rel == ("param", 2) or any(x[0] == "call" and x[1].endswith("Zone::relative_domain") for x in A.walk(rel))
            ok = rel_ok and ap[0] == "const" and ap[2] in (True, 1) and A.last_field(e[2][0]) == "records"
            ctx.check(ok, rule, "Zone::resolve:starts-at-apex", "records.resolve(name, qtype, relative, at_apex = true)",
                      "Zone::resolve starts the descent with %s" % [A.show(x) for x in e[2]], cf.loc(b))
    ctx.check(ok, rule, "Zone::resolve:found", "descent entry found", "Zone::resolve does not call ZoneRecords::resolve", zres.loc())

    # ---------------------------------------------------------------- C02.5
    for fn, res, b, i, st, e in results:
        if e[2] != "Delegation":
            continue
        cc = hc if fn is h else zc
        if fn is h:
            ok, _ = cc.guarded(b, lambda fc: fc[0] == "truth" and A.peel(fc[1]) == ("param", 5) and fc[2] is True)
        else:
            ok, _ = cc.guarded(b, lambda fc: fc[0] == "truth" and A.peel(fc[1]) == ("param", 5) and fc[2] is False)
        ctx.check(ok, rule, "%s:delegation-not-at-apex" % A.short(fn.key), "Delegation control-dependent on 'this is not the apex node'",
                  "a referral can be built from the apex node's own NS records", fn.loc(b, i))
    for b, t in helper_calls:
        e = zrr.call_expr(t, b)
        if len(e[2]) != 5:
            ctx.bad(rule, "helper-call:no-flag", "zone_result_helper has no may_delegate argument", zr.loc(b))
            continue
        flag = A.peel(e[2][4])
        recs = A.path_str(e[2][2])
        if recs == "param1.this":
            ok = flag[0] == "un" and flag[1] == "Not" and A.peel(flag[2]) == ("param", 5)
        else:
            ok = flag[0] == "const" and flag[2] in (True, 1)
        ctx.check(ok, rule, "helper-call:%s" % ("exact" if recs == "param1.this" else "wildcard"), "may_delegate = %s" % ("!at_apex" if recs == "param1.this" else "true (wildcard set)"),
                  "zone_result_helper called with may_delegate = %s" % A.show(flag), zr.loc(b))
    outside = [x for x in A.who_constructs(prog, Z + "ZoneResult", "Delegation") if x[0].key not in (HELPER, ZRR)]
    ctx.check(not outside, rule, "who-constructs(ZoneResult::Delegation)", "only the two lookup functions", "Delegation built in %s" % [x[0].key for x in outside])
