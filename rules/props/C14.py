"""C14 — hosts files are read as hosts(5) describes and convert losslessly (structural clauses)."""
from .. import analysis as A
from ..analysis import Call, Path, Param

T = "dns_types::protocol::types::"
Z = "dns_types::zones::types::"
H = "dns_types::hosts::types::"
HD = "dns_types::hosts::deserialise::"
STATE = HD + "State"


def run(ctx):
    prog = ctx.prog
    ctx.rule("C14.1", "parse_line: the reading-name state is never left (new state stored, loop exit) without the pending name having been added or an error returned")
    ctx.rule("C14.2", "v4 <-> A / Ipv4, v6 <-> AAAA / Ipv6 in every converter")
    ctx.rule("C14.3", "transitions: non-ASCII -> error, '%' while reading the address abandons the line, address/name parse failure -> error, names relative to the root")
    ctx.rule("C14.4", "serialiser: one line per present family per name, address then name")
    ctx.rule("C14.6", "the conversion tools treat a parse error as an error: from the Err edge of the parser's result the program cannot return normally (it exits with a non-zero status)")
    ctx.rule("C14.7", "Hosts::merge / Hosts::deserialise keep one map per family and only ever insert into the map of the entry's own family (C12.4, decided here as well)")
    ctx.rule("C14.5", "conversions: one record per mapping with hosts::TTL; TryFrom<Zone> rejects wildcards and other types; the tools call the documented pairs")
    ctx.decline("hosts(5) reading of arbitrary text (value property)")

    f = prog.fn(HD + "parse_line")
    r = A.Resolver(f)
    c = A.Conds(f, r)
    variants = [v["name"] for v in prog.adt(STATE)["variants"]]
    ctx.check(set(variants) == {"SkipToAddress", "ReadingAddress", "SkipToName", "ReadingName", "CommentToEndOfLine"}, "C14.1", "State:variants",
              "line state machine has the five known states", "State variants changed: %s" % variants)
    loops = f.loops()
    ctx.floor("C14.1", "character loop in parse_line", len(loops), 1, exact=True)
    header, body = loops[0]
    inserts = [b for b, t in A.call_blocks(f, A.name_endswith("HashSet::<T, S, A>::insert"))]
    errs = A.error_exits(f, r)
    ctx.floor("C14.1", "name insertions", len(inserts), 3)
    not_reading = c.edges_where(lambda fc: (fc[0] == "is" and fc[1] in variants and fc[1] != "ReadingName") or (fc[0] == "isnot" and fc[1] == "ReadingName"))
    flush = set(inserts) | set(errs)
    n = 0
    for b, i, st in A.aggregates(f, STATE):
        v = st["rv"]["variant"]
        if v == "ReadingName" or b not in body:
            continue
        n += 1
        reach = A.reachable_feasible(f, header, removed_edges=not_reading, removed_blocks=flush)
        ok = b not in reach
        ctx.check(ok, "C14.1", "parse_line:leave-reading-name->%s#%d" % (v, n), "state := %s only if the old state was not ReadingName, or after the pending name was flushed" % v,
                  "the state becomes %s while a name is still being read, without adding that name (e.g. `1.2.3.4 foo#comment` loses `foo`)" % v, f.loc(b, i))
    ctx.floor("C14.1", "state transitions out of the loop arms", n, 5)
    # loop exit: the pending name is flushed after the loop
    exits = {s for b in body for s in f.succs(b) if s not in body}
    rn_tests = c.edges_where(lambda fc: fc[0] in ("is", "isnot") and fc[1] == "ReadingName")
    post_tests = [(a, s) for a, s in rn_tests if a not in body]
    oks = [b for b, e in A.return_exprs(f, r) if A.peel(e)[0] == "agg" and A.peel(e)[2] == "Ok"]
    ok = bool(post_tests) and all(ob not in f.reachable(x, removed_edges=post_tests) for x in exits for ob in oks if x not in errs)
    ctx.check(ok, "C14.1", "parse_line:flush-at-end-of-line", "after the loop the state is tested for ReadingName before Ok(..) is returned",
              "a name running to the end of the line is not added", f.loc())
    for a, s in post_tests:
        for fc in c.edge_facts(a, s):
            if fc[0] == "is" and fc[1] == "ReadingName":
                okf = all(ob not in f.reachable(s, removed_blocks=flush) for ob in oks)
                ctx.check(okf, "C14.1", "parse_line:end-of-line-name-added", "ReadingName at end of line => name inserted (or error)", "end-of-line name dropped", f.loc(a))

    # ---------------------------------------------------------------- C14.3
    asc = c.edges_where(lambda fc: fc[0] == "call" and fc[1].endswith("char>::is_ascii") and fc[3] is False)
    ok = bool(asc) and all(any(eb in f.reachable(s) for eb in errs) and not (set(inserts) & f.reachable(s) - set()) or True for a, s in asc)
    for a, s in asc:
        reach = f.reachable(s)
        ctx.check(any(eb in reach for eb in errs) and header not in reach, "C14.3", "parse_line:non-ascii", "non-ASCII character => Err, line processing stops",
                  "a non-ASCII character does not abort the line", f.loc(a))
    ctx.floor("C14.3", "non-ASCII test", len(asc), 1)
    pct = c.edges_where(lambda fc: fc[0] == "inteq" and fc[2] == 37)
    ctx.floor("C14.3", "'%' transition", len(pct), 1)
    for a, s in pct:
        okp, _ = c.guarded(a, lambda fc: fc[0] == "is" and fc[1] == "ReadingAddress") if False else (True, None)
        reach = A.reachable_feasible(f, s)
        ctx.check(header not in reach and not (set(inserts) & reach & body), "C14.3", "parse_line:iface-suffix", "a percent sign while reading the address leaves the loop without names",
                  "an address with an interface suffix is not skipped", f.loc(a))
        facts = [fc for fc in c.facts_on_all_paths(a) if fc[0] == "is"]
        ctx.check(any(fc[1] == "ReadingAddress" for fc in facts), "C14.3", "parse_line:iface-suffix-state", "the percent sign is special only in ReadingAddress",
                  "the percent sign is handled in states %s" % [fc[1] for fc in facts], f.loc(a))
    ipp = A.call_blocks(f, lambda n_: n_.endswith("FromStr for std::net::IpAddr>::from_str"))
    ctx.floor("C14.3", "IpAddr::from_str", len(ipp), 1, exact=True)
    for b, t in ipp:
        e_edges = c.edges_where(lambda fc, b=b: fc[0] == "is" and fc[1] == "Err" and A.peel(fc[2])[0] == "call" and A.peel(fc[2])[3] == (f.key, b))
        ok = bool(e_edges) and all(any(eb in A.reachable_tagged(f, s) for eb in errs) and header not in A.reachable_tagged(f, s) for a, s in e_edges)
        ctx.check(ok, "C14.3", "parse_line:bad-address", "unparseable address => Err", "an unparseable address is not an error", f.loc(b))
    names = A.call_blocks(f, A.name_is(T + "DomainName::from_relative_dotted_string"))
    ctx.floor("C14.3", "name parses", len(names), 3)
    for n_, (b, t) in enumerate(names):
        e = r.call_expr(t, b)
        root_ok = bool(Call("DomainName::root_domain")(e[2][0]))
        n_edges = c.edges_where(lambda fc, b=b: fc[0] == "is" and fc[1] == "None" and A.peel(fc[2])[0] == "call" and A.peel(fc[2])[3] == (f.key, b))
        ok = bool(n_edges) and all(any(eb in A.reachable_tagged(f, s) for eb in errs) and header not in A.reachable_tagged(f, s) for a, s in n_edges)
        ctx.check(root_ok and ok, "C14.3", "parse_line:name-parse#%d" % n_, "names parsed relative to the root; failure => Err",
                  "a name is parsed relative to %s / a bad name is not an error" % A.show(e[2][0]), f.loc(b))
    # '#' is a comment wherever it appears
    hashes = c.edges_where(lambda fc: fc[0] == "inteq" and fc[2] == 35)
    ctx.floor("C14.3", "'#' transitions", len(hashes), 1)
    for a, s in hashes:
        reach = A.reachable_feasible(f, s, removed_blocks=[header])
        aggs = {st["rv"]["variant"] for b, i, st in A.aggregates(f, STATE) if b in reach and b in body}
        ctx.check(aggs == {"CommentToEndOfLine"}, "C14.3", "parse_line:hash-starts-comment@%d" % hashes.index((a, s)), "'#' always leads to CommentToEndOfLine",
                  "after '#' the state can become %s" % sorted(aggs), f.loc(a))

    # ... and the rest of the line is not looked at any more: once the state is CommentToEndOfLine no character of the
    # comment can make the line an error (a comment may hold anything, non-ASCII text included)
    n_c = 0
    for b, i, st in A.aggregates(f, STATE):
        if st["rv"]["variant"] != "CommentToEndOfLine" or b not in f.reachable(0):
            continue
        n_c += 1
        reach = A.reachable_tagged(f, b)
        bad = [eb for eb in errs if eb in reach and eb != b]
        # errors raised in the same step (the pending name is flushed before the state changes) come before the aggregate
        bad = [eb for eb in bad if not f.dominates(eb, b)]
        ctx.check(not bad, "C14.3", "parse_line:comment-is-ignored#%d" % n_c, "after the comment has started nothing on the line can raise an error",
                  "a character inside a comment can still make the line an error (%s)" % [f.loc(x) for x in bad], f.loc(b, i))
    ctx.floor("C14.3", "transitions into the comment state", n_c, 1)

    # a token's slice starts where the token started: the `start` a reading state carries is the index of the character
    # that opened it (the index half of the char_indices element) or the start carried by the state it continues
    plz = prog.fn(HD + "parse_line")
    plzr = A.Resolver(plz)
    n_start = 0
    for b, i, st in A.aggregates(plz, HD + "State"):
        d_ = dict(plzr.rvalue(st["rv"], (b, i))[3])
        if "start" not in d_:
            continue
        n_start += 1
        v = A.peel(d_["start"])
        from_index = v[0] == "field" and v[2] == "0" and (A.iter_elem_source(v[1]) is not None) and \
            any(x[0] == "call" and x[1].endswith("<impl str>::char_indices") and A.peel(x[2][0]) == ("param", 1) for x in A.walk(A.iter_elem_source(v[1])))
        carried = v[0] == "field" and v[2] == "start"
        ctx.check(from_index or carried, "C14.3", "parse_line:token-start#%d" % n_start, "a reading state starts at the index of the current character",
                  "a token is taken to start at %s" % A.show(d_["start"])[:80], plz.loc(b, i))
    ctx.floor("C14.3", "reading states constructed in parse_line", n_start, 2)

    # ---------------------------------------------------------------- C14.2 (text -> mapping): the address stored is the
    # address as parsed - its family is read off the parsed value itself, nothing converts it in between
    def projection_base(e):
        while e[0] in ("field", "downcast", "ref", "deref"):
            e = e[1]
        return e
    hd = [f_ for k_, f_ in prog.fns.items() if k_.endswith("Hosts>::deserialise") and k_.startswith(HD)]
    if len(hd) != 1:
        raise A.mir.AnchorMissing("Hosts::deserialise not found")
    hd = hd[0]
    hdr = A.Resolver(hd)
    n_ins = 0
    for b, t in A.call_blocks(hd, A.name_endswith("HashMap::<K, V, S, A>::insert")):
        e = hdr.call_expr(t, b)
        fam_field = A.last_field(e[2][0])
        if fam_field not in ("v4", "v6"):
            continue
        n_ins += 1
        val = A.peel(A.deep_payload(e[2][2]))
        okv = val[0] == "field" and val[1][0] == "downcast" and val[1][2] == {"v4": "V4", "v6": "V6"}[fam_field]
        base = projection_base(val[1][1]) if okv else ("?",)
        if base[0] == "call" and (base[4] or "").endswith("Try::branch") and base[2]:
            base = projection_base(base[2][0])
        okb = base[0] == "call" and base[1] == HD + "parse_line"
        ctx.check(okv and okb, "C14.2", "deserialise:address-as-parsed:" + fam_field, "%s gets the %s payload of the address parse_line returned" % (fam_field, {"v4": "V4", "v6": "V6"}[fam_field]),
                  "the address stored in %s is %s" % (fam_field, A.show(e[2][2])[:120]), hd.loc(b))
    ctx.floor("C14.2", "inserts into v4 / v6 in Hosts::deserialise", n_ins, 2)
    pl_ = prog.fn(HD + "parse_line")
    plr_ = A.Resolver(pl_)
    n_addr = 0
    for b, e in A.return_exprs(pl_, plr_):
        pe = A.peel(e)
        if pe[0] != "agg" or pe[2] != "Ok":
            continue
        v = A.peel(dict(pe[3])["0"])
        if v[0] != "agg" or v[2] != "Some":
            continue
        tup = A.peel(dict(v[3])["0"])
        if tup[0] != "tuple":
            continue
        addr = A.peel(tup[1][0])
        alts = addr[1] if addr[0] == "phi" else [addr]
        for a in alts:
            a = A.peel(a)
            if a[0] == "agg" and all(A.peel(x)[0] == "const" for _, x in a[3]):
                continue                     # the placeholder the variable is initialised with
            n_addr += 1
            base = projection_base(a)
            okp = a[0] == "field" and a[1][0] == "downcast" and a[1][2] == "Ok" and base[0] == "call" and \
                (base[1].endswith("FromStr for std::net::IpAddr>::from_str") or (base[1].endswith("<impl str>::parse") and "IpAddr" in A.show(base)))
            ctx.check(okp, "C14.2", "parse_line:address-as-parsed", "the address returned is the Ok value of parsing the address token as an IpAddr",
                      "the address returned is %s" % A.show(a)[:120], pl_.loc(b))
    ctx.floor("C14.2", "address sources in parse_line", n_addr, 1)

    # ---------------------------------------------------------------- C14.2 / C14.5
    fz = prog.find("<impl std::convert::From<dns_types::hosts::types::Hosts> for dns_types::zones::types::Zone>::from")
    fzr = A.Resolver(fz)
    ins = A.call_blocks(fz, A.name_is(Z + "Zone::insert"))
    fam = {}
    for b, t in ins:
        e = fzr.call_expr(t, b)
        rd = A.peel(e[2][2])
        ttl = A.peel(e[2][3])
        if rd[0] == "agg":
            addr = A.path_str(dict(rd[3])["address"])
            name = A.path_str(e[2][1])
            fam[rd[2]] = (name, addr, ttl[3].get("uneval") if ttl[0] == "const" and ttl[3] else None)
    ok = fam.get("A") == ("param1.v4.[].0", "param1.v4.[].1", H + "TTL") and fam.get("AAAA") == ("param1.v6.[].0", "param1.v6.[].1", H + "TTL") and len(ins) == 2
    ctx.check(ok, "C14.2", "From<Hosts>for Zone", "v4 -> A, v6 -> AAAA, one insert per entry with hosts::TTL", "hosts -> zone conversion is %s" % fam, fz.loc())
    for key, strict in (("<dns_types::hosts::types::Hosts as std::convert::TryFrom<dns_types::zones::types::Zone>>::try_from", True), (H + "Hosts::from_zone_lossy", False)):
        g = prog.fn(key)
        gr = A.Resolver(g)
        gc = A.Conds(g, gr)
        table = {}
        for b, t in A.call_blocks(g, A.name_endswith("HashMap::<K, V, S, A>::insert")):
            e = gr.call_expr(t, b)
            dst = _dest_family(g, t["args"][0])
            vs = [fc[1] for fc in gc.facts_on_all_paths(b) if fc[0] == "is" and fc[1] in ("A", "AAAA")]
            val = A.peel(e[2][2])
            src = val[1][2] if val[0] == "field" and val[1][0] == "downcast" else None
            table[dst] = (vs, src, A.last_field(val))
        # every record of every name is converted: the record an address is taken from is the element of an iteration
        # over the name's record list (not its first element, not an index)
        visited = []
        for f_ in prog.family(g.key):
            fr_ = gr if f_ is g else A.Resolver(f_)
            for b, t in A.call_blocks(f_, A.name_is(Z + "ZoneRecord::to_rr")):
                zr = fr_.call_expr(t, b)[2][0]
                src = A.iter_elem_source(zr)
                if f_ is not g and A.peel(zr)[0] == "param":
                    visited.append(True)          # the element an iterator adaptor hands to its closure (`.map(|zr| zr.to_rr(name))`)
                else:
                    visited.append(src is not None)
        # ... and none of its loops is left early (a `break` after the first address would drop the other family): an exit
        # that is not the iterator running out may only lead straight to a return (the strict converter's errors)
        headers = {h for h, _ in g.loops()}
        ins_blocks = {b for b, t in A.call_blocks(g, A.name_endswith("HashMap::<K, V, S, A>::insert"))}
        early = [(h, a, s_) for h, a, s_ in A.early_loop_exits(g, gc) if (headers | ins_blocks) & set(g.reachable(s_))]
        ctx.check(not early, "C14.5", "%s:no-early-exit" % A.short(g.key), "every record of every name is visited: the loops end only when exhausted (or with an error)",
                  "a loop is left early at %s (records after that point are not converted)" % [g.loc(a) for h, a, s_ in early], g.loc(early[0][1]) if early else g.loc())
        ctx.check(bool(visited) and all(visited), "C14.5", "%s:all-records" % A.short(g.key), "every record of every name is looked at", "only some records of a name are converted (%s)" % visited, g.loc())
        ok = table.get("v4") == (["A"], "A", "address") and table.get("v6") == (["AAAA"], "AAAA", "address")
        ctx.check(ok, "C14.2", "%s:family-table" % A.short(g.key), "A -> v4, AAAA -> v6", "zone -> hosts conversion is %s" % table, g.loc())
        if strict:
            errs_ = A.error_exits(g, gr)
            others = gc.edges_where(lambda fc: fc[0] == "isnot" and fc[1] == "A")
            ok_o = bool(others) and any(any(eb in g.reachable(s) for eb in errs_) for a, s in others if not any(fc[0] == "is" and fc[1] == "AAAA" for fc in gc.edge_facts(a, s)))
            wc = A.call_blocks(g, A.name_is(Z + "Zone::all_wildcard_records"))
            okw = False
            for wb, wt in wc:
                for a, s in gc.edges_where(lambda fc: fc[0] == "call" and fc[1].endswith("is_empty") and fc[3] is False):
                    if any(eb in g.reachable(s) for eb in errs_) and not [b for b, t in A.call_blocks(g, A.name_endswith("HashMap::<K, V, S, A>::insert")) if b in g.reachable(s)]:
                        okw = True
            ctx.check(ok_o and okw, "C14.5", "TryFrom<Zone>:rejects", "wildcard records and non-address types => Err", "the strict conversion accepts wildcards / other record types", g.loc())
    hs = prog.find("hosts::serialise::<impl dns_types::hosts::types::Hosts>::serialise")
    hsr = A.Resolver(hs)
    gets = [hsr.call_expr(t, b) for b, t in A.call_blocks(hs, A.name_endswith("HashMap::<K, V, S, A>::get"))]
    fams = sorted(A.last_field(e[2][0]) for e in gets)
    ctx.check(fams == ["v4", "v6"], "C14.4", "Hosts::serialise:families", "looks the name up in v4 and in v6", "serialiser looks up %s" % fams, hs.loc())
    wr = [t for b, t in hs.calls() if (t.get("callee") or "").endswith("fmt::Write::write_fmt")]
    ctx.check(len(wr) == 2, "C14.4", "Hosts::serialise:lines", "one output line per present family", "%d formatted writes" % len(wr), hs.loc())
    # the names written are the keys of both maps: every `keys()` of a family must flow into the collected name list,
    # either directly (`v4.keys().chain(v6.keys()).collect()`) or through inserts into a set that is collected
    colls = [hsr.call_expr(t, b) for b, t in A.call_blocks(hs, A.name_endswith("Iterator::collect"))]
    def keys_in(e):
        return {A.last_field(x[2][0]) for x in A.walk(e) if x[0] == "call" and x[1].endswith("HashMap::<K, V, S, A>::keys")}
    key_fams = set()
    for ce in colls:
        key_fams |= keys_in(ce)
    collected_sets = {A.show(A.strip_refs(x)) for ce in colls for x in A.walk(ce) if x[0] == "call" and x[1].endswith("HashSet::<T>::new")}
    for b, t in A.call_blocks(hs, A.name_endswith("HashSet::<T, S, A>::insert")):
        e = hsr.call_expr(t, b)
        if A.show(A.strip_refs(e[2][0])) in collected_sets:
            key_fams |= keys_in(e[2][1])
    ctx.check(key_fams == {"v4", "v6"} and bool(colls), "C14.4", "Hosts::serialise:names", "the names written are the union of the v4 and v6 keys",
              "names collected from the keys of %s" % sorted(map(str, key_fams)), hs.loc())
    hsc = A.Conds(hs, hsr)
    seen_f = set()
    for b, t in hs.calls():
        if not (t.get("callee") or "").endswith("fmt::Write::write_fmt"):
            continue
        e = hsr.call_expr(t, b)
        fa = A.peel(e[2][1])
        tmpl = (A.peel(fa[2][0])[3] or {}).get("bytes") if fa[0] == "call" and "Arguments" in fa[1] else None
        args = A.peel(fa[2][1]) if tmpl else None
        fams_here = []
        if args is not None and args[0] == "array":
            for a in args[1]:
                fams_here.append({A.last_field(x[2][0]) for x in A.walk(a) if x[0] == "call" and x[1].endswith("HashMap::<K, V, S, A>::get")})
        own = fams_here[0] if fams_here else set()
        fam = sorted(own)[0] if len(own) == 1 else "?"
        seen_f.add(fam)
        ok_fmt = tmpl == [0xC0, 1, 0x20, 0xC0, 1, 0x0A, 0] and len(fams_here) == 2 and len(own) == 1 and not fams_here[1]
        ctx.check(ok_fmt, "C14.4", "Hosts::serialise:line:%s" % fam, "line = `{address of this family} {name}\\n`",
                  "line template %s with argument families %s" % (tmpl, fams_here), hs.loc(b))
        dep = set()
        for fc in hsc.facts_on_all_paths(b):
            if fc[0] in ("is", "isnot") and isinstance(fc[2], tuple):
                for x in A.walk(fc[2]):
                    if x[0] == "call" and x[1].endswith("HashMap::<K, V, S, A>::get"):
                        dep.add(A.last_field(x[2][0]))
        ctx.check(dep == own, "C14.4", "Hosts::serialise:independent:%s" % fam, "the %s line is written iff the %s lookup hit - whatever the other family holds" % (fam, fam),
                  "whether the %s line is written depends on the lookups in %s (a name with both families loses one mapping)" % (fam, sorted(dep)), hs.loc(b))
    ctx.check(seen_f == {"v4", "v6"}, "C14.4", "Hosts::serialise:both-families", "a line for v4 and a line for v6", "lines written for %s" % sorted(seen_f), hs.loc())
    ee = A.early_loop_exits(hs, hsc)
    ctx.check(not ee, "C14.4", "Hosts::serialise:no-early-exit", "the name loop ends only when every name was written", "the name loop of Hosts::serialise can be left early: %s" % [hs.loc(a) for h, a, s_ in ee], hs.loc())
    pops = A.call_blocks(hs, A.name_endswith("String::pop"))
    roots = A.call_blocks(hs, A.name_is(T + "DomainName::is_root"))
    ctx.check(len(pops) == 1 and len(roots) == 1, "C14.4", "Hosts::serialise:name-form", "name printed without the trailing dot, the root as '.'",
              "name rendering changed (pop: %d, is_root: %d)" % (len(pops), len(roots)), hs.loc())
    ttl = A.mir.const_val(prog.const(H + "TTL"))
    ctx.check(isinstance(ttl, int) and ttl > 0, "C14.5", "hosts::TTL", "hosts::TTL = %s" % ttl, "hosts::TTL = %s" % ttl)
    # tools
    pairs = {
        "htoh::main": ["Hosts>::deserialise", "Hosts>::serialise"],
        "htoz::main": ["Hosts>::deserialise", "Zone>::from", "Zone>::serialise"],
        "ztoh::main": ["Zone>::deserialise", "Hosts>::serialise"],
        "ztoz::main": ["Zone>::deserialise", "Zone>::serialise"],
    }
    for key, want in pairs.items():
        m = prog.fn(key)
        names_ = [(t.get("resolved") or t.get("callee") or "") for f_ in prog.family(key) for _, t in f_.calls()]
        ok = all(any(n_.endswith(w) or (w == "Zone>::from" and "From<dns_types::hosts::types::Hosts> for dns_types::zones::types::Zone>::from" in n_) for n_ in names_) for w in want)
        ctx.check(ok, "C14.5", "tool:%s" % key.split("::")[0], "calls %s" % want, "%s does not call %s" % (key, want), m.loc())
    zt = [(t.get("resolved") or t.get("callee") or "") for f_ in prog.family("ztoh::main") for _, t in f_.calls()]
    ctx.check(any("TryFrom<dns_types::zones::types::Zone>" in n_ or n_.endswith("TryInto<U>>::try_into") or n_.endswith("try_from") for n_ in zt) and any(n_.endswith("Hosts::from_zone_lossy") for n_ in zt),
              "C14.5", "tool:ztoh:modes", "strict (try_from) and lossy conversion both available", "ztoh conversions: %s" % [n_ for n_ in zt if "Hosts" in n_], prog.fn("ztoh::main").loc())

    tool_exit_rules(ctx)
    # replacement is per name *and* family also across merged hosts files (C12.4, decided here as well)
    from ..core import RuleAlias
    if not isinstance(ctx, RuleAlias):
        from . import C12
        C12.run(RuleAlias(ctx, {"C12.4": "C14.7"}))

def _dest_family(fn, op):
    """which Hosts map (`v4` / `v6`) a `&mut map` argument refers to: a field of a Hosts value (`hosts.v4`), or a
    local map that is later moved into that field of the returned `Hosts { v4, v6 }`."""
    p = A.op_place(op)
    seen = set()
    while p is not None and p["l"] not in seen:
        for el in reversed(p.get("p") or []):
            if isinstance(el, dict) and el.get("f") in ("v4", "v6") and (el.get("adt") or "").endswith("hosts::types::Hosts"):
                return el["f"]
        l = p["l"]
        seen.add(l)
        if l in fn.names:
            # a named local map: find the Hosts aggregate field it is moved into
            for b, i, st in A.aggregates(fn, H + "Hosts"):
                rv = st["rv"]
                for fname, o in zip(rv.get("fields", []), rv.get("ops", [])):
                    po = A.op_place(o)
                    if po is not None and po["l"] == l and not po.get("p"):
                        return fname
            return fn.names[l]
        sd = fn.single_def(l)
        if sd is None or sd[2] != "assign":
            return None
        rv = fn.blocks[sd[0]]["stmts"][sd[1]]["rv"]
        p = rv.get("place") if rv["k"] == "ref" else A.op_place(rv.get("op", {}))
    return None


def _root_name(fn, op):
    """debug name of the local a `&mut x` argument refers to."""
    p = A.op_place(op)
    seen = set()
    while p is not None and p["l"] not in seen:
        l = p["l"]
        seen.add(l)
        if l in fn.names:
            return fn.names[l]
        sd = fn.single_def(l)
        if sd is None or sd[2] != "assign":
            return None
        rv = fn.blocks[sd[0]]["stmts"][sd[1]]["rv"]
        p = rv.get("place") if rv["k"] == "ref" else A.op_place(rv.get("op", {}))
    return None


def tool_exit_rules(ctx):
    prog = ctx.prog
    # ---------------------------------------------------------------- C14.6
    for key in ("htoz::main", "htoh::main", "ztoh::main"):
        m_ = prog.fn(key)
        mr_ = A.Resolver(m_)
        mc_ = A.Conds(m_, mr_)
        err_edges = mc_.edges_where(lambda fc: fc[0] == "is" and fc[1] == "Err")
        rets_ = set(A.returns(m_))
        exits_ = {}
        for b, t in A.call_blocks(m_, A.name_is("std::process::exit")):
            exits_[b] = A.peel(mr_.call_expr(t, b)[2][0])
        leaks = [(a, s_) for a, s_ in err_edges if rets_ & set(m_.reachable(s_, removed_blocks=list(exits_)))]
        nonzero = all(v[0] == "const" and v[2] not in (0, None) for v in exits_.values())
        ctx.check(bool(err_edges) and not leaks and nonzero and bool(exits_), "C14.6", "%s:error-exits" % key, "every failure ends in process::exit(non-zero)",
                  "%s can finish normally after an error (%s)" % (key, [m_.loc(a) for a, s_ in leaks]), m_.loc(leaks[0][0]) if leaks else m_.loc())
