"""C18 — the resolver honours the configured address family and upstream port."""
from .. import analysis as A
from ..analysis import Call, Path, PathEnds, Param, Konst, Any, Agg, Same

T = "dns_types::protocol::types::"
REC = "dns_resolver::recursive::"
H2IP = REC + "resolve_hostname_to_ip"
EXPECTED_ORDER = {"OnlyV4": ["A"], "PreferV4": ["A", "AAAA"], "PreferV6": ["AAAA", "A"], "OnlyV6": ["AAAA"]}


def run(ctx):
    prog = ctx.prog
    ctx.rule("C18.1", "resolve_hostname_to_ip: ProtocolMode -> ordered record-type list (OnlyV4:[A] PreferV4:[A,AAAA] PreferV6:[AAAA,A] OnlyV6:[AAAA]), iterated in order")
    ctx.rule("C18.2", "inside that loop the iterated type is what is asked (question.qtype = Record(t)) and what get_ip filters on; results returned only from get_ip")
    ctx.rule("C18.3", "get_record filters on (rtype == requested, name == target); get_ip maps A->V4(address), AAAA->V6(address), anything else -> None")
    ctx.rule("C18.4", "query_nameserver is called from exactly two sites: recursive with (that ip, context.r.upstream_dns_port), forwarding with context.r.forward_address; the address parameter is what the sockets connect to")
    ctx.rule("C18.6", "the configuration reaches the resolver unchanged: ProtocolMode's FromStr table maps the four documented words to the four modes; the server copies protocol_mode, upstream_dns_port, forward_address and authoritative_only from the same-named CLI fields")
    ctx.rule("C18.7", "an address the resolver holds is found: a glue record answers only a question of its own type (C06.9), and an empty answer from a hosts / hints zone falls through to the cache (C01.2) - decided here as well")
    ctx.rule("C18.5", "resolve() builds the resolver contexts from its own parameters; the binaries pass the CLI fields in the matching positions")

    f = prog.body_of(H2IP)
    r = A.Resolver(f)
    c = A.Conds(f, r)

    # ---------------------------------------------------------------- C18.1
    vec_sites = A.call_blocks(f, A.name_endswith("box_assume_init_into_vec_unsafe"))
    table = {}
    for b, t in vec_sites:
        e = r.call_expr(t, b)
        if e[1] != "vec!":
            continue
        elems = [A.peel(x) for x in e[2][0][1]]
        if not all(x[0] == "agg" and x[1] == T + "RecordType" for x in elems):
            continue
        variants = [fc[1] for fc in c.facts_on_all_paths(b) if fc[0] == "is" and A.path_str(fc[2]) and A.path_str(fc[2]).endswith("r.protocol_mode")]
        for v in variants:
            table[v] = [x[2] for x in elems]
    ctx.floor("C18.1", "ProtocolMode arms building a record-type vector", len(table), 4, exact=True)
    for v, exp in EXPECTED_ORDER.items():
        ctx.check(table.get(v) == exp, "C18.1", "mode-table:" + v, "%s -> %s" % (v, exp),
                  "ProtocolMode::%s yields record types %s, expected %s" % (v, table.get(v), exp), f.loc())
    pm = prog.adt("dns_resolver::util::types::ProtocolMode")
    ctx.check(sorted(x["name"] for x in pm["variants"]) == sorted(EXPECTED_ORDER), "C18.1", "mode-table:exhaustive",
              "ProtocolMode has exactly the four tabulated variants", "ProtocolMode variants changed: %s" % [x["name"] for x in pm["variants"]])

    # the loop element: (next(&mut into_iter(<that vector>)) as Some).0 with nothing in between
    qt_stores = [(b, i, st) for b, i, kind, st in A.field_writes(f, T + "Question", "qtype") if kind == "store"]
    ctx.floor("C18.2", "stores to question.qtype", len(qt_stores), 1, exact=True)
    elem = None
    for b, i, st in qt_stores:
        e = r.rvalue(st["rv"], (b, i))
        pe = A.peel(e)
        ok = pe[0] == "agg" and pe[1] == T + "QueryType" and pe[2] == "Record"
        if ok:
            elem = dict(pe[3])["0"]
        ctx.check(ok, "C18.2", "loop:qtype-store", "question.qtype = QueryType::Record(<loop element>)",
                  "question.qtype is set to %s" % A.show(e), f.loc(b, i))
    if elem is not None:
        pe = A.peel(elem)
        shape = pe[0] == "field" and pe[2] == "0" and pe[1][0] == "downcast" and pe[1][2] == "Some" and pe[1][1][0] == "call" \
            and pe[1][1][1].endswith("::next")
        direct = False
        if shape:
            it = pe[1][1][2][0]
            # only `into_iter` between next() and the vector
            x = it
            while x[0] in ("ref", "deref"):
                x = x[1]
            if x[0] == "call" and x[1].endswith("IntoIterator>::into_iter") and "Vec" in x[1]:
                src = A.peel(x[2][0])
                alts = src[1] if src[0] == "phi" else [src]
                direct = all(a[0] == "call" and a[1] == "vec!" for a in alts) and len(alts) == 4
        ctx.check(shape and direct, "C18.1", "loop:in-order", "the four vectors are consumed by plain into_iter()/next() (front to back)",
                  "the record-type vector is not iterated directly front to back: %s" % A.show(elem), f.loc())

    # ---------------------------------------------------------------- C18.2
    qlocal = qt_stores[0][2]["dst"]["l"] if qt_stores else None
    gets = A.call_blocks(f, A.name_is(REC + "get_ip"))
    ctx.floor("C18.2", "get_ip calls in resolve_hostname_to_ip", len(gets), 2, exact=True)
    for n, (b, t) in enumerate(gets):
        e = r.call_expr(t, b)
        rrs, name, rtype = e[2]
        ok_t = elem is not None and A.same(rtype, elem)
        ok_n = A.path_str(name) == "_%s.name" % qlocal
        srcs = A.calls_in(rrs, lambda n_: n_ in ("dns_resolver::local::resolve_local", REC + "resolve_recursive_notimeout"))
        ok_s = bool(srcs) and all(A.path_str(s[2][1]) == "_%s" % qlocal for s in srcs)
        ctx.check(ok_t and ok_n and ok_s, "C18.2", "get_ip#%d:args" % n,
                  "get_ip(rrs of resolving that question, question.name, the iterated type)",
                  "get_ip is called with (%s, %s, %s)" % (A.show(rrs), A.show(name), A.show(rtype)), f.loc(b))
        # the qtype store dominates the resolution feeding this get_ip
        for s in srcs:
            sb = s[3][1]
            ctx.check(all(f.dominates(qb, sb) for qb, _, _ in qt_stores), "C18.2", "get_ip#%d:qtype-before-resolve" % n,
                      "question.qtype is set before the resolution", "resolution happens on a path without the qtype store", f.loc(sb))
    for b, e in A.return_exprs(f, r):
        pe = A.peel(e)
        ok = (pe[0] == "call" and pe[1] == REC + "get_ip") or (pe[0] == "agg" and pe[2] == "None")
        ctx.check(ok, "C18.2", "return@%s" % ("get_ip" if pe[0] == "call" else pe[0]), "returns a get_ip result or None",
                  "returns %s" % A.show(e), f.loc(b))

    # ---------------------------------------------------------------- C18.3
    # get_record in normal form (the `find(|rr| ..)` is a loop after normalisation; a hand-written loop is the same shape):
    # Some(rr) is returned only for an element of the list whose type and name both matched
    gr = prog.fn(REC + "get_record")
    grr = A.Resolver(gr)
    grc = A.Conds(gr, grr)
    somes = [(b, A.peel(e)) for b, e in A.return_exprs(gr, grr) if A.peel(e)[0] == "agg" and A.peel(e)[2] == "Some"]
    ctx.floor("C18.3", "Some(record) results of get_record", len(somes), 1)
    for b, e in somes:
        x = dict(e[3])["0"]
        src = A.iter_elem_source(x)
        from_list = src is not None and A.peel(src) == ("param", 1)
        elem = A.peel(x)
        def same_elem(y):
            return A.same_value(A.peel(y), elem) or A.strip_refs(A.peel(y)) == A.strip_refs(elem)
        def type_eq(fc):
            if fc[0] != "cmp" or fc[1] != "Eq":
                return False
            for a_, b_ in ((fc[2], fc[3]), (fc[3], fc[2])):
                pa = A.peel(a_)
                if pa[0] == "call" and pa[1].endswith("RecordTypeWithData::rtype") and A.last_field(pa[2][0]) == "rtype_with_data" and same_elem(A.peel(pa[2][0])[1]) and A.peel(b_) == ("param", 3):
                    return True
            return False
        def name_eq(fc):
            if fc[0] != "cmp" or fc[1] != "Eq":
                return False
            for a_, b_ in ((fc[2], fc[3]), (fc[3], fc[2])):
                pa = A.peel(a_)
                if pa[0] == "field" and pa[2] == "name" and same_elem(pa[1]) and A.peel(b_) == ("param", 2):
                    return True
            return False
        ok_t, _ = grc.guarded(b, type_eq)
        ok_n, _ = grc.guarded(b, name_eq)
        ctx.check(from_list and ok_t and ok_n, "C18.3", "get_record:predicate", "Some(rr) only for an rr of the list with rr.rtype() == rtype && rr.name == target",
                  "get_record can return a record without both the type and the name matching (from the list: %s, type test: %s, name test: %s)" % (from_list, ok_t, ok_n), gr.loc(b))
    gi = prog.fn(REC + "get_ip")
    gir = A.Resolver(gi)
    gic = A.Conds(gi, gir)
    arms = {}
    for b, e in A.return_exprs(gi, gir):
        pe = A.peel(e)
        if pe[0] == "agg" and pe[2] == "Some":
            ip = A.peel(dict(pe[3])["0"])
            if ip[0] == "agg" and ip[1] == "std::net::IpAddr":
                payload = A.peel(dict(ip[3])["0"])
                # payload: ((*rr).rtype_with_data as X).address
                var = payload[1][2] if payload[0] == "field" and payload[1][0] == "downcast" else None
                guard = [fc[1] for fc in gic.facts_on_all_paths(b) if fc[0] == "is" and payload[0] == "field"
                         and payload[1][0] == "downcast" and A.same(fc[2], payload[1][1])]
                arms[ip[2]] = (var, guard, payload)
    ctx.check(arms.get("V4", (None, []))[0] == "A" and "A" in arms.get("V4", (None, []))[1], "C18.3", "get_ip:V4",
              "IpAddr::V4 only from the address of an A record", "IpAddr::V4 built from %s" % (arms.get("V4"),), gi.loc())
    ctx.check(arms.get("V6", (None, []))[0] == "AAAA" and "AAAA" in arms.get("V6", (None, []))[1], "C18.3", "get_ip:V6",
              "IpAddr::V6 only from the address of an AAAA record", "IpAddr::V6 built from %s" % (arms.get("V6"),), gi.loc())
    recs = A.call_blocks(gi, A.name_is(REC + "get_record"))
    ctx.floor("C18.3", "get_record call in get_ip", len(recs), 1, exact=True)
    for b, t in recs:
        e = gir.call_expr(t, b)
        ctx.check(A.peel(e[2][2]) == ("param", 3) and A.peel(e[2][0]) == ("param", 1), "C18.3", "get_ip:passes-rtype",
                  "get_record(rrs, final name, the requested rtype)", "get_record called with %s" % [A.show(a) for a in e[2]], gi.loc(b))
        # the record whose address is returned is get_record's result
        for fam, (var, guard, payload) in arms.items():
            src = A.calls_in(payload, lambda n_: n_ == REC + "get_record")
            ctx.check(bool(src), "C18.3", "get_ip:%s-from-get_record" % fam, "address comes from the record get_record returned",
                      "address %s does not come from get_record" % A.show(payload), gi.loc())

    # ---------------------------------------------------------------- C18.4
    QN = "dns_resolver::util::nameserver::query_nameserver"
    sites = A.who_calls(prog, QN)
    ctx.floor("C18.4", "query_nameserver call sites", len(sites), 2, exact=True)
    seen = set()
    for fn, b, t in sites:
        rr = A.Resolver(fn)
        e = rr.call_expr(t, b)
        addr = e[2][0]
        if fn.root_key == REC + "resolve_recursive_notimeout":
            seen.add("recursive")
            pa = A.peel_until_call(addr, "into")
            tup = A.peel(pa[2][0]) if pa[0] == "call" and pa[1].endswith("::into") and pa[2] else pa
            ok = tup[0] == "tuple" and len(tup[1]) == 2 and A.path_str(tup[1][1]) == "^context.r.upstream_dns_port"
            ip = A.peel(tup[1][0]) if ok else None
            ok_ip = ok and ip[0] == "field" and ip[1][0] == "downcast" and ip[1][2] == "Some" and ip[1][1][0] == "await" \
                and ip[1][1][1][0] == "call" and ip[1][1][1][1] == H2IP
            ctx.check(ok and ok_ip, "C18.4", "recursive:destination", "(ip from resolve_hostname_to_ip, context.r.upstream_dns_port).into()",
                      "upstream address is %s" % A.show(addr), fn.loc(b))
        elif fn.root_key == "dns_resolver::forwarding::resolve_forwarding_notimeout":
            seen.add("forwarding")
            ctx.check(A.path_str(addr) == "^context.r.forward_address", "C18.4", "forwarding:destination", "context.r.forward_address",
                      "forwarded query goes to %s" % A.show(addr), fn.loc(b))
        else:
            ctx.bad("C18.4", "who-calls(query_nameserver):" + fn.root_key, "unexpected caller of query_nameserver", fn.loc(b))
    ctx.check(seen == {"recursive", "forwarding"}, "C18.4", "who-calls(query_nameserver)", "callers = the two resolvers", "callers: %s" % sorted(seen))
    # address plumbing inside nameserver.rs
    NS = "dns_resolver::util::nameserver::"
    qn = prog.body_of(QN)
    qr = A.Resolver(qn)
    for name in ("query_nameserver_udp", "query_nameserver_tcp"):
        cs = A.call_blocks(qn, A.name_is(NS + name))
        ctx.floor("C18.4", "%s call in query_nameserver" % name, len(cs), 1, exact=True)
        for b, t in cs:
            e = qr.call_expr(t, b)
            ctx.check(A.path_str(e[2][0]) == "^address", "C18.4", "query_nameserver->%s:address" % name, "passes its address parameter",
                      "passes %s" % A.show(e[2][0]), qn.loc(b))
        w = prog.body_of(NS + name)
        wr = A.Resolver(w)
        inner = A.call_blocks(w, A.name_is(NS + name + "_notimeout"))
        ctx.floor("C18.4", "%s_notimeout call" % name, len(inner), 1, exact=True)
        for b, t in inner:
            e = wr.call_expr(t, b)
            ctx.check(A.path_str(e[2][0]) == "^address", "C18.4", "%s->notimeout:address" % name, "passes its address parameter",
                      "passes %s" % A.show(e[2][0]), w.loc(b))
        nt = prog.body_of(NS + name + "_notimeout")
        nr = A.Resolver(nt)
        conns = A.call_blocks(nt, lambda n_: n_.endswith("::connect") and "tokio::net" in n_)
        ctx.floor("C18.4", "connect in %s_notimeout" % name, len(conns), 1, exact=True)
        for b, t in conns:
            e = nr.call_expr(t, b)
            a = e[2][-1]
            ctx.check(A.path_str(a) == "^address", "C18.4", "%s_notimeout:connect" % name, "socket connects to the address parameter",
                      "socket connects to %s" % A.show(a), nt.loc(b))

    # ---------------------------------------------------------------- C18.5
    rs = prog.body_of("dns_resolver::resolve")
    rr = A.Resolver(rs)
    aggs = list(A.aggregates(rs, REC + "RecursiveContextInner"))
    ctx.floor("C18.5", "RecursiveContextInner built in resolve()", len(aggs), 1, exact=True)
    for b, i, st in aggs:
        e = rr.rvalue(st["rv"], (b, i))
        d = dict(e[3])
        ok = A.path_str(d["protocol_mode"]) == "^protocol_mode" and A.path_str(d["upstream_dns_port"]) == "^upstream_dns_port"
        ctx.check(ok, "C18.5", "resolve:recursive-context", "protocol_mode/upstream_dns_port from resolve()'s parameters",
                  "RecursiveContextInner built as %s" % A.show(e), rs.loc(b, i))
    aggs = list(A.aggregates(rs, "dns_resolver::forwarding::ForwardingContextInner"))
    ctx.floor("C18.5", "ForwardingContextInner built in resolve()", len(aggs), 1, exact=True)
    for b, i, st in aggs:
        e = rr.rvalue(st["rv"], (b, i))
        d = dict(e[3])
        ps = A.path_str(d["forward_address"])
        ctx.check(ps is not None and "forward_address" in ps and "<Some>" in ps, "C18.5", "resolve:forwarding-context",
                  "forward_address = Some payload of resolve()'s parameter", "ForwardingContextInner built as %s" % A.show(e), rs.loc(b, i))
    ws = A.who_constructs(prog, REC + "RecursiveContextInner") + A.who_constructs(prog, "dns_resolver::forwarding::ForwardingContextInner")
    ctx.check(all(fn.root_key == "dns_resolver::resolve" for fn, _, _, _ in ws), "C18.5", "who-constructs(context inners)",
              "only resolve() builds resolver contexts", "context inner built in %s" % sorted({fn.root_key for fn, _, _, _ in ws}))
    # binaries
    for fn, b, t in A.who_calls(prog, "dns_resolver::resolve"):
        r2 = A.Resolver(fn)
        e = r2.call_expr(t, b)
        a = e[2]
        ok = A.last_field(a[1]) == "protocol_mode" and A.last_field(a[2]) == "upstream_dns_port" \
            and A.last_field(a[3]) == "forward_address"
        ctx.check(ok, "C18.5", "caller:%s" % fn.root_key, "passes (.., protocol_mode, upstream_dns_port, forward_address, ..)",
                  "resolve() called with (%s, %s, %s)" % (A.show(a[1]), A.show(a[2]), A.show(a[3])), fn.loc(b))

    # ---------------------------------------------------------------- C18.6
    pm = [f_ for k_, f_ in prog.fns.items() if k_.endswith("ProtocolMode as std::str::FromStr>::from_str")]
    if len(pm) != 1:
        raise A.mir.AnchorMissing("ProtocolMode::from_str not found")
    pm = pm[0]
    pmr = A.Resolver(pm)
    pmc = A.Conds(pm, pmr)
    table = {}
    for b, e in A.return_exprs(pm, pmr):
        pe = A.peel(e)
        if pe[0] != "agg" or pe[2] != "Ok":
            continue
        v = A.peel(dict(pe[3])["0"])
        words = [A.peel(fc[2][1])[2] for fc in pmc.facts_on_all_paths(b) if fc[0] == "call" and fc[1].endswith("for str>::eq") and fc[3] is True and A.peel(fc[2][1])[0] == "const"]
        # (a `match` on the text: the word of this arm is the one comparison that succeeded)
        table[words[0] if len(words) == 1 else "?%s" % words] = v[2] if v[0] == "agg" else "?"
    want = {"only-v4": "OnlyV4", "prefer-v4": "PreferV4", "prefer-v6": "PreferV6", "only-v6": "OnlyV6"}
    ctx.check(table == want, "C18.6", "ProtocolMode::from_str:table", "%s" % want, "the protocol mode is parsed as %s" % table, pm.loc())
    # ... and get_ip looks for the address at the end of the alias chain whatever types the records on the way have
    gi_ = prog.fn(REC + "get_ip")
    gir_ = A.Resolver(gi_)
    fcs = [gir_.call_expr(t, b) for b, t in A.call_blocks(gi_, A.name_is(REC + "follow_cnames"))]
    okf = len(fcs) == 1 and A.peel(fcs[0][2][0]) == ("param", 1) and A.peel(fcs[0][2][1]) == ("param", 2) and A.peel(fcs[0][2][2])[0] == "agg" and A.peel(fcs[0][2][2])[2] == "Wildcard"
    ctx.check(okf, "C18.3", "get_ip:chain-any-type", "follow_cnames(rrs, target, ANY): the family filter is get_record's alone",
              "get_ip follows the chain with %s" % [A.show(x)[:40] for x in (fcs[0][2] if fcs else [])], gi_.loc())
    # the server hands the CLI fields on under their own names
    for mkey in ("resolved::main",):
        m_ = prog.body_of(mkey)
        mr_ = A.Resolver(m_)
        aggs = [mr_.rvalue(st["rv"], (b, i)) for b, i, st in A.aggregates(m_, "resolved::ListenArgs")]
        ctx.floor("C18.6", "ListenArgs built in main", len(aggs), 1)
        for e in aggs:
            d_ = dict(e[3])
            bad = {k_: A.show(d_[k_])[:60] for k_ in ("protocol_mode", "upstream_dns_port", "forward_address", "authoritative_only")
                   if k_ in d_ and not (A.last_field(d_[k_]) == k_ and any(x[0] == "call" and x[1].endswith("Parser::parse") for x in A.walk(d_[k_])))}
            ctx.check(not bad and all(k_ in d_ for k_ in ("protocol_mode", "upstream_dns_port", "forward_address")), "C18.6", "main:ListenArgs", "each setting is the same-named CLI field",
                      "settings taken from elsewhere: %s" % bad, m_.loc())
    # ---------------------------------------------------------------- C18.7
    from ..core import RuleAlias
    from . import C06, C01
    C06.run(RuleAlias(ctx, {"C06.9": "C18.7"}))
    C01.run(RuleAlias(ctx, {"C01.2": "C18.7"}))
