"""Zone-file text: the writer's escape classes and the tokeniser's per-state character classes,
extracted as condition tables from the MIR and evaluated over the finite octet domain (C13.1, C11.6)."""
from .. import analysis as A

ZS = "dns_types::zones::serialise::"
ZD = "dns_types::zones::deserialise::"


def decode_template(bs):
    """format_args! template bytecode -> [('lit', str) | ('arg',)]"""
    out = []
    i = 0
    while i < len(bs):
        b = bs[i]
        if b == 0:
            break
        if b >= 0x80:
            out.append(("arg",))
            i += 1
            if b & 0x3F:
                return None  # non-default formatting options: not modelled
        else:
            out.append(("lit", bytes(bs[i + 1:i + 1 + b]).decode("utf-8", "replace")))
            i += 1 + b
    return out


def _path_truth(fn, res, path, k, fc, env):
    """a condition that tests a bool local computed earlier on the same path (`let special = matches!(..); if special`)."""
    l = None
    want = None
    if fc[0] == "ltruth":
        l, want = fc[1], fc[2]
    elif fc[0] == "truth":
        pe = A.peel(fc[1])
        if pe[0] == "phi" and len(pe) > 2:
            l, want = pe[2], fc[2]
    if l is None:
        return None
    try:
        v = A.path_local_value(fn, res, path.blocks, path.fact_pos[k], l, env)
    except A.Unevaluable:
        return None
    return bool(v) == bool(want)


def writer_classes(prog):
    """{(octet, quoted): ('literal',) | ('bs', char) | ('ddd', [c1, c2, c3])} from serialise_octets"""
    fn = prog.fn(ZS + "serialise_octets")
    res = A.Resolver(fn)
    conds = A.Conds(fn, res)
    loops = [(h, bd) for h, bd in fn.loops()]
    if len(loops) != 1:
        raise A.mir.AnchorMissing("serialise_octets: expected one loop")
    header, body = loops[0]
    # element extraction: the Some edge of next()
    some_edges = conds.edges_where(lambda fc: fc[0] == "is" and fc[1] == "Some" and A.peel(fc[2])[0] == "call" and A.peel(fc[2])[1].endswith("::next"))
    if len(some_edges) != 1:
        raise A.mir.AnchorMissing("serialise_octets: element edge not found")
    start = some_edges[0][1]
    paths = A.region_paths(fn, conds, res, start, {header})
    table = {}
    elem = "param1.[]"
    for v in range(256):
        for q in (False, True):
            env = {elem: v, "param2": q}
            hits = []
            for path in paths:
                facts, events, end = path
                ok = True
                for k_, fc in enumerate(facts):
                    h = A.fact_holds(fc, env)
                    if h is None:
                        h = _path_truth(fn, res, path, k_, fc, env)
                    if h is None:
                        if fc[0] == "ltruth":
                            # a bool local that is just `quoted` copied: resolve by expression
                            continue
                        raise A.mir.AnchorMissing("serialise_octets: condition not of a recognised kind: %r" % (fc[:2],))
                    if not h:
                        ok = False
                        break
                if ok:
                    hits.append((facts, events))
            if len(hits) != 1:
                raise A.mir.AnchorMissing("serialise_octets: %d paths for octet %d quoted=%s" % (len(hits), v, q))
            pushed = []
            for b, e in hits[0][1]:
                if e[1].endswith("String::push"):
                    pushed.append(A.ev(e[2][1], env))
                else:
                    raise A.mir.AnchorMissing("serialise_octets: unexpected call %s in the per-octet region" % e[1])
            if pushed == [v]:
                table[(v, q)] = ("literal",)
            elif len(pushed) == 2 and pushed[0] == 92 and pushed[1] == v:
                table[(v, q)] = ("bs", v)
            elif len(pushed) == 4 and pushed[0] == 92:
                table[(v, q)] = ("ddd", pushed[1:])
            else:
                table[(v, q)] = ("other", pushed)
    return table, fn


_TT_CACHE = {}


def tokeniser_table(prog):
    """{(state, char, line_continuation): outcome} with outcome =
    ('append', next_state) | ('escape', next_state) | ('special', description)"""
    if id(prog) not in _TT_CACHE:
        _TT_CACHE[id(prog)] = _tokeniser_table(prog)
    return _TT_CACHE[id(prog)][:3]


def tokeniser_flags(prog):
    """{(state, char, line_continuation): set of values the "inside parentheses" flag has after the transition
    (True / False assigned on the path, None = left as it was)}"""
    tokeniser_table(prog)
    return _TT_CACHE[id(prog)][3]


def _tokeniser_table(prog):
    fn = prog.find("zones::deserialise::tokenise_entry")
    res = A.Resolver(fn)
    conds = A.Conds(fn, res)
    loops = fn.loops()
    main = max(loops, key=lambda x: len(x[1]))
    header, body = main
    some_edges = [(a, s) for a, s in conds.edges_where(lambda fc: fc[0] == "is" and fc[1] == "Some" and A.peel(fc[2])[0] == "call" and A.peel(fc[2])[1].endswith("::next"))
                  if a in body]
    if len(some_edges) != 1:
        raise A.mir.AnchorMissing("tokenise_entry: element edge not found")
    start = some_edges[0][1]
    exits = {s for b in body for s in fn.succs(b) if s not in body}
    paths = A.region_paths(fn, conds, res, start, {header} | exits)
    states = [v["name"] for v in prog.adt(ZD + "State")["variants"]]
    # the "inside parentheses" flag, by role: the only user bool with several definitions (it is loop-carried state)
    cands = [l for l in range(len(fn.locals)) if fn.local_ty(l) == "bool" and fn.locals[l].get("user")
             and len([d for d in fn.defs().get(l, []) if d[2] != "partial"]) >= 2]
    if len(cands) != 1:
        raise A.mir.AnchorMissing("tokenise_entry: expected one loop-carried bool flag, found %d" % len(cands))
    lc = cands[0]
    cpath = "param1.[]"
    table = {}
    flags = {}
    for st in states:
        for ch in list(range(128)) + [0xE9, 0xA0]:
            for lcv in (False, True):
                env = {cpath: ch, "<variant>": st, "local%d" % lc: lcv}
                hits = []
                for pth in paths:
                    facts, events, end = pth
                    ok = True
                    for fc in facts:
                        h = A.fact_holds(fc, env, states)
                        if h is None:
                            # facts about things produced inside the arm (e.g. `?` on tokenise_escape, token_string.is_empty()) do not select the arm
                            continue
                        if not h:
                            ok = False
                            break
                    if ok:
                        hits.append(pth)
                outs = set()
                fl = set()
                for hp in hits:
                    facts, events, end = hp
                    sets_ = [A.peel(res.rvalue(stt["rv"], (b, 0))) for b in hp.blocks for stt in fn.stmts(b)
                             if stt["k"] == "assign" and A.is_plain_local(stt["dst"]) and stt["dst"]["l"] == lc]
                    fl.add(None if not sets_ else (bool(sets_[-1][2]) if sets_[-1][0] == "const" else "?"))
                    names_ = [e[1] for b, e in events]
                    appended = any(n.endswith("String::push") for n in names_) and any(n.endswith("put_u8") for n in names_)
                    escaped = any(n.endswith("tokenise_escape") for n in names_)
                    tok_end = any(n.endswith("Vec::<T, A>::push") for n in names_)
                    nxt = None
                    for b, i, stt in A.aggregates(fn, ZD + "State"):
                        pass
                    # next state: the State aggregate constructed on this path
                    blocks_on = _blocks_of(fn, facts, events, start, end)
                    if end in exits or end in A.returns(fn):
                        if any("Err" in A.show(x) for _, x in A.return_exprs(fn, res) if _ == end):
                            outs.add(("error",))
                        else:
                            outs.add(("end-of-entry",))
                        continue
                    nxts = [stt["rv"]["variant"] for b in hp.blocks for stt in fn.stmts(b)
                            if stt["k"] == "assign" and stt["rv"]["k"] == "agg" and stt["rv"].get("adt") == ZD + "State"]
                    # an escape yields one octet, which goes into the token's text and into its octets (like any other character)
                    kind_ = ("escape" if appended else "escape-lost") if escaped else ("append" if appended and not tok_end else "special")
                    outs.add((kind_, tok_end, nxts[-1] if nxts else None))
                table[(st, ch, lcv)] = outs
                flags[(st, ch, lcv)] = fl
    return table, fn, states, flags


def _blocks_of(fn, facts, events, start, end):
    return None
