"""C08 — every resolution terminates in bounded time whatever upstream servers do."""
import re
from .. import analysis as A
from ..analysis import Call, Path, Konst
from . import cluster

REC = cluster.REC
FWD = cluster.FWD
NSM = "dns_resolver::util::nameserver::"
NET = "dns_resolver::util::net::"
CTXT = "dns_resolver::context::Context"
TIMEOUT = "tokio::time::timeout"


def duration_secs(e, prog):
    """seconds of a constant Duration expression, or None."""
    e = A.peel(e)
    if e[0] == "const" and e[3] and e[3].get("uneval"):
        # a named `const X: Duration = ..`: use the evaluated constant (secs, nanos)
        c = prog.consts.get(e[3]["uneval"])
        data = (c or {}).get("data") or {}
        if data.get("adt") == "std::time::Duration" and len(data.get("fields", [])) == 2:
            secs = data["fields"][0].get("val")
            nanos = data["fields"][1].get("val")
            if isinstance(secs, int) and isinstance(nanos, int):
                return secs + nanos / 1e9
        return None
    if e[0] != "call":
        return None
    arg = A.peel(e[2][0]) if e[2] else None
    if arg is None or arg[0] != "const" or not isinstance(arg[2], int):
        return None
    n = e[1].rsplit("::", 1)[-1]
    mult = {"from_secs": 1, "from_mins": 60, "from_hours": 3600, "from_millis": 0.001}.get(n)
    if mult is None or "Duration" not in e[1]:
        return None
    return arg[2] * mult


def timeout_wrapped_sites(prog, f, r):
    """{(fnkey, block)} of calls whose future is the 2nd argument of tokio::time::timeout, with the bound."""
    out = {}
    for b, t in A.call_blocks(f, A.name_is(TIMEOUT)):
        e = r.call_expr(t, b)
        fut = A.peel(e[2][1])
        secs = duration_secs(e[2][0], prog)
        if fut[0] == "call":
            out[fut[3]] = (secs, b)
    return out


def match_count_rule(ctx, rule, rn, rr, mc, ch, RW):
    """a better delegation replaces the work-list *and* the match count together: every re-seeding of the work-list from a
    delegation is accompanied by a definition of the match count from the same delegation (else the same referral stays
    "better" for ever: no progress (C08), and a reply can re-delegate a zone the resolver is already inside (C06))"""
    mc_defs = [(d, A.peel(rr._def_expr(d, 0))) for d in rn.defs().get(mc, [])]
    n = 0
    for d in rn.defs().get(ch, []):
        e = A.peel(rr._def_expr(d, 0))
        if not (any(x[0] == "await" and A.peel(x[1])[1] == RW for x in A.walk(e)) and A.last_field(e) == "hostnames"):
            continue
        n += 1
        paired = False
        for md, me in mc_defs:
            if me[0] == "call" and me[1].endswith("Nameservers::match_count") and any(x[0] == "await" and A.peel(x[1])[1] == RW for x in A.walk(me)):
                if md[0] == d[0] or rn.dominates(md[0], d[0]) or rn.dominates(d[0], md[0]):
                    paired = True
        ctx.check(paired, rule, "work-list:reseed-updates-match_count", "the match count is taken from the delegation whose hosts re-seed the work-list",
                  "the work-list is re-seeded from a delegation but the match count is not updated from it: the same referral remains acceptable", rn.loc(d[0]))
    ctx.floor(rule, "work-list re-seedings from a delegation", n, 1)


def candidate_loop_vars(prog):
    rn = prog.body_of(REC + "resolve_recursive_notimeout")
    rr = A.Resolver(rn)
    def _one(xs):
        xs = sorted(set(x for x in xs if x is not None))
        return xs[0] if len(xs) == 1 else None
    ch = _one(A.root_local(rn, t["args"][0]) for b, t in A.call_blocks(rn, A.name_endswith("Vec::<T, A>::pop")))
    mc = _one(l for l in A.locals_defined_as(rn, rr, lambda e: A.peel(e)[0] == "call" and A.peel(e)[1].endswith("Nameservers::match_count")) if rn.locals[l].get("user"))
    return rn, rr, mc, ch


def context_rules(ctx, rule, prog):
    """the stack of questions in flight (shared: C08.5, C10.3): the limit test, the duplicate test, push / pop, ownership,
    capacity = RECURSION_LIMIT"""
    C = cluster.CTX
    # the stack of questions in flight: the one field of Context holding a Vec<Question> (whatever it is called)
    qfields = [x["name"] for x in prog.adt(CTXT)["variants"][0]["fields"] if re.match(r"^std::vec::Vec<.*::Question>$", x["ty"])]
    if len(qfields) != 1:
        raise A.mir.AnchorMissing("Context: expected one Vec<Question> field, found %s" % qfields)
    QS = qfields[0]
    PQS = "param1." + QS
    f = prog.fn(C + "at_recursion_limit")
    r = A.Resolver(f)
    for b, e in A.return_exprs(f, r):
        ok = A.Bin({"Eq", "Ge"}, Call("Vec::<T, A>::len", Path(PQS)), Call("Vec::<T, A>::capacity", Path(PQS)))(e)
        ctx.check(ok, rule, "at_recursion_limit", "len(question_stack) == capacity(question_stack)", "at_recursion_limit returns %s" % A.show(e), f.loc(b))
    f = prog.fn(C + "is_duplicate_question")
    r = A.Resolver(f)
    c_ = A.Conds(f, r)
    def q_equal(fc):
        """an element of question_stack compared equal to the question"""
        if fc[0] == "cmp" and fc[1] == "Eq":
            a_, b_ = fc[2], fc[3]
        elif fc[0] == "call" and fc[3] is True and len(fc[2]) == 2 and fc[1].endswith("::eq"):
            a_, b_ = fc[2]
        else:
            return False
        for x, y in ((a_, b_), (b_, a_)):
            src = A.iter_elem_source(x)
            if src is not None and A.path_str(src) == PQS and A.path_str(y) == "param2":
                return True
        return False
    exhausted = lambda fc: fc[0] == "is" and fc[1] == "None" and A.peel(fc[2])[0] == "call" and A.peel(fc[2])[1].endswith("::next") \
        and A.path_str(A.peel(A.peel(fc[2])[2][0])) == PQS
    for b, e in A.return_exprs(f, r):
        pe = A.peel(e)
        if pe[0] == "const" and pe[2] is True:
            ok = c_.guarded(b, q_equal)[0]                     # `.iter().any(|q| q == question)` / a hand-written loop
        elif pe[0] == "const" and pe[2] is False:
            ok = c_.guarded(b, exhausted)[0] and A.never_after(f, c_.edges_where(q_equal), b)
        else:
            ok = Call("contains", Path(PQS), Path("param2"))(e)
        ctx.check(ok, rule, "is_duplicate_question", "true exactly when question_stack holds the question (contains / any / loop)", "is_duplicate_question returns %s" % A.show(e), f.loc(b))
    f = prog.fn(C + "push_question")
    r = A.Resolver(f)
    ps = A.call_blocks(f, A.name_endswith("Vec::<T, A>::push"))
    ctx.check(len(ps) == 1 and A.path_str(r.call_expr(ps[0][1], ps[0][0])[2][0]) == PQS
              and A.path_str(r.call_expr(ps[0][1], ps[0][0])[2][1]) == "param2", rule, "push_question", "question_stack.push(question.clone())",
              "push_question does not push its argument", f.loc())
    f = prog.fn(C + "pop_question")
    pp = A.call_blocks(f, A.name_endswith("Vec::<T, A>::pop"))
    ctx.check(len(pp) == 1, rule, "pop_question", "question_stack.pop()", "pop_question does not pop", f.loc())
    ws = A.who_writes(prog, CTXT, QS)
    outs = sorted({w[0].key for w in ws if not w[0].file.endswith("context.rs")})
    ctx.check(not outs, rule, "who-writes(question_stack)", "question_stack touched only inside context.rs (field is private)",
              "question_stack written from %s" % outs)
    fld = [x for x in prog.adt(CTXT)["variants"][0]["fields"] if x["name"] == QS]
    ctx.check(bool(fld) and fld[0]["vis"] != "pub", rule, "question_stack:private", "field visibility: %s" % (fld[0]["vis"] if fld else "?"),
              "question_stack is public", None)
    f = prog.fn(C + "new")
    r = A.Resolver(f)
    for b, i, st in A.aggregates(f, CTXT):
        e = r.rvalue(st["rv"], (b, i))
        qs = dict(e[3])[QS]
        ctx.check(Call("with_capacity", A.Param(4))(qs), rule, "Context::new:capacity", "question_stack = Vec::with_capacity(recursion_limit)",
                  "question_stack initialised as %s" % A.show(qs), f.loc(b, i))
    news = A.who_calls(prog, C + "new")
    ctx.floor(rule, "Context::new call sites", len(news), 3)
    lim = A.mir.const_val(prog.const("dns_resolver::RECURSION_LIMIT"))
    ctx.check(isinstance(lim, int) and 1 <= lim <= 64, rule, "RECURSION_LIMIT", "RECURSION_LIMIT = %s" % lim, "RECURSION_LIMIT = %s (expected 1..64)" % lim)
    for fn, b, t in news:
        e = A.Resolver(fn).call_expr(t, b)
        a = A.peel(e[2][3])
        ok = a[0] == "const" and a[3] is not None and a[3].get("uneval") == "dns_resolver::RECURSION_LIMIT"
        ctx.check(ok, rule, "Context::new@%s#%d" % (A.short(fn.root_key), news.index((fn, b, t))), "limit argument = RECURSION_LIMIT",
                  "Context::new called with limit %s" % A.show(e[2][3]), fn.loc(b))



def run(ctx):
    prog = ctx.prog
    ctx.rule("C08.1", "resolve_recursive/resolve_forwarding only await timeout(<=60 s, X_notimeout(..)); Elapsed -> Timeout error; nobody else enters X_notimeout from outside the cluster")
    ctx.rule("C08.2", "every network primitive of dns_resolver is awaited under tokio::time::timeout with a constant <= 5 s")
    ctx.rule("C08.3", "recursion-limit and duplicate-question guards dominate every re-entrant call and return Err")
    ctx.rule("C08.4", "push/pop typestate: nested resolutions run with the own question pushed, every exit is balanced")
    ctx.rule("C08.5", "Context: limit = len == capacity, duplicate = contains, stack private to context.rs, capacity = RECURSION_LIMIT (<= 64)")
    ctx.rule("C08.6", "candidate loop: match_count only from the candidates in use; work-list re-seeded only from a validated better delegation or once from the deferred list")
    ctx.rule("C08.7", "every loop of the resolver has a progress step whose removal leaves no cycle (iterator next / work-list pop / await)")
    ctx.rule("C08.8", "every panic-capable site reachable from resolve() is discharged (guards on the indexed container, justified externals, mutex never poisoned)")
    ctx.rule("C08.10", "an upstream reply cannot hang the decoder: every decoder loop consumes input or counts down a u16, compression pointers strictly descend, there is no call cycle (the rules of C03.2 - C03.4, decided here as well: a decoder that spins never yields, so no timeout can fire)")
    ctx.rule("C08.9", "dns_resolver builds ResourceRecords only in cache::to_rrs: everything returned was supplied by upstream or local data")
    ctx.decline("actual elapsed time and scheduler behaviour")

    # ---------------------------------------------------------------- C08.1
    for wrapper, inner in ((REC + "resolve_recursive", REC + "resolve_recursive_notimeout"),
                           (FWD + "resolve_forwarding", FWD + "resolve_forwarding_notimeout")):
        f = prog.body_of(wrapper)
        r = A.Resolver(f)
        wrapped = timeout_wrapped_sites(prog, f, r)
        inner_calls = A.call_blocks(f, A.name_is(inner))
        ctx.floor("C08.1", "%s call in %s" % (A.short(inner), A.short(wrapper)), len(inner_calls), 1, exact=True)
        for b, t in inner_calls:
            w = wrapped.get((f.key, b))
            ctx.check(w is not None and w[0] is not None and 0 < w[0] <= 60, "C08.1", "%s:timeout-60" % A.short(wrapper),
                      "awaited as timeout(%s s, %s(..))" % (w[0] if w else "?", A.short(inner)),
                      "%s is awaited without a constant timeout <= 60 s (%s)" % (A.short(inner), w), f.loc(b))
        yields = [b for b in f.live_blocks() if f.term(b)["k"] == "yield"]
        ctx.check(len(yields) == 1, "C08.1", "%s:single-await" % A.short(wrapper), "exactly one await point (the timeout)",
                  "%d await points in the wrapper" % len(yields), f.loc())
        rets = A.return_exprs(f, r)
        ok_ok = any(A.show(e).startswith("(await(time::timeout(") and "as Ok" in A.show(e) for _, e in rets)
        ok_err = any(A.peel(e)[0] == "agg" and A.peel(e)[2] == "Err" and "Timeout" in A.show(e) for _, e in rets)
        ctx.check(ok_ok and ok_err and len(rets) == 2, "C08.1", "%s:result-map" % A.short(wrapper),
                  "Ok(res) -> res, Err(Elapsed) -> Err(Timeout)", "wrapper returns %s" % [A.show(e) for _, e in rets], f.loc())
        callers = {fn.root_key for fn, _, _ in A.who_calls(prog, inner)}
        allowed = {wrapper, inner, REC + "resolve_combined_recursive", REC + "resolve_hostname_to_ip"}
        ctx.check(callers <= allowed, "C08.1", "who-calls(%s)" % A.short(inner), "callers ⊆ wrapper + cluster helpers",
                  "%s is entered from %s" % (A.short(inner), sorted(callers - allowed)))
    top = prog.body_of("dns_resolver::resolve")
    names = {t.get("resolved") or t.get("callee") for _, t in top.calls()}
    ctx.check(REC + "resolve_recursive" in names and FWD + "resolve_forwarding" in names and not (names & {REC + "resolve_recursive_notimeout", FWD + "resolve_forwarding_notimeout"}),
              "C08.1", "resolve:uses-wrappers", "resolve() calls only the timeout wrappers", "resolve() bypasses a timeout wrapper", top.loc())

    # ---------------------------------------------------------------- C08.2
    io_prim = lambda n: n.startswith("tokio::net::") or n.startswith("tokio::io::")
    roots = sorted({f.root_key for f in prog.fns.values() if f.crate == "dns_resolver"})
    wrapped_all = {}
    for k in roots:
        for f in prog.family(k):
            wrapped_all.update(timeout_wrapped_sites(prog, f, A.Resolver(f)))
    ub = set()
    changed = True
    unwrapped_sites = {}
    while changed:
        changed = False
        for k in roots:
            if k in ub:
                continue
            for f in prog.family(k):
                for b, t in f.calls():
                    n = t.get("callee") or ""
                    rn = t.get("resolved") or n
                    tgt = rn if rn in prog.fns else n
                    is_io = io_prim(n) and not n.endswith("::new") and "Future::poll" not in n
                    is_ub = tgt in prog.fns and prog.fns[tgt].root_key in ub and prog.fns[tgt].root_key != k
                    if (is_io or is_ub) and (f.key, b) not in wrapped_all:
                        ub.add(k)
                        unwrapped_sites.setdefault(k, []).append((f.loc(b), A.short(n)))
                        changed = True
                        break
                if k in ub:
                    break
    expect_ub = {NSM + "query_nameserver_udp_notimeout", NSM + "query_nameserver_tcp_notimeout",
                 NET + "send_udp_bytes", NET + "send_udp_bytes_to", NET + "send_tcp_bytes", NET + "read_tcp_bytes"}
    ctx.check(ub == expect_ub, "C08.2", "unbounded-io-set", "functions awaiting network I/O without their own timeout = the six transport helpers",
              "functions that can await network I/O without a timeout: %s (sites %s)" % (sorted(ub ^ expect_ub), {k: unwrapped_sites.get(k) for k in ub - expect_ub}))
    n_wrapped = 0
    for (fk, b), (secs, tb) in sorted(wrapped_all.items()):
        f = prog.fns[fk]
        t = f.term(b)
        tgt = t.get("resolved") or t.get("callee")
        if tgt in prog.fns and prog.fns[tgt].root_key in expect_ub:
            n_wrapped += 1
            ctx.check(secs is not None and 0 < secs <= 5, "C08.2", "timeout-5:%s" % A.short(tgt), "timeout(%s s, %s(..))" % (secs, A.short(tgt)),
                      "%s is awaited under a timeout of %s s (expected a constant <= 5)" % (A.short(tgt), secs), f.loc(b))
    ctx.floor("C08.2", "transport exchanges wrapped in a 5 s timeout", n_wrapped, 2, exact=True)
    # the wrappers turn Elapsed into None (no retry loop)
    for w in ("query_nameserver_udp", "query_nameserver_tcp"):
        f = prog.body_of(NSM + w)
        ctx.check(not f.loops() or all(any(f.term(x)["k"] == "yield" for x in body) for _, body in f.loops()), "C08.2", w + ":no-retry-loop",
                  "no loop besides the await poll loop", "retry loop in %s" % w, f.loc())
    q = prog.body_of(NSM + "query_nameserver")
    ex = A.call_blocks(q, A.name_is(NSM + "query_nameserver_udp", NSM + "query_nameserver_tcp"))
    in_loop = [b for b, _ in ex if any(b in body and not any(q.term(x)["k"] == "yield" and x in body for x in body) for _, body in q.loops())]
    ctx.check(len(ex) == 2 and not in_loop, "C08.2", "query_nameserver:two-exchanges", "one UDP and one TCP exchange, neither in a loop (<= 10 s)",
              "query_nameserver performs %d exchanges, %d inside loops" % (len(ex), len(in_loop)), q.loc())

    # ---------------------------------------------------------------- C08.3 / C08.4
    cluster.check_guards(ctx, "C08.3", prog)
    cluster.check_pushpop(ctx, "C08.4", prog)

    # ---------------------------------------------------------------- C08.5
    context_rules(ctx, "C08.5", prog)

    # ---------------------------------------------------------------- C08.6 / C08.7 (candidate loop)
    rn = prog.body_of(REC + "resolve_recursive_notimeout")
    rr = A.Resolver(rn)
    # the four loop variables, found by their roles (not their names):
    #   work-list = the Vec popped by the loop; deferred list = the Vec the loop pushes a clone of the popped host onto;
    #   phase flag = the bool handed to resolve_hostname_to_ip; match count = the usize defined by Nameservers::match_count()
    def _one(xs):
        xs = sorted(set(x for x in xs if x is not None))
        return xs[0] if len(xs) == 1 else None
    ch = _one(A.root_local(rn, t["args"][0]) for b, t in A.call_blocks(rn, A.name_endswith("Vec::<T, A>::pop")))
    fl = _one(A.root_local(rn, t["args"][1]) for b, t in A.call_blocks(rn, A.name_is(REC + "resolve_hostname_to_ip")) if len(t["args"]) >= 2)
    mc = _one(l for l in A.locals_defined_as(rn, rr, lambda e: A.peel(e)[0] == "call" and A.peel(e)[1].endswith("Nameservers::match_count")) if rn.locals[l].get("user"))
    nx = _one(A.root_local(rn, t["args"][0]) for b, t in A.call_blocks(rn, A.name_endswith("Vec::<T, A>::push"))
              if "DomainName" in rn.local_ty(A.root_local(rn, t["args"][0]) or 0) and A.root_local(rn, t["args"][0]) != ch)
    ctx.check(None not in (mc, ch, nx, fl), "C08.6", "candidate-loop:variables", "found match_count / candidate_hostnames / next_candidate_hostnames / resolve_candidates_locally",
              "candidate loop variables not found (anchor moved)", rn.loc())
    if None not in (mc, ch, nx, fl):
        RW = REC + "resolve_with_nameserver_response"
        for d in rn.defs().get(mc, []):
            e = A.peel(rr._def_expr(d, 0))
            src = A.peel(e[2][0]) if e[0] == "call" and e[1].endswith("Nameservers::match_count") else None
            ok = src is not None and (A.show(src).find("candidates") >= 0 or src[0] in ("field", "downcast", "phi", "call", "local") )
            from_deleg = src is not None and any(x[0] == "await" and A.peel(x[1])[1] == RW for x in A.walk(src))
            from_init = src is not None and not from_deleg and d[0] not in {b for _, body in rn.loops() for b in body if any(rn.term(y)["k"] == "call" and (rn.term(y).get("callee") or "").endswith("Vec::<T, A>::pop") for y in body)}
            ctx.check(src is not None and (from_deleg or from_init), "C08.6", "match_count:def@%s" % ("delegation" if from_deleg else "init"),
                      "match_count = <nameservers in use>.match_count()", "match_count assigned %s" % A.show(e), rn.loc(d[0]))
        # validator gets the current match_count
        for fn in prog.family(REC + "resolve_recursive_notimeout"):
            for b, t in A.call_blocks(fn, A.name_is(REC + "validate_nameserver_response")):
                e = A.Resolver(fn).call_expr(t, b)
                ps = A.path_str(e[2][2])
                is_mc = (fn is rn and A.root_local(fn, t["args"][2]) == mc) or (ps is not None and mc is not None and ps.lstrip("^*") == rn.names.get(mc))
                ctx.check(is_mc, "C08.6", "validate:current-match_count", "validate_nameserver_response(.., match_count)",
                          "validator called with match count %s" % A.show(e[2][2]), fn.loc(b))
        match_count_rule(ctx, "C08.6", rn, rr, mc, ch, RW)
        # work-list re-seeding
        for d in rn.defs().get(ch, []):
            e = A.peel(rr._def_expr(d, 0))
            s = A.show(e)
            kind = None
            if any(x[0] == "await" and A.peel(x[1])[1] == RW for x in A.walk(e)) and A.last_field(e) == "hostnames":
                kind = "delegation"
            elif A.last_field(e) == "hostnames":
                kind = "initial"
            elif d[2] == "assign" and _moved_from(rn, rn.blocks[d[0]]["stmts"][d[1]]["rv"]) == nx:
                kind = "deferred"
            ok = kind is not None
            if kind == "deferred":
                pops = [b for b, _ in A.call_blocks(rn, A.name_endswith("Vec::<T, A>::pop"))]
                ok = bool(pops) and all(pb not in rn.reachable(d[0], removed_blocks=_blocks_setting_false(rn, fl)) for pb in pops)
            ctx.check(ok, "C08.6", "work-list:reseed@%s" % kind, "work-list re-seeded from %s" % kind,
                      "candidate work-list re-seeded from %s" % s, rn.loc(d[0]))
    # ---------------------------------------------------------------- C08.7
    loop_fns = [prog.body_of(REC + "resolve_recursive_notimeout"), prog.body_of(FWD + "resolve_forwarding_notimeout"),
                prog.body_of(REC + "resolve_hostname_to_ip"), prog.body_of(REC + "resolve_with_nameserver_response"),
                prog.body_of(REC + "resolve_combined_recursive"), prog.fn(REC + "candidate_nameservers"),
                prog.fn(REC + "validate_nameserver_response"), prog.fn(REC + "follow_cnames"), prog.fn(REC + "get_better_ns_names"),
                prog.fn(cluster.LOCAL), prog.fn("dns_resolver::util::types::prioritising_merge"),
                prog.fn(NSM + "get_nxdomain_nodata_soa"), prog.body_of(NSM + "query_nameserver")]
    nloops = 0
    for f in loop_fns:
        for header, body in f.loops():
            nloops += 1
            prog_blocks = []
            kind = None
            for b in body:
                t = f.term(b)
                if t["k"] == "yield":
                    prog_blocks.append(b)
                    kind = "await"
                elif t["k"] == "call":
                    n = t.get("resolved") or t.get("callee") or ""
                    if n.endswith("::next") and "Iterator" in n:
                        prog_blocks.append(b)
                        kind = kind or "iterator"
                    elif n.endswith("Vec::<T, A>::pop"):
                        prog_blocks.append(b)
                        kind = kind or "work-list pop"
                    elif n.endswith("HashSet::<T, S, A>::insert") and f.key.endswith("follow_cnames"):
                        prog_blocks.append(b)
                        kind = kind or "visited-set growth"
            ok = bool(prog_blocks) and not f.has_cycle(removed_blocks=prog_blocks, within=body)
            ctx.check(ok, "C08.7", "%s:loop@%s" % (A.short(f.key), kind or "?"), "every cycle passes a progress step (%s)" % kind,
                      "loop at %s has a cycle without a progress step" % f.loc(header), f.loc(header))
    ctx.floor("C08.7", "loops in the resolver", nloops, 10)
    # follow_cnames: progress = insert of a not-yet-seen target
    fc = prog.fn(REC + "follow_cnames")
    fr = A.Resolver(fc)
    fcc = A.Conds(fc, fr)
    for b, t in A.call_blocks(fc, A.name_endswith("HashSet::<T, S, A>::insert")):
        e = fr.call_expr(t, b)
        ok, _ = fcc.guarded(b, lambda fct, e=e: fct[0] == "call" and fct[1].endswith("HashSet::<T, S, A>::contains") and fct[3] is False
                            and A.same(fct[2][0], e[2][0]) and A.same(fct[2][1], e[2][1]))
        if not ok:
            # `if !seen.insert(x) { return None }`: the insert itself is the test - a repeat leaves the walk
            rep = fcc.edges_where(lambda fct, b=b: fct[0] == "call" and fct[1].endswith("HashSet::<T, S, A>::insert") and fct[3] is False and fct[2] and A.same(fct[2][0], e[2][0]))
            loop_hdrs = {h_ for h_, _ in fc.loops()}
            ok = bool(rep) and all(not (A.reachable_tagged(fc, s_) & loop_hdrs) for a_, s_ in rep)
        ctx.check(ok, "C08.7", "follow_cnames:fresh-target", "seen.insert(target) only when !seen.contains(target) (else return None)",
                  "the visited set is not checked before following a CNAME", fc.loc(b))

    # ---------------------------------------------------------------- C08.10
    from . import C03
    from ..core import RuleAlias
    C03.run(RuleAlias(ctx, {"C03.2": "C08.10", "C03.3": "C08.10", "C03.4": "C08.10"}))

    # ---------------------------------------------------------------- C08.8
    from .. import panics as P
    from . import panicjust
    state = {}
    fns = [f for f in P.reach_set(prog, ["dns_resolver::resolve"]) if not f.derived]
    ctx.floor("C08.8", "functions reachable from resolve()", len(fns), 100)
    d = P.Discharger(ctx, "C08.8", prog, panicjust.make(prog, state))
    before = len(ctx.violations)
    counts = d.run(fns)
    bad_fns = {v["site"].split(":")[0] for v in ctx.violations[before:]}
    und = [f.key for f in fns if A.short(f.key) in bad_fns]
    panicjust.settle_mutex(ctx, "C08.8", prog, state, und)
    ctx.floor("C08.8", "indexing sites examined in the resolver", counts.get("call:index", 0) + counts.get("assert:BoundsCheck", 0), 10)
    ctx.note("C08.8 site kinds: %s" % counts)

    # ---------------------------------------------------------------- C08.9
    RR = "dns_types::protocol::types::ResourceRecord"
    cons = [x for x in A.who_constructs(prog, RR) if x[0].crate == "dns_resolver"]
    where = sorted({x[0].root_key for x in cons})
    ctx.check(where == ["dns_resolver::cache::to_rrs"], "C08.9", "who-constructs(ResourceRecord)@dns_resolver",
              "only cache::to_rrs (re-materialising stored records)", "ResourceRecord fabricated in %s" % where)


def _blocks_setting_false(fn, flag_local):
    out = set()
    for b, i, st in fn.assigns():
        if st["dst"] == {"l": flag_local} and st["rv"]["k"] == "use" and "const" in st["rv"]["op"] and st["rv"]["op"]["const"].get("val") is False:
            out.add(b)
    return out


def _moved_from(fn, rv):
    """local a value is moved from, looking through single-def temporaries."""
    seen = set()
    while rv.get("k") == "use":
        pl = A.op_place(rv["op"])
        if pl is None or pl.get("p"):
            return None
        l = pl["l"]
        if l in seen:
            return None
        seen.add(l)
        sd = fn.single_def(l)
        if sd is None or sd[2] != "assign" or fn.locals[l]["user"]:
            return l
        rv = fn.blocks[sd[0]]["stmts"][sd[1]]["rv"]
    return None
