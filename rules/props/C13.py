"""C13 — writing a zone to text and reading it back changes nothing (structural clauses)."""
from .. import analysis as A
from ..analysis import Call, Path, Param, Konst
from . import zonetext, codec

T = "dns_types::protocol::types::"
Z = "dns_types::zones::types::"
ZS = "dns_types::zones::serialise::"
ZD = "dns_types::zones::deserialise::"
ZIMPL = ZS + "<impl dns_types::zones::types::Zone>::"


def escape_rules(ctx, rule):
    """C13.1 (shared with C11.6): writer escape classes vs tokeniser character classes."""
    prog = ctx.prog
    wt, wfn = zonetext.writer_classes(prog)
    tt, tfn, states = zonetext.tokeniser_table(prog)
    ctx.sites_examined += len(wt) + len(tt)
    other = sorted(k for k, v in wt.items() if v[0] == "other")
    ctx.check(not other, rule, "writer:classes", "every (octet, quoted) is literal, backslash-char or backslash-DDD (512 cases tabulated)", "unclassifiable writer output for %s" % other[:5], wfn.loc())
    bad = []
    for (v, q), cls in sorted(wt.items()):
        if cls[0] != "literal":
            continue
        if v >= 128:
            bad.append((v, q, "non-ASCII literal"))
            continue
        sts = ("QuotedString",) if q else ("Initial", "UnquotedString")
        want = ("append", False, "QuotedString" if q else "UnquotedString")
        for st in sts:
            for lc in (False, True):
                if tt[(st, v, lc)] != {want}:
                    bad.append((v, q, st, sorted(map(str, tt[(st, v, lc)]))))
    ctx.check(not bad, rule, "literal-set-is-plain", "every octet written literally is an ordinary token character for the tokeniser (unquoted: Initial+UnquotedString, quoted: QuotedString)",
              "octets written literally but treated specially when read back: %s" % bad[:4], wfn.loc())
    bs = sorted({v for (v, q), cls in wt.items() if cls[0] == "bs"})
    ctx.check(all(v < 128 and not (48 <= v <= 57) for v in bs) and 92 in bs and 34 in bs, rule, "backslash-set", "backslash-X is used only for ASCII non-digits (incl. backslash and double quote)",
              "backslash-escaped set %s contains a digit / non-ASCII or misses backslash / double quote" % bs, wfn.loc())
    # every character with a dedicated tokeniser transition is escaped by the writer
    specials = set()
    for (st, ch, lc), outs in tt.items():
        if ch < 128 and st in ("Initial", "UnquotedString"):
            if not all(o[0] == "append" for o in outs):
                specials.add(ch)
    unescaped = sorted(ch for ch in specials if wt[(ch, False)][0] == "literal")
    ctx.check(not unescaped, rule, "specials-escaped:unquoted", "unquoted: whitespace, ; ( ) double quote, backslash and newline are never written literally", "special characters written literally (unquoted): %s" % unescaped, wfn.loc())
    qspecial = {ch for (st, ch, lc), outs in tt.items() if st == "QuotedString" and ch < 128 and not all(o[0] == "append" for o in outs)}
    unesc_q = sorted(ch for ch in qspecial if wt[(ch, True)][0] == "literal")
    ctx.check(not unesc_q, rule, "specials-escaped:quoted", "quoted: double quote and backslash are never written literally", "special characters written literally (quoted): %s" % unesc_q, wfn.loc())
    # inside a quoted string only the closing quote leaves the quoted state (an escape, whitespace, `;`, parentheses do not);
    # an escape in an unquoted token stays in it, and one at the start of a token starts an unquoted token
    bad_q = sorted({(ch, o[2]) for (st, ch, lc), outs in tt.items() if st == "QuotedString" and ch != 34 for o in outs
                    if len(o) >= 3 and o[0] not in ("error", "end-of-entry") and o[2] != "QuotedString"})
    ctx.check(not bad_q, rule, "quoted-state-stable", "only `\"` leaves the QuotedString state", "the quoted state is left by %s" % [(chr(c), n) for c, n in bad_q[:5]], tfn.loc())
    esc_next = {st: sorted({o[2] for lc in (False, True) for o in tt[(st, 92, lc)] if o[0] in ("escape", "escape-lost")}) for st in ("Initial", "UnquotedString", "QuotedString")}
    ctx.check(esc_next == {"Initial": ["UnquotedString"], "UnquotedString": ["UnquotedString"], "QuotedString": ["QuotedString"]}, rule, "escape-keeps-state",
              "an escape continues the token it is in (or starts an unquoted one)", "state after an escape: %s" % esc_next, tfn.loc())
    lost_esc = sorted({st for (st, ch, lc), outs in tt.items() if any(o[0] == "escape-lost" for o in outs)})
    ctx.check(not lost_esc, rule, "escape-appended", "the octet an escape stands for is appended to the token (text and octets)", "the escaped octet is not appended in state(s) %s" % lost_esc, tfn.loc())
    for st in ("Initial", "UnquotedString", "QuotedString"):
        ok = all(any(o[0] == "escape" for o in tt[(st, 92, lc)]) for lc in (False, True))
        ctx.check(ok, rule, "backslash-honoured:" + st, "a backslash starts an escape in state %s" % st, "backslash is not an escape in state %s" % st, tfn.loc())
    # a token that is being read is handed over when something ends it (whitespace, a comment, a parenthesis, a quote,
    # the end of the entry): every such transition out of UnquotedString has a path that emits the token
    lost = []
    for (st, ch, lc), outs in tt.items():
        if st != "UnquotedString" or ch >= 128:
            continue
        leaves = [o for o in outs if o[0] in ("special", "end-of-entry") and (len(o) < 3 or o[2] != "UnquotedString")]
        if leaves and not any((len(o) >= 2 and o[1] is True) for o in outs) and not any(o[0] == "end-of-entry" for o in outs):
            lost.append((ch, lc))
    ctx.check(not lost, rule, "token-emitted-when-ended", "whatever ends an unquoted token also emits it", "the unquoted token is dropped when it is ended by %s" % sorted({chr(c) for c, _ in lost}), tfn.loc())
    ok = all(tt[("QuotedString", 34, lc)] == {("special", True, "Initial")} for lc in (False, True))
    ctx.check(ok, rule, "quote-closes", "a double quote ends a quoted token (emitting it even when empty)", "closing quote handling changed: %s" % tt[("QuotedString", 34, False)], tfn.loc())
    return wt, tt


def escape_reader_rules(ctx, rule):
    """how tokenise_escape reads an escape (shared: C13.2, C11.6): backslash-DDD = three decimal digits in order with a u8
    range check, backslash-X (X an ASCII non-digit) = X itself, at most three characters consumed"""
    prog = ctx.prog
    te = prog.find("zones::deserialise::tokenise_escape")
    ter = A.Resolver(te)
    tec = A.Conds(te, ter)
    nexts = [b for b, t in te.calls() if (t.get("callee") or "").endswith("Iterator::next")]
    nexts.sort(key=lambda x: sum(1 for y in nexts if te.dominates(y, x)))
    oks = [(b, A.peel(e)) for b, e in A.return_exprs(te, ter) if A.peel(e)[0] == "agg" and A.peel(e)[2] == "Ok"]
    ctx.floor(rule, "Ok returns of tokenise_escape", len(oks), 2, exact=True)
    def digit_of(x):
        x = A.peel(x)
        if x[0] == "field" and x[1][0] == "downcast" and x[1][2] == "Some":
            c = A.peel(x[1][1])
            if c[0] == "call" and c[1].endswith("char>::to_digit") and A.peel(c[2][1])[2] == 10:
                src = [y for y in A.walk(c[2][0]) if y[0] == "call" and y[1].endswith("::next")]
                return src[0][3][1] if src else None
        return None
    seen_ddd = seen_x = False
    for b, e in oks:
        v = A.peel(dict(e[3])["0"])
        if v[0] == "field" and v[1][0] == "downcast" and v[1][2] == "Ok":
            tf = A.peel(v[1][1])
            if tf[0] == "call" and tf[1].endswith("try_from") and "u8" in tf[1]:
                s = A.peel(tf[2][0])
                def flat(x):
                    x = A.peel(x)
                    if x[0] == "field" and x[2] == "0" and A.peel(x[1])[0] == "bin":
                        x = A.peel(x[1])
                    return x
                s = flat(s)
                okf = s[0] == "bin" and s[1].startswith("Add")
                if okf:
                    l, d3 = flat(s[2]), s[3]
                    okf = l[0] == "bin" and l[1].startswith("Add")
                    if okf:
                        m1, m2 = flat(l[2]), flat(l[3])
                        okf = m1[0] == "bin" and m1[1].startswith("Mul") and A.peel(m1[3])[2] == 100 and m2[0] == "bin" and m2[1].startswith("Mul") and A.peel(m2[3])[2] == 10
                        if okf:
                            sites = [digit_of(m1[2]), digit_of(m2[2]), digit_of(d3)]
                            okf = sites == nexts[:3]
                seen_ddd = okf
        elif v[0] == "cast":
            src = [y for y in A.walk(v[1]) if y[0] == "call" and y[1].endswith("::next")]
            g1, _ = tec.guarded(b, lambda fc: fc[0] == "call" and fc[1].endswith("char>::is_ascii") and fc[3] is True)
            g2, _ = tec.guarded(b, lambda fc: fc[0] == "is" and fc[1] == "None" and A.peel(fc[2])[0] == "call" and A.peel(fc[2])[1].endswith("to_digit"))
            seen_x = bool(src) and src[0][3][1] == nexts[0] and g1 and g2
    ctx.check(seen_ddd, rule, "reader:ddd", "three consecutive digits d1 d2 d3 -> u8::try_from(d1*100 + d2*10 + d3)", "backslash-DDD is not read as three decimal digits in order", te.loc())
    ctx.check(seen_x, rule, "reader:backslash-char", "backslash-X (X an ASCII non-digit) -> X", "backslash-X is not read back as X", te.loc())
    ctx.check(len(nexts) == 3, rule, "reader:width", "an escape consumes at most three characters", "escape reads %d characters" % len(nexts), te.loc())



def run(ctx):
    prog = ctx.prog
    ctx.rule("C13.1", "writer escape classes vs tokeniser character classes, tabulated over all 256 octets x {quoted, unquoted} and 4 states x 130 characters (condition tables extracted from MIR)")
    ctx.rule("C13.2", "backslash-DDD: three digits written (hundreds, tens, units), three digits read as d1*100+d2*10+d3 with a u8 range check; backslash-X yields X")
    ctx.rule("C13.3", "RecordType Display and FromStr tables are mutually inverse; TYPE<n> both ways")
    ctx.rule("C13.4", "every RDATA variant the writer prints has a parser arm with the same number, order and kinds of fields")
    ctx.rule("C13.5", "$ORIGIN / relative-name conditions agree between header, owner names and RDATA names; ztoz = deserialise then serialise")
    ctx.rule("C13.6", "apex agreement: the reader builds the zone at the SOA record's owner, or the default root zone without a SOA - what the writer's `$ORIGIN` / absolute-name conditions assume (C11.4, decided here as well)")
    ctx.decline("zone == parse(print(zone)) for every zone; a label that is exactly `@` or starts with `*` is re-read as the apex / a wildcard (specials resolved after un-escaping: no escape-set rule can see it)")

    wt, tt = escape_rules(ctx, "C13.1")
    # the reader gives a file the apex the writer assumed: the SOA owner with a SOA, the root (default zone) without (C11.4)
    from ..core import RuleAlias
    if not isinstance(ctx, RuleAlias):
        from . import C11
        C11.run(RuleAlias(ctx, {"C11.4": "C13.6"}))
    so = prog.fn(ZS + "serialise_octets")
    sor = A.Resolver(so)
    soc = A.Conds(so, sor)
    quotes = [(b, sor.call_expr(t, b)) for b, t in A.call_blocks(so, A.name_endswith("String::push")) if A.peel(sor.call_expr(t, b)[2][1])[2] == 34]
    loop_blocks = set().union(*[bd for _, bd in so.loops()])
    ok = len(quotes) == 2 and all(soc.guarded(b, lambda fc: fc[0] in ("truth", "ltruth") and (fc[0] == "ltruth" and fc[1] == 2 or fc[0] == "truth" and A.peel(fc[1]) == ("param", 2)) and fc[2] is True)[0] for b, e in quotes) \
        and all(b not in loop_blocks for b, e in quotes)
    ctx.check(ok, "C13.1", "quoted:delimiters", "quoted output is wrapped in one pair of quotes", "quote delimiters changed", so.loc())

    # ---------------------------------------------------------------- C13.2
    ddd_ok = all(cls[1] == [48 + v // 100, 48 + (v // 10) % 10, 48 + v % 10] for (v, q), cls in wt.items() if cls[0] == "ddd")
    ctx.check(ddd_ok, "C13.2", "writer:ddd-digits", "backslash-DDD digits are hundreds, tens, units of the octet (tabulated for every escaped octet)", "backslash-DDD digits are not the decimal digits of the octet", so.loc())
    escape_reader_rules(ctx, "C13.2")

    # ---------------------------------------------------------------- C13.3
    disp = prog.fn("<%sRecordType as std::fmt::Display>::fmt" % T)
    dr = A.Resolver(disp)
    dc = A.Conds(disp, dr)
    dtab = {}
    for b, t in disp.calls():
        n = t.get("callee") or ""
        if n.endswith("Arguments::<'a>::from_str"):
            s = A.peel(dr.call_expr(t, b)[2][0])[2]
            vs = [fc[1] for fc in dc.facts_on_all_paths(b) if fc[0] == "is" and A.peel(fc[2]) == ("param", 1)]
            dtab[vs[-1] if vs else "?"] = s
        elif n.endswith("Arguments::<'a>::new"):
            e = dr.call_expr(t, b)
            tpl = A.peel(e[2][0])
            bs = (tpl[3] or {}).get("bytes") if tpl[0] == "const" else None
            vs = [fc[1] for fc in dc.facts_on_all_paths(b) if fc[0] == "is" and A.peel(fc[2]) == ("param", 1)]
            dtab[vs[-1] if vs else "?"] = zonetext.decode_template(bs) if bs else None
    fs = prog.fn("<%sRecordType as std::str::FromStr>::from_str" % T)
    fr = A.Resolver(fs)
    fc_ = A.Conds(fs, fr)
    ftab = {}
    default_ok = False
    for b, e in A.return_exprs(fs, fr):
        pe = A.peel(e)
        if pe[0] != "agg" or pe[2] != "Ok":
            continue
        v = A.peel_refs(dict(pe[3])["0"])
        strs = [A.peel(fc[3])[2] if A.peel(fc[3])[0] == "const" else A.peel(fc[2])[2] for fc in fc_.facts_on_all_paths(b) if fc[0] == "cmp" and fc[1] == "Eq"
                and (A.peel(fc[2]) == ("param", 1) or A.peel(fc[3]) == ("param", 1))]
        if v[0] == "agg" and strs:
            ftab[strs[-1]] = v[2]
        elif v[0] == "call" and v[1] == "<%sRecordType as std::convert::From<u16>>::from" % T:
            num = A.peel(v[2][0])
            sp = [x for x in A.walk(num) if x[0] == "call" and x[1].endswith("<impl str>::strip_prefix")]
            default_ok = bool(sp) and A.peel(sp[0][2][1])[2] == "TYPE" and A.peel(sp[0][2][0]) == ("param", 1) and \
                bool([x for x in A.walk(num) if x[0] == "call" and "FromStr for u16" in x[1]])
    names = {v: k for k, v in dtab.items() if isinstance(v, str)}
    ctx.check(len(names) == 18 and names == ftab, "C13.3", "type-names:inverse", "Display and FromStr agree on all 18 mnemonics", "Display table %s vs FromStr table %s" % (sorted(names.items())[:4], sorted(ftab.items())[:4]), disp.loc())
    ctx.check(dtab.get("Unknown") == [("lit", "TYPE"), ("arg",)] and default_ok, "C13.3", "type-names:TYPEn", "unknown types print as TYPE<n> and TYPE<n> parses back through RecordType::from(n)",
              "TYPE<n> handling: display %s, parse ok %s" % (dtab.get("Unknown"), default_ok), disp.loc())

    # ---------------------------------------------------------------- C13.4
    sr = prog.fn(ZIMPL + "serialise_rdata")
    srr = A.Resolver(sr)
    src_ = A.Conds(sr, srr)
    wfields = {}
    rtwd = prog.adt(codec.RTWD)
    ftypes = {v["name"]: {f["name"]: f["ty"] for f in v["fields"]} for v in rtwd["variants"]}
    def kind_of(variant, field):
        ty = ftypes[variant].get(field, "")
        if ty.endswith("DomainName"):
            return "domain"
        if ty in ("u16", "u32"):
            return ty
        if "Ipv4Addr" in ty or "Ipv6Addr" in ty:
            return "addr"
        if "Bytes" in ty:
            return "octets"
        return ty
    for b, e in A.return_exprs(sr, srr):
        vs = [fc[1] for fc in src_.facts_on_all_paths(b) if fc[0] == "is" and A.peel(fc[2]) == ("param", 2)]
        if not vs:
            continue
        v = vs[-1]
        pe = A.peel_until_call(e, "fmt::format")
        items = []
        seps_ok = True
        if pe[0] == "call" and pe[1].endswith("fmt::format"):
            args = A.peel(pe[2][0])
            tpl = A.peel(args[2][0])
            dec = zonetext.decode_template((tpl[3] or {}).get("bytes") or []) if tpl[0] == "const" else None
            arr = A.peel(args[2][1])
            elems = arr[1] if arr[0] == "array" else []
            lits = [x[1] for x in (dec or []) if x[0] == "lit"]
            seps_ok = dec is not None and all(l == " " for l in lits) and len(lits) == len(elems) - 1
            for el in elems:
                x = A.peel(el)
                inner = A.peel(x[2][0]) if x[0] == "call" and x[1].endswith("new_display") else x
                if inner[0] == "call" and inner[1] == ZIMPL + "serialise_domain":
                    items.append(("domain", A.last_field(inner[2][1])))
                else:
                    items.append((kind_of(v, A.last_field(inner)), A.last_field(inner)))
        elif A.peel(e)[0] == "call" and A.peel(e)[1] == ZIMPL + "serialise_domain":
            items.append(("domain", A.last_field(A.peel(e)[2][1])))
        elif A.peel(e)[0] == "call" and A.peel(e)[1] == ZS + "serialise_octets":
            q = A.peel(A.peel(e)[2][1])
            items.append(("octets" if q[0] == "const" and q[2] is True else "octets-unquoted", A.last_field(A.peel(e)[2][0])))
        wfields[v] = (items, seps_ok)
    tp = prog.find("zones::deserialise::try_parse_rtype_with_data")
    tpr = A.Resolver(tp)
    tpc = A.Conds(tp, tpr)
    pfields = {}
    for b, i, st in A.aggregates(tp, codec.RTWD):
        e = tpr.rvalue(st["rv"], (b, i))
        v = e[2]
        items = []
        for fname, fe in e[3]:
            x = A.peel_refs(fe)
            kind, idx = None, None
            toks = [y for y in A.walk(fe) if y[0] == "index" and A.peel(y[1]) == ("param", 2)]
            if toks:
                ie = A.peel(toks[0][2])
                idx = ie[2] if ie[0] == "const" else None
            s = A.show(fe)
            if "deserialise::parse_domain(" in s or "parse_domain(" in s:
                kind = "domain"
            elif "FromStr for u16" in s:
                kind = "u16"
            elif "FromStr for u32" in s:
                kind = "u32"
            elif "Ipv4Addr" in s or "Ipv6Addr" in s:
                kind = "addr"
            elif toks and A.last_field(A.peel(fe)) == "1" or (toks and ".1" in s[-4:]):
                kind = "octets"
            elif fname == "tag":
                kind = "tag"
            items.append((kind, fname, idx))
        lens = [A.peel(fc[3])[2] for fc in tpc.facts_on_all_paths(b) if fc[0] == "cmp" and fc[1] == "Eq" and bool(Call("len", Param(2))(fc[2])) and A.peel(fc[3])[0] == "const"]
        lens += [fc[2] for fc in tpc.facts_on_all_paths(b) if fc[0] == "inteq" and bool(Call("len", Param(2))(fc[1]))]
        arm = [fc[1] for fc in tpc.facts_on_all_paths(b) if fc[0] == "is" and fc[1] in ftypes]
        pfields[v] = (items, lens[-1] if lens else None, arm[-1] if arm else None)
    ctx.floor("C13.4", "writer RDATA arms", len(wfields), 19, exact=True)
    for v in sorted(wfields):
        items, seps_ok = wfields[v]
        p = pfields.get(v)
        if p is None:
            ctx.bad("C13.4", "rdata-arm:" + v, "the writer prints %s records but the zone parser has no arm for them (text not readable back)" % v, sr.loc())
            continue
        pitems, plen, parm = p
        data = [(k, f) for k, f, i in sorted([x for x in pitems if x[0] != "tag"], key=lambda x: (x[2] is None, x[2]))]
        idxs = sorted(i for k, f, i in pitems if k != "tag")
        ok = [(k, f) for k, f in items] == data and idxs == list(range(1, len(items) + 1)) and plen == len(items) + 1 and parm == v and seps_ok
        ctx.check(ok, "C13.4", "rdata-arm:" + v, "writer fields %s = parser fields (tokens 1..%d, len == %d)" % (items, len(items), len(items) + 1),
                  "RDATA text of %s: writer %s, parser %s (token count %s, arm %s)" % (v, items, pitems, plen, parm), sr.loc())

    # ---------------------------------------------------------------- C13.5
    zs = prog.fn(ZIMPL + "serialise")
    zsr = A.Resolver(zs)
    zsc = A.Conds(zs, zsr)
    sd = prog.fn(ZIMPL + "serialise_domain")
    sdr = A.Resolver(sd)
    sdc = A.Conds(sd, sdr)
    # header: "$ORIGIN" written iff soa.is_some() && !apex.is_root()
    origin_writes = []
    for b, t in zs.calls():
        if (t.get("callee") or "").endswith("Arguments::<'a>::new"):
            tpl = A.peel(zsr.call_expr(t, b)[2][0])
            dec = zonetext.decode_template((tpl[3] or {}).get("bytes") or []) if tpl[0] == "const" else None
            if dec and dec[0] == ("lit", "$ORIGIN "):
                origin_writes.append(b)
    ctx.floor("C13.5", "$ORIGIN line", len(origin_writes), 1, exact=True)
    for b in origin_writes:
        g1, _ = zsc.guarded(b, lambda fc: fc[0] == "is" and fc[1] == "Some" and A.peel(fc[2])[0] == "call" and A.peel(fc[2])[1] == Z + "Zone::get_soa")
        # the condition `!apex.is_root()`, tested directly or through a bool variable (whatever its name)
        def not_root(x):
            d = A.peel(x)
            return d[0] == "un" and d[1] == "Not" and bool(Call("DomainName::is_root", Call("Zone::get_apex", Param(1)))(d[2]))
        def apex_not_root(fc):
            if fc[0] == "ltruth" and fc[2] is True:
                return not_root(zsr.local(fc[1], (b, "term")))
            if fc[0] == "truth" and fc[2] is True:
                return not_root(fc[1])
            if fc[0] == "call" and fc[1].endswith("DomainName::is_root") and fc[3] is False:
                return bool(Call("Zone::get_apex", Param(1))(fc[2][0]))
            return False
        g2, _ = zsc.guarded(b, apex_not_root)
        okd = g2
        ctx.check(g1 and g2 and okd, "C13.5", "header:$ORIGIN-condition", "$ORIGIN printed iff the zone has a SOA and the apex is not the root", "$ORIGIN condition changed", zs.loc(b))
    # serialise_domain: absolute form iff apex.is_root() || !is_authoritative() || !is_subdomain_of(apex); "@" iff name == apex; else relative labels
    rets = A.return_exprs(sd, sdr)
    abs_calls = [b for b, t in A.call_blocks(sd, A.name_is(T + "DomainName::to_dotted_string"))]
    at = [b for b, t in sd.calls() if A.peel(sdr.call_expr(t, b)[2][0] if t["args"] else ("x",))[0] == "const" and A.peel(sdr.call_expr(t, b)[2][0])[2] == "@"]
    rel = [(b, i) for b, i, st in A.aggregates(sd, T + "DomainName")]
    ctx.check(len(abs_calls) == 2 and len(at) == 1 and len(rel) == 1, "C13.5", "serialise_domain:forms", "three renderings: absolute, @, relative", "renderings: %d absolute/relative calls, %d '@', %d relative constructions" % (len(abs_calls), len(at), len(rel)), sd.loc())
    for b in at:
        g = [sdc.guarded(b, lambda fc: fc[0] == "call" and fc[1] == T + "DomainName::is_root" and fc[3] is False)[0],
             sdc.guarded(b, lambda fc: fc[0] == "call" and fc[1] == Z + "Zone::is_authoritative" and fc[3] is True)[0],
             sdc.guarded(b, A.cmp_fact({"Eq"}, lambda x: A.peel(x) == ("param", 2), lambda x: bool(Call("Zone::get_apex")(x))))[0]]
        ctx.check(all(g), "C13.5", "serialise_domain:at-condition", "`@` only for the apex of an authoritative zone with a non-root apex (exactly when $ORIGIN is printed)",
                  "`@` rendering guards (apex not root, authoritative, name == apex) = %s: `@` can be written into a file that has no $ORIGIN" % g, sd.loc(b))
    for b, i in rel:
        g = [sdc.guarded(b, lambda fc: fc[0] == "call" and fc[1] == T + "DomainName::is_root" and fc[3] is False)[0],
             sdc.guarded(b, lambda fc: fc[0] == "call" and fc[1] == Z + "Zone::is_authoritative" and fc[3] is True)[0],
             sdc.guarded(b, lambda fc: fc[0] == "call" and fc[1] == T + "DomainName::is_subdomain_of" and fc[3] is True)[0],
             sdc.guarded(b, A.cmp_fact({"Ne"}, lambda x: A.peel(x) == ("param", 2), lambda x: bool(Call("Zone::get_apex")(x))))[0]]
        ctx.check(all(g), "C13.5", "serialise_domain:relative-condition", "relative form only for strict subdomains of a non-root apex of an authoritative zone (the conditions under which $ORIGIN is printed)",
                  "relative rendering guards (apex not root, authoritative, subdomain, != apex) = %s" % g, sd.loc(b, i))
        e = sdr.rvalue(sd.blocks[b]["stmts"][i]["rv"], (b, i))
        d = dict(e[3])
        lab = A.peel(d["labels"])
        okl = bool(A.calls_in(d["labels"], lambda n: n.endswith("::index"))) and any(A.path_str(x) == "param2.labels" for x in A.walk(d["labels"]))
        ctx.check(okl, "C13.5", "serialise_domain:relative-labels", "relative name = the leading labels of the name", "relative labels are %s" % A.show(lab)[:100], sd.loc(b, i))
    # is_authoritative <=> soa.is_some(): same condition as the header's
    ia = prog.fn(Z + "Zone::is_authoritative")
    gs = prog.fn(Z + "Zone::get_soa")
    iar, gsr = A.Resolver(ia), A.Resolver(gs)
    ok = all(bool(Call("is_some", Path("param1.soa"))(e)) for b, e in A.return_exprs(ia, iar)) and all(A.path_str(e) == "param1.soa" for b, e in A.return_exprs(gs, gsr))
    ctx.check(ok, "C13.5", "authority-predicates-agree", "is_authoritative() = soa.is_some() = get_soa().is_some()", "is_authoritative / get_soa disagree", ia.loc())
    # the escaped rendering is applied to every name and to the apex
    outs = [A.peel(e) for b, e in rets]
    ctx.check(all(o[0] == "call" and o[1] == ZS + "serialise_octets" and A.peel(o[2][1])[2] is False for o in outs) and bool(outs), "C13.5", "serialise_domain:escaped",
              "names are rendered through serialise_octets(.., unquoted)", "names bypass the escaping", sd.loc())
    # the names written are the names of the ordinary records and of the wildcard records: both key sets flow into the list
    colls_ = [zsr.call_expr(t, b) for b, t in A.call_blocks(zs, A.name_endswith("Iterator::collect"))]
    def key_sources(e):
        out = set()
        for x in A.walk(e):
            if x[0] == "call" and x[1].endswith("HashMap::<K, V, S, A>::keys") and x[2]:
                src = A.peel(x[2][0])
                for y in A.walk(src):
                    if y[0] == "call" and y[1] in (Z + "Zone::all_records", Z + "Zone::all_wildcard_records"):
                        out.add(y[1].rsplit("::", 1)[-1])
        return out
    ksrc = set()
    for ce in colls_:
        ksrc |= key_sources(ce)
    csets = {A.show(A.strip_refs(x)) for ce in colls_ for x in A.walk(ce) if x[0] == "call" and x[1].endswith("HashSet::<T>::new")}
    for b, t in A.call_blocks(zs, A.name_endswith("HashSet::<T, S, A>::insert")):
        e = zsr.call_expr(t, b)
        if A.show(A.strip_refs(e[2][0])) in csets:
            ksrc |= key_sources(e[2][1])
    ctx.check(ksrc == {"all_records", "all_wildcard_records"}, "C13.4", "Zone::serialise:names", "every name holding ordinary or wildcard records is written",
              "the names written come from %s only" % sorted(ksrc), zs.loc())
    # the writer leaves none of its loops early: every name and every record is visited
    ee = A.early_loop_exits(zs, zsc)
    ctx.check(not ee, "C13.4", "Zone::serialise:no-early-exit", "the record loops end only when their iterator is exhausted",
              "a record loop of Zone::serialise can be left early (records after that point are not written): %s" % [zs.loc(a) for h, a, s_ in ee], zs.loc())
    # ... and every record visited is written: in each record loop a cycle that does not pass the write of that record's
    # RDATA exists only behind `rtype() == SOA` (the apex SOA is written once, at the top)
    written = {}
    for b, t in A.call_blocks(zs, A.name_endswith("Zone>::serialise_rdata")):
        e = zsr.call_expr(t, b)
        src = next((A.iter_elem_source(x) for x in A.walk(e[2][1]) if A.iter_elem_source(x) is not None), None)
        if src is None:
            continue
        # which map the list comes from: the receiver of the look-up (the key - a name - may itself derive from both maps)
        maps = [g[2][0] for g in A.walk(src) if g[0] == "call" and g[1].endswith("HashMap::<K, V, S, A>::get") and g[2]] or [src]
        which = {y[1].rsplit("::", 1)[-1] for m_ in maps for y in A.walk(m_) if y[0] == "call" and y[1] in (Z + "Zone::all_records", Z + "Zone::all_wildcard_records")}
        inner = [(h, body) for h, body in zs.loops() if b in body]
        if not inner or len(which) != 1:
            continue
        h, body = min(inner, key=lambda x: len(x[1]))
        wr = [wb for wb, wt_ in A.call_blocks(zs, A.name_endswith("Write::write_fmt")) if wb in body and zs.dominates(b, wb)]
        def is_soa(fc):
            if fc[0] != "cmp" or fc[1] != "Eq":
                return False
            for x, y in ((fc[2], fc[3]), (fc[3], fc[2])):
                py = A.peel(y)
                if py[0] == "agg" and py[2] == "SOA" and any(z[0] == "call" and z[1].endswith("RecordTypeWithData::rtype") for z in A.walk(x)):
                    return True
            return False
        soa_edges = [(a_, s_) for a_, s_ in zsc.edges_where(is_soa) if a_ in body]
        skipping = zs.has_cycle(removed_blocks=wr, removed_edges=soa_edges, within=body)
        written[which.pop()] = bool(wr) and not skipping
        ctx.check(bool(wr) and not skipping, "C13.4", "Zone::serialise:record-written@%s" % zs.loc(h).split(":")[-1], "every record of the list is written (only a SOA is skipped)",
                  "a record can be passed over without being written", zs.loc(h))
    ctx.check(set(written) == {"all_records", "all_wildcard_records"}, "C13.4", "Zone::serialise:record-loops", "one writing loop over the ordinary and one over the wildcard records of a name",
              "writing loops found for %s" % sorted(written), zs.loc())
    # every caller decides `quoted` with a literal: true only for the character-string / opaque RDATA fields (which are
    # written inside quotes), false for every name (a name is never quoted, so a space in it must be escaped)
    for fn_, b_, t_ in A.who_calls(prog, ZS + "serialise_octets"):
        ce = A.Resolver(fn_).call_expr(t_, b_)
        q = A.peel(ce[2][1])
        what = A.last_field(A.peel_until_call(ce[2][0], "nothing")) if True else None
        is_octets_field = A.last_field(ce[2][0]) == "octets" or (A.path_str(ce[2][0]) or "").endswith(".octets")
        ok = q[0] == "const" and ((q[2] is True and is_octets_field) or (q[2] is False and not is_octets_field))
        ctx.check(ok, "C13.5", "serialise_octets:quoted@%s:%s" % (A.short(fn_.key), "octets" if is_octets_field else "name"),
                  "quoted rendering for RDATA octet strings only; names are rendered unquoted (spaces escaped)",
                  "serialise_octets(%s, quoted = %s)" % (A.show(ce[2][0])[:60], A.show(q)), fn_.loc(b_))
    # wildcard lines: "*." + same rendering
    star = []
    for b, t in zs.calls():
        if (t.get("callee") or "").endswith("Arguments::<'a>::new"):
            tpl = A.peel(zsr.call_expr(t, b)[2][0])
            dec = zonetext.decode_template((tpl[3] or {}).get("bytes") or []) if tpl[0] == "const" else None
            if dec and dec[0] == ("lit", "*."):
                star.append((b, dec))
    ctx.check(len(star) == 1 and [x[0] for x in star[0][1]].count("arg") == 4, "C13.5", "wildcard-line", "wildcard records are written as `*.<name> <ttl> IN <type> <rdata>`", "wildcard line format changed", zs.loc())
    # ztoz
    m = [(t.get("resolved") or t.get("callee") or "") for f_ in prog.family("ztoz::main") for _, t in f_.calls()]
    ctx.check(any(n.endswith("Zone>::deserialise") for n in m) and any(n.endswith("Zone>::serialise") for n in m), "C13.5", "ztoz", "ztoz = Zone::deserialise then Zone::serialise", "ztoz does something else", prog.fn("ztoz::main").loc())
